ASBUILT = {
"C01": """* **As built** (`props/c01.py`, 56 quick / 72 thorough obligations, 2 s / 16 s): families `full_contraction`,
  `tag_contraction`, `cumulative_contraction`, `exponent_propagation`, `dense_norm_overlap_trace`, `structured_1d`,
  `linear_operator`. Geometries: chain, loop, hyper-index (label on 3 tensors), disconnected, scalar tensor, ring4,
  MPS(L=3); ≤ 4 tensors, ≤ 6 labels, rank ≤ 3, dims {1,2,3}; `optimize` None / greedy / auto / explicit paths
  (thorough: every linear path, `optimal`, a `ContractionTree`); stored exponent symbolic. All Q-ID. The exhaustive
  geometry list of the plan was replaced by this hand-picked list (stated bound). After the seeded campaign:
  `norm` / `make_norm` / `overlap` / `make_overlap` with every subset of the outer labels as explicit `output_inds`,
  and every derivation word of length ≤ 3 over `{H, T, conj}` of a `TNLinearOperator` (dense form, action, rmatvec,
  matmat, trace). Found and fixed: `contract_tags` dropping the exponent, `TNLinearOperator` ignoring the exponent,
  `trace()` / `astype()` ignoring the conjugation flag (§5).
  Third round: degenerate networks (a single tensor, a lone scalar, an outer product — nothing to contract, so the executor may hand
  back the stored array itself) in every family, and two goals after all routes of `full_contraction`: the network still denotes its
  value (stored arrays untouched by out-of-place calls) and a repeated `contract(all)` gives it again.""",
"C02": """* **As built** (`props/c02.py`, one family `scenario`, 56 quick / 361 thorough, 18 s / 4 min): ≤ 6 symbolic index
  labels + ≤ 3 symbolic tags, ≤ 3 tensors (rank ≤ 2), ≤ 3 networks, histories of ≤ 4 operations: hand-picked scenarios
  plus all ordered pairs (quick) / triples (thorough) of a 12-operation core vocabulary on the two-tensor start state.
  Every feasible aliasing pattern of the labels is a path (≈ 4.7 k paths quick, 16 k thorough; 30 k / 97 k z3 queries).
  Oracle as planned (fresh scan + the library's own fresh constructor for labels repeated on one tensor). Steps whose
  target does not exist after an earlier step (e.g. `tensor1@A` after a pop) are skipped scenarios, not errors.
  After the seeded campaign: the known-finding marker is set only by `modify`/`reindex` steps executed while a label is
  repeated on one tensor (it used to be sticky for every history that met a repetition and so masked a seeded change
  in `_unlink_inds`); the combine oracle checks per axis that every outer label of the added network is kept.
  Fixed: stale inner/outer classification after popping a tensor with a repeated label. Known finding: histories that
  *create or remove* a repetition of a label on one tensor through `modify`/`reindex` (marker
  `[repeated-label-history]`, §5). After the second seeded round (sub-agent, 122 quick / 564 thorough obligations): every
  non-virtual way of duplicating a network or a tensor followed by mutations on either side (`s_dup`, `s_tensor_dup`), emptying
  and re-use (`remove_all_tensors`, `delete`, then adds / in-place combines, with a virtual view alive), `make_norm` over every
  `mangle_append` / `layer_tags` / `return_all` value, in-place combines, and `oset_ops` — every public operation of the ordered
  set the maps are built from, against an ordered-list model with independence of results from operands. Fixed: `copy.copy(oset)`
  sharing storage (§5).""",
"C03": """* **As built** (`props/c03.py`, written by a sub-agent and reviewed; 87 quick / 124 thorough, 11 s / 75 s):
  reflection finds 147 own `(f, f_)` pairs on 19 classes plus 5 inherited pairs whose two spellings resolve to
  different functions, and 31 binary dunders. 107 pairs run on symbolic entries (stub-based ones with the LAPACK stubs
  memoised so that two calls on structurally identical input return the same factors), 40 (iterative, truncating, RNG,
  dtype casts) on concrete data inside the same harness. Goals per pair: (i) deep fingerprint of receiver, an earlier
  copy and all arguments unchanged (structure, `id(data)`, content); (ii) `f(x)` equals `f_(copy x)` tensor by tensor
  after canonicalising random bond names; (iii) every stored-axis permutation of the tensors involved gives the same
  labelled result (dense value for gauge-dependent results); (iv) reversed insertion order. Fixed: 4 defects
  (`expand_bond_dimension(inplace=False)`, `MPS.flip_`, `PEPS3D.reindex_sites_`, `IsoTensor.fuse_`); known finding:
  `isometrize` column order (§5). After the second seeded round: the *derived label views* (`sites`, `site_inds`, `upper_inds`,
  `lower_inds`, … read through the public, cached properties) are part of what is compared between `f(x)` and `f_(copy x)`, the
  copy's caches having been read before the in-place call; operator `align` cases that change the naming scheme; `isel` with
  mixed selector kinds; an exception raised by the library on arguments from the documented domain is a goal failure. Fixed:
  `measure_(remove=True)` keeping stale cached site properties (§5).
  Third round: `network_sums_axis_order` — `tensor_network_sum`, `a + b` / `a - b` on arbitrary-geometry vectors and on MPS with the
  stored axes of **either** operand permuted independently (12 + 10 operand pairs), operands untouched.""",
"C05": """* **As built** (`props/c05.py`, 123 quick / 411 thorough, 8 s / 2 min): `split_exact` (10 methods × every absorb
  alias × tall / wide / dim-1 bipartitions; product == input and promised isometry, by certificates), `truncation_rule`
  (both `_trim_and_renorm_svd_result` variants on n ≤ 4 (5) *symbolic ordered* singular values, symbolic cutoff, all 6
  cutoff modes, max_bond ∈ {−1,1,2,3}, renorm ∈ {0,1,2}: kept count is the least admissible, never 0, never above the
  cap, kept values are the leading prefix, reported error² = discarded weight, renormalisation keeps the requested
  norm, generic and accelerated variants agree — SX forks on the comparisons), `absorb_forms`, `isometrize_methods`,
  `fuse_unfuse_roundtrip`, `option_parsing_history` (memoised option parsers under every call order of
  equal-hashing spellings). After the seeded campaign: strictly tall complex inputs for every method × absorb, and
  static truncation (no dynamic cutoff) in `truncation_rule` — before, the cutoff was always a positive symbol and the
  `max_bond`-only branch never ran. Fixed: 5 defects (cholesky absorb, drivers ignoring absorb, generic renorm power,
  `absorb='U,s,VH'` alias, `renorm=True`/`1` cache collision) (§5). Randomised / iterative drivers are outside.
  Third round: on shapes for which the library warns "not well-defined" (polar factor of a wide / tall input) no isometric factor is
  promised, but a factor that *is* flagged through `left_inds` must still be an isometry — those goals are no longer skipped (the
  polar factors were flagged there: fixed, §5).""",
"C06": """* **As built** (`props/c06.py`, 90 quick / 141 thorough, 8 s quick): `gate_lazy_eager`, `gate_split_modes`,
  `gate_mps_modes`, `gate_operator_network`, `gate_peps`, `gate_tag_propagation`, `gate_inds_with_tn`,
  `gate_mixed_dims`, `tensor_gate_method` on MPS L=3 (open, cyclic), a 4-node graph state, 2×2 PEPS, MPO L=3; symbolic
  complex non-unitary 1-, 2-, 3-site gates in matrix and tensor form on every ordered target tuple; split modes use
  the stubs with real entries. Some thorough-only split-mode cells on the graph geometry exceed the certificate
  budget and are reported inconclusive (non-mandatory). After the seeded campaign (sub-agent, 312 quick obligations,
  ≈ 20–90 s): `tensor_gate_options` (every axis × `preserve_inds` × transpose × in-place, square / wide / tall gates),
  `gate_object_reuse_inds_with_tn`, `op_object_reuse` (gate and operator objects untouched and re-usable at every
  gating entry point; sub-operators on vector **and operator** targets), `gate_array_reuse`, and a `gate_simple`
  family with symbolic positive gauges on every bond (one-site, nearest-neighbour by certificates, renorm; the
  long-range value goal is a numeric-only supplement). Fixed: `tensor_network_apply_op_op` with a sub-operator
  renaming all site labels of the target (§5). Final state of the thorough tier (378 obligations, ≈ 140 s): 29 cells whose
  certificate search never returned a verdict (measured: 400 CPU s and up to 10 GB each — split / reduce-split of a pair on the
  4-node graph, the chained MPS modes `nonlocal` / `gate_nonlocal` / `gate_with_submpo`, PEPS D = 2 split modes, two non-adjacent
  `gate_simple` pairs) are now run **numeric-only** (symbolic run skipped with a note; a raising numeric run is inconclusive);
  before that change the thorough command exited 3, which I had not noticed because the run had been interrupted.
  Third round (sub-agent): `mps_entry_mixed_dims` (17 entry points × mixed-dimension chains × every ordered site tuple, gate as matrix /
  tensor, plain / in place), `mpo_apply_options` (`gate_with_mpo` / `gate_with_submpo` / `gate_nonlocal` × transpose × method × in
  place with one re-used non-symmetric operator), `mpo_apply_single_site` (one-site operators; `dm` / `zipup` raise — known finding).""",
"C07": """* **As built** (`props/c07.py`, 195 quick obligations after the seeded campaign, ≈ 120–170 s, dominated by `param_gate[SU4]`): `constant_gates`, `param_gate[name]` (every
  registered parametrised builder is unitary for all parameter values: half-angle `expi` generators),
  `param_gate_relations`, `exact_simulators[sim,cfg,prog]` (Circuit in 5 `gate_contract` modes + CircuitDense × 10
  programs on 3 qubits incl. SWAP/IDEN, idle wires, controls, raw symbolic matrices: to_dense, amplitudes, unitary,
  partial traces, local expectations, marginals), `mps_simulators` (CircuitMPS / CircuitPermMPS, cutoff 0, stubs),
  `history_no_stale_cache`, `history_param_update`, `samplers_numeric` (numeric only). Queries are called with
  simplification passes switched off (their structure detection is C04's subject). Numeric gate splitting
  (`split-gate` modes on constant gates) produces float constants identified up to 64 ulp. Fixed: SWAP on
  CircuitPermMPS, `get_uni` dropping idle / swapped wires (§5). After the seeded campaign (sub-agent):
  `history_named_params` (named parameters registered directly or through OpenQASM 3 `input`, 12 update histories by
  name / index / mixed, every cached query after every step), `mps_simulators` query kinds rdm / expectation / marginal
  on programs with complex amplitudes (decided in two stages: state == reference, query == the same quantity of the held
  dense state), `perm_tracking` (a non-adjacent gate, then SWAP on every pair, then further gates; 3 and 4 qubits, all
  simulators), `mps_lazy_numeric` (labelled numeric-only). PEPS/PEPO simulators are outside.
  Third round: `simple_update_circuits_numeric` (labelled numeric-only) — `CircuitPEPSSimpleUpdate` / `CircuitPEPOSimpleUpdate` on tree
  geometries (chains, a star), untruncated: one- and two-site `local_expectation` for every edge in both orientations with
  exchange-asymmetric observables == dense.""",
"C08": """* **As built** (`props/c08.py`, 64 quick / 159 thorough, 3 s quick): `history` (≤ 3 operations from canonize / shift
  / gate (split, nonlocal, swap+split) / compress / measure / svals / rdm on L = 3–4, D = d = 2, real symbols, cutoff 0:
  after every step the recorded `(lo, hi)` window is *true* — isometry certificates for every site outside it),
  `consumer` (each consumer that trusts the record — expectation, Schmidt values, entropy, sampling marginals, local
  gates — equals the dense answer given the record as hypothesis), `record_parsing`. After the seeded campaign
  (164 quick obligations, ≈ 85 s): `canonicalize_window` — **one step from an arbitrary state satisfying an arbitrary
  true record `(lo, hi)`** for every window in both site orders; consumers starting from genuine range records, on
  descending site tuples, one-site gates off the centre, `compress_site(canonize=False)`. Fixed: stale record after
  `swap_sites_with_compress(absorb='both')`, `measure(remove=True)`, `compress_site(canonize=False)`, `sample` /
  `sample_configuration` overwriting the caller's record, `magnetization('Y')` sign (§5); known: one-site
  non-unitary gate off the centre leaves the record stale (§5.2). L = 4 histories of length 3 with two
  decompositions are the heaviest certificates (minutes); those that exceed the budget are inconclusive, never
  counted.
  Third round: the `consumer` family also runs on **complex** canonical states (conjugate-pair symbols, the record's
  isometry hypotheses `A†A = I` and their conjugates) with complex operators: one- and two-site expectations in both site orders,
  reduced states, `magnetization` in X / Y / Z, one-site gates, Schmidt values, forced measurement, sums of local terms
  (36 cells, ≈ 30 s; reverting the `magnetization('Y')` repair is now reported by the solver, not only by the numeric run).""",
"C09": """* **As built** (`props/c09.py`, sub-agent + review; 117 quick, ≈ 70 s): 35 families (constructors incl. site
  subsets, from_dense, fill functions, arithmetic, apply, overlaps, traces, partial traces, Schmidt routines,
  `compress_exact`, `compress_capped`, `class_compress`, `sweep_compress`, `compress_options`,
  `compress_iterative_numeric` — numeric-only, now also with caps above the methods' internal starting sizes and off
  their doubling grids). Bounds in `META`. Fixed: 7 defects (§5). After the second seeded round: the option *pair*
  `normalize=True, sweep_reverse=True` for every direct-type method, and `partial_trace_dense_canonical`
  (`partial_trace_to_dense_canonical` / `local_expectation_canonical` for ascending **and non-ascending** site tuples).
  Third round (sub-agent): `spin_ham_builder` (11 families of `SpinHam1D` term lists — several one- and two-site terms on the same
  site / bond, overrides, `+=` / `-=` in any order — through `build_mpo`, `build_sparse`, `build_local_ham` against an independent
  dense sum) and `hamiltonian_generators` (`MPO_ham_ising / XY / heis / XXZ / bilinear_biquadratic / mbl` with their less-travelled
  options). Numeric tables compared by evaluation (the builder allocates a complex table). Fixed: bilinear-biquadratic term,
  sums ignoring stored exponents (§5).""",
"C10": """* **As built** (`props/c10.py`, 22 quick, ≈ 30 s): `energy_network` (the network DMRG optimises equals
  ⟨ψ|H|ψ⟩ for complex Hermitian MPOs — this is what exposed the transposed-Hamiltonian defect), `moving_environment`
  (every stored environment × excluded part == whole, both directions, segment edge cases), `sweep_energy` (one sweep
  with the local eigensolver replaced by its contract: returned energy == ⟨ψ|H|ψ⟩/⟨ψ|ψ⟩ of the returned state and ≤ the
  starting energy; L = 2 mandatory, L = 3–4 thorough non-mandatory), `bond_cap`, `numeric_ground_state` (numeric
  supplement). After the seeded campaign (34 quick obligations): `effective_hamiltonian` (the operator handed to the
  eigensolver, dense **and matrix-free**, satisfies the bilinear identity `z†(A x) = ⟨k[z]|H k⟩` for complex
  non-symmetric H) and `solve_driver` (the real `solve()` with the sweep replaced by symbolic energies: schedules of
  bond caps / cutoffs / directions across sweeps and across two calls, `energy` is the last sweep's, convergence flag
  and early stop). Fixed: 2 defects (§5). Convergence to the ground state is outside (iterative). After the second seeded
  round (sub-agent, 102 quick obligations ≈ 60 s): `truncated_update_energy` (two-site updates whose split really truncates),
  `solve_resume_history` (three consecutive `solve()` calls on one object, symbolic sweep energies), `solve_presweep_state`,
  `sweep_chain`, `canonize_mirrors_bra`, `local_update_mirrors_bra` (bra == conj(ket) tensor by tensor for complex states). Fixed:
  DMRG2 with open boundaries not renormalising after a truncating split — the reported energy could lie *below* the exact ground
  energy (§5); since that fix the DMRG2 "state normalised" goal is numeric-only (explicit division by a tensor norm), the energy
  goals stay certified.
  Third round: `compress_method_options_numeric` (labelled numeric-only) — DMRG2 with every `opts['bond_compress_method']`
  (`svd`, `svd:eig`, `eig`, `svds`, `isvd`) × sweep sequence × bond cap (below / odd inside / above the exact rank) on a complex
  Hermitian MPO with `cutoffs=0.0`: energy = Rayleigh quotient of the returned state ≥ exact ground energy, every bond ≤ cap, no energy
  rise between untruncated updates, converged energy exact. (The split kernels themselves stay C05's symbolic subject: the seeded
  conjugation slip in `_svd_via_eig_numba` is reported by C05 `split_exact` as well.)""",
"C11": """* **As built** (`props/c11.py`, 67 quick, 7–15 s): `local_ham_terms` (LocalHam1D term assembly, open/periodic,
  odd/even L = 2–5), `time_bookkeeping` (symbolic `t0, dt, T` with 0 < dt, ≤ 4 steps: the sequence of applied step
  sizes sums exactly to `T − t0`, final partial step, order 1/2/4 schedules — SX forks on the float comparisons of the
  real `TEBD.update_to`), `real_step`, `local_ham_expm`, `schedule_order_conditions` (Trotter order conditions of the
  4th-order coefficients as polynomial identities). After the seeded campaign (86 quick obligations): default
  (`None`) term plus overrides keyed in either orientation, the bookkeeping goals evaluated at every state *yielded by
  `at_times`*, and — through a recorder that tracks the orthogonality centre — "the site renormalised in imaginary
  time is the centre". Fixed: `LocalHamGen.get_gate` pair order, imaginary-time renormalisation after a left sweep
  (§5). After the second seeded round: `gen_sweeps` — the arbitrary-geometry `TEBDGen` / `TEBDSweepMixin` over three successive
  sweeps on a chain, a triangle and a star, for every ordering kind (named `sort` / `random` / `random-ungrouped`, explicit tuple /
  list, callable, dynamic) with and without `second_order_reflect`: the symbolic run replaces the documented extension point
  `gate` by a recorder (symbolic terms, uninterpreted exponentials: sequence and generators), the numeric run gates the real
  network and compares dense states; "the caller's ordering object is not modified".
  Third round (sub-agent): `local_ham_terms_lattice` (symbolic: `LocalHam2D` / `LocalHam3D` on 2×2 … 3×3 / 2×2×2 … lattices, open and
  cyclic, default term + overrides keyed in either orientation, one- and two-site terms: stored terms, `get_gate` in both
  orientations, dense sum) and `driver_state_histories` (numeric-only: histories of evolve / checkpoint / read / assign on one
  `SimpleUpdateGen` / `SimpleUpdate` / `TEBDGen` object, `update` sequential and parallel). Fixed: `set_state` with
  `update='parallel'` (§5).""",
"C13": """* **As built** (`props/c13.py`, sub-agent + review; 154 quick, ≈ 50–60 s): families `exact_routes`,
  `cluster_routes`, `loop_expansion_routes`, `mps_env_and_exact_routes`, `mps_canonical_routes`, `peps_2x2_routes`,
  `peps_boundary_routes`, `peps3d_routes`, `compressed_contraction_routes`, `norms`, …; ratios are compared
  cross-multiplied. After the seeded campaign: cluster routes called with a (non-binding) bond cap, which switches
  them to the compressed-contraction branch; the `equalize_norms` × `first_contract` × `second_dense` grid of the 2D
  boundary routes (symbolic cells in the thorough tier, a labelled numeric-only supplement in the quick tier).
  Fixed: `partial_trace_exact(get='tensor')`, two exponent-bookkeeping defects of the 2D plaquette environments under
  `equalize_norms` (§5). Known finding: `normalized='global'` loop expansion with gauges (§5).
  Third round (sub-agent): `peps_normalize_numeric` (`normalize()` on PEPS and on 2D vector networks whose tensor count differs from the
  site count, option grid) and `mps_canonical_routes_calc_numeric` (canonical routes called **without** a record on un-normalised
  states that are canonical up to per-tensor scalars; `calc_current_orthog_center` must return a true record) — both numeric-only.""",
"C15": """* **As built** (`props/c15.py`, sub-agent + review; 232 quick, ≈ 25 s): 32 families; value level with all matrix
  entries symbolic over 12 (39) dimension lists; ownership ranges `ri, rf` symbolic; `dim_map` with unbounded symbolic
  integer coordinates; sparse formats with fixed dyadic entries in symbolic mode (scipy.sparse cannot hold symbols) —
  those cells are decided by the numeric run and labelled so. 8 known-finding families (sparse / size-1 edge cases,
  §5).""",
"C16": """* **As built** (`props/c16.py`, 57 quick, 20–50 s): `partition_positive_tb` / `partition_negative_tb` (the real
  `threading_choose_num_blocks` + `threading_get_block_range`, JIT off, `N` an **unbounded** symbolic integer ≥ 1,
  thread count concrete from {2,…,16} (2..48 thorough), sign of the target block size symbolic: blocks tile `[0, N)`
  exactly once, `num_blocks ≥ 1` — SymRat keeps `round(N/k)` in LIA), `multithread_dispatch`, `par_reduce_matches_reduce`,
  and the five kernel families on symbolic data with every block executed (disjointness ⇒ schedule independence). The
  numeric cross-run goes through `qv/jitrun.py`, a child interpreter with the JIT **on**, so replays hit the compiled
  threaded kernels. After the seeded campaign: `operator_parallel` — the `world_rank`/`world_size` striding of the
  term-operator matvec and COO kernels for symmetries None / Z2 / U1 / U1U1 and every sector on a symbolic vector
  (first declared outside; a seeded change showed it must not be). Fixed: zero blocks when
  `size_total < num_threads/2` (§5). Real thread interleavings and MPI launching are outside.""",
"C17": """* **As built** (`props/c17.py`, sub-agent + review; 208 quick, ≈ 25 s, 5 k paths): `sort_inds_rule` (symbolic
  eigenvalues incl. ties, symbolic σ), `partial_dense_select`, dispatch rules with unbounded symbolic `d`, `k`,
  window routes, `autoblock` (every symmetric zero pattern d ≤ 4), wrappers of iterative solvers given *unordered
  symbolic solver answers* (the ARPACK/LOBPCG insides are not entered), `wrapper_return_conventions`. Fixed: 5
  defects (§5).
  Third round: `lazy_scaling_algebra` — a `Lazy` operator denotes (product of all its scalings) · `fn()` for every history of ≤ 3
  scalings from {`factor=`, `*=`, `L * x`, `x * L`} with symbolic complex factors; out-of-place forms leave the receiver's denotation
  unchanged.""",
"C18": """* **As built** (`props/c18.py`, sub-agent + review; 49 quick): solve / expm / integrate set-up with symbolic
  Hermitian H, symbolic times and time sequences; the exponential is an uninterpreted function with the group law.
  Fixed: one-sided `expm` evolution of density operators, dense 2×2 `solve` crash (§5). ODE stepping is outside.""",
"C19": """* **As built** (`props/c19.py`, sub-agent + review; 242 quick, ≈ 12 s): rank/unrank kernels with a symbolic rank
  over whole sectors (64-bit bit-vectors), HilbertSpace round trips, coupling semantics on a symbolic basis
  configuration, 19 representations × 14 term lists, MPO builders vs generators, `builder_history_no_stale_cache`
  (representations rebuilt after terms were added / cancelled equal a fresh builder's). Fixed: 4 defects; known: 3
  families (§5).""",
"C20": """* **As built** (`props/c20.py`, sub-agent + review; 85 quick): 22 families over subsystem dims (2,2) (2,3) (3,2)
  (2,2,2), every entry symbolic; measures that need spectra go through the eigh/svd contracts. Fixed:
  `quantum_discord` subsystem order (§5).""",
"C14": """* **As built** (`props/c14.py`, sub-agent + review; 87 quick / 260 thorough, ≈ 70 s / 4 min): D1BP, HD1BP, HV1BP,
  L1BP, D2BP, L2BP on paths, a star, forests, a hyper-index and lazy sites; positive / real / complex symbols. Every
  normalising division is a defined inverse and the decision procedure clears the denominators (§2.3), so exactness of
  `contract()`, of every converged message (proportional to the exact cavity contraction) and of the marginals are
  rational-function identities decided for all values; schedules, `local_convergence`, normalisations, symbolic
  initial messages, damping at the fixed point, `damping_argument_order`; gauging / compression through eigh/svd
  contracts. Symbolic runs use the documented callable `distance=`, `smudge_factor=0`, dict messages; the library
  defaults run numerically. Fixed: `normalize_message_pair` sign, `HD1BP.normalize_messages` nan, L1BP/L2BP damping
  argument order (§5). After the second seeded round (sub-agent, 183 quick / ≈ 460 thorough): `d2bp_multi_dangling` (D2BP / L2BP
  on tensors with up to three dangling labels: messages, marginals of every dangling label, partial traces, value) and `run_history`
  (histories of `run()` calls on one instance for all six flavours: rounds performed and `converged` flag after each step, exact
  messages and value at the end).
  Third round: `d1bp_normalize_tensors_then_read` (symbolic, signed real by sign forks and complex: after the public in-place
  rescaling `normalize_tensors()` every local contraction is 1 and `contract()` read from the same object is still exact;
  `get_normalized_tn` leaves the object untouched) and `read_history_supplement` (numeric-only: every sequence of ≤ 3 value reads —
  `contract`, stripped `contract`, `contract_loop_series_expansion`, `contract_with_loops`, `contract_gloop_expand` with default and
  explicit covering regions — from one converged D1BP / D2BP / HD1BP object on trees and hyper trees, signed and complex data, with
  and without a stored exponent on the network). Its first run found a genuine defect, fixed: D2BP mixed a ket-level and a
  norm-level convention for `bp.sign` / `bp.exponent` (§5).""",
"C04": """* **As built** (`props/c04.py`, written by a sub-agent and reviewed; 163 quick / 1093 thorough, ≈ 35 s / 3–11 min):
  34 families. Stub-free rewrites on complex symbols with a symbolic stored exponent (`exponent_and_norms`,
  `fuse_and_squeeze`, `gauge_insert_remove` incl. exception safety of the context manager, `insert_gauge` with
  `Uinv = adj/det` as a rational identity, `hyperinds_resolve`, `balance_bond_symbolic`); structure-finder passes on
  networks with exactly diagonal / anti-diagonal / single-column / COPY tensors so that the `array_ops` finders fire
  (`structure_pass`, `rank_simplify`, `full_simplify` 96 cells, `pass_pairs` 294 ordered pairs with the first pass
  re-applied); QR/SVD-based rewrites by certificates (`canonize_bond`, `compress_bond`, `canonize_around` with the
  promised isometry-towards-region form, `gauge_all*`, `gauge_local`, `compress_all*`, `decomposition_simplify`,
  `compose_lapack` 23 sequences). 65 heavy cells and three operation families are labelled numeric-only. Fixed:
  non-inplace `pair_simplify` / `loop_simplify`, `gauge_local` losing the stripped exponent, `tensor_make_single_bond`
  naming; known: `squeeze()` default, hyper index + pairwise sweeps, `canonize_around` through a hyper index, bond
  growth with `reduced=False, cutoff=0` (§5).""",
"C12": """* **As built** (`props/c12.py`, written by a sub-agent and reviewed; 245 quick obligations ≈ 35 s, 2 426 thorough
  obligations ≈ 250 s — ≈ 800 certified modulo the stub contracts, ≈ 290 plain polynomial identities, ≈ 700 shape-only
  bond-cap runs, ≈ 600 numeric-only cells): 2D boundary
  contraction from every side / sequence / mode / option on 3×2 … 4×3 lattices (3×3 with every bond 2 in the thorough
  tier), direction wrappers, layered ⟨ψ|ψ⟩ networks, row / column / plaquette environments as sandwich identities,
  `contract_compressed` along **every** connected contraction path of a 4-ring, `contract_around`, `compress_between`
  gauge choices, the arbitrary-geometry compressors, 3D 3×2×2 lattices, periodic lattices; bond-cap goals after every step
  of a step-by-step sweep with contract-free stubs (shapes only). Projector-type schemes: product-cut symbolic instances
  + certified building blocks + numeric cross-run (see §4). Fixed: `TensorNetwork3D.contract_boundary_from(inplace=False)`
  returning `None` (§5). Observed and left outside the claim: on lattices periodic *along* the boundary line the `mps` /
  `direct` cores never compress the periodic bond itself (χ = 3 on a 4×4 lattice periodic in y leaves it at 8); the
  property speaks of "every bond it has compressed", so this is not a violation, and the cap goals on periodic lattices
  are restricted to the bonds the scheme compresses. Documented rejections excluded from the cells:
  `contract_ctmrg(mode='projector2d')` (TypeError), full-bond on lattices periodic along the line (ValueError), zipup /
  superorthogonal on a single-site boundary line, `dm` on a line without outer labels (LinAlgError). A mutation round by
  the building agent (13 one-line regressions through `QV_REPO`) was caught 13/13, 12 in the quick tier; the three
  independently seeded changes of §7 were caught 2/3 at first (the third needed the exponent to accumulate over three
  steps — depth-4 `equalize_norms` cells added).
  Third round (sub-agent): `around_every_target` (2D / 3D `contract_boundary` / `contract_ctmrg(around=…)` for every target site on
  unequal-sided lattices, five sequences, every mode: the targets stay lone tensors — symbolic structure goals — and environment ∪
  target == whole — numeric-only) and `rank_deficient_bonds_exact` (numeric-only: every bond inflated to size 3 of rank 2, every mode ×
  canonize × side, untruncated: exact).""",
}
