import re, sys, os
sys.path.insert(0, '/verif/docsrc')
from asbuilt import ASBUILT
D = '/verif/docsrc/'
old = open(D + 'DESIGN_round0.md').read() if os.path.exists(D + 'DESIGN_round0.md') else open('/verif/DESIGN.md').read()
if not os.path.exists(D + 'DESIGN_round0.md'):
    open(D + 'DESIGN_round0.md', 'w').write(old)
head = open(D + 'design_head.md').read()
s2 = open(D + 'design_s2.md').read()
i3 = old.index('## 3. Per-property plans')
i4 = old.index('## 4. Not applicable')
s3 = old[i3:i4]
s3 = s3.replace('## 3. Per-property plans', '## 3. Per-property plans and what was built')
s3 = s3.replace('Notation: **Enc**', 'The bullets **Enc / Sym / Cfg / Oracle / Proc / Out** are the round-0 plan of each property; the bullet\n'
                '**As built** states what exists, and governs wherever the two differ. The bounds in force are those in\n'
                '`props/cNN.py:META`, copied into every evidence file.\n\nNotation: **Enc**', 1)
parts = re.split(r'(?m)^(?=### C\d\d )', s3)
out = [parts[0]]
for p in parts[1:]:
    pid = p[4:7]
    body = p.rstrip('\n')
    # strip trailing separator line of the last section
    tail = ''
    if body.endswith('-' * 93):
        body = body[:-93].rstrip('\n'); tail = '\n\n' + '-' * 93
    ab = ASBUILT.get(pid)
    if ab:
        body += '\n' + ab
    out.append(body + tail + '\n\n')
s3 = ''.join(out)
rest = ''.join(open(D + f).read() for f in ('s4.md', 's5_s6.md', 's7.md', 's8.md') if os.path.exists(D + f))
import json, glob
rows, missed = [], []
def _cell(s, n=260):
    s = ' '.join(str(s).split()).replace('|', '/')
    return s if len(s) <= n else s[:n - 1] + '…'
for mp in sorted(glob.glob('/verif/seeded/*/meta.json')):
    m = json.load(open(mp))
    v = m.get('verif', {})
    cb = v.get('caught_by') or []
    rows.append(f"| {m.get('id')} | {_cell(m.get('summary', ''))} | {_cell(m.get('manifests_when', ''), 200)} | "
                f"{_cell('; '.join(cb), 220) if cb else '**missed**'} | {'missed → strengthened' if v.get('initially_missed') and cb else ('missed' if not cb else 'caught')} |")
    if not cb:
        missed.append(f"* **{m.get('id')}**: {_cell(v.get('why_missed', 'not caught'), 600)}")
fixed, known = [], []
for line in open('/verif/known_findings.txt'):
    line = line.strip()
    if line.startswith('fixed:'):
        parts = line.split(' ', 3)
        fixed.append((parts[1].split('=')[1], parts[2], parts[3] if len(parts) > 3 else ''))
    elif line.startswith('known:'):
        parts = line.split(' ', 3)
        known.append((parts[1].split('=')[1], parts[2].split('=', 1)[1], parts[3] if len(parts) > 3 else ''))
import subprocess
order = {h[:8]: k for k, h in enumerate(reversed(subprocess.run(['git', '-C', '/repo', 'log', '--format=%h'], capture_output=True, text=True).stdout.split()))}
fixed.sort(key=lambda f: order.get(f[1][:8], 10 ** 6))
ft = ['| property | commit | what failed |', '|---|---|---|'] + [f"| {p_} | {h_} | {_cell(t_, 420)} |" for p_, h_, t_ in fixed]
kl = [f"* **{p_}** (`key={k_}`): {_cell(t_, 700)}" for p_, k_, t_ in known]
rest = rest.replace('FIXED_TABLE', f"{len(fixed)} repairs (oldest first):\n\n" + '\n'.join(ft)).replace('KNOWN_LIST', '\n'.join(kl))
n_tot = len(rows); n_first = sum(1 for r in rows if r.endswith('| caught |')); n_now = sum(1 for r in rows if '**missed**' not in r)
n_fix = sum(1 for l in subprocess.run(['git', '-C', '/repo', 'log', '--format=%s'], capture_output=True, text=True).stdout.splitlines() if l.startswith('fix:'))
rest = rest.replace('FIXCOUNT', str(n_fix))
rest = rest.replace('SEED_TOTAL', str(n_tot)).replace('SEED_FIRST', str(n_first))
rest = rest.replace('SEEDED_TABLE_ROWS', '\n'.join(rows)).replace('SEEDED_MISSED', ('\n'.join(missed) if missed else 'At the time of writing every kept change is caught.') +
        f"\n\nTotals: {n_tot} kept changes; {n_first} caught by the checks as first built, {n_now} caught now.")
open('/verif/DESIGN.md', 'w').write(head + s2 + s3 + rest)
print(len(head + s2 + s3 + rest))
