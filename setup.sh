#!/bin/sh
# Offline set-up of the overlay venv used by every check (idempotent).
set -e
cd "$(dirname "$0")"
V=/verif/.venv
if [ ! -x "$V/bin/python" ] || ! "$V/bin/python" -c "import z3, jsonschema, crosshair, networkx" 2>/dev/null; then
  rm -rf "$V"
  /venv/bin/python -m venv "$V"
  SP=$("$V/bin/python" -c "import sysconfig; print(sysconfig.get_paths()['purelib'])")
  printf "import site; site.addsitedir('/venv/lib/python3.12/site-packages')\n/repo\n" > "$SP/_base.pth"
  PIP_NO_INDEX=1 "$V/bin/pip" install -q --no-index --find-links /opt/veriftools/wheels \
      z3-solver jsonschema crosshair-tool networkx cvc5 >/dev/null
fi
NUMBA_DISABLE_JIT=1 "$V/bin/python" -c "import quimb, z3; print('setup ok', quimb.__file__, z3.get_version_string())"
