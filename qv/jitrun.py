"""Run a function of a props module in a fresh interpreter with numba's JIT *enabled*.

The symbolic engines execute the Python source of the @njit kernels (JIT off).  Replays and
numeric cross-runs of threaded kernels must instead hit the code users actually run, i.e. the
compiled kernels with real threads: those go through this helper."""
import os
import pickle
import subprocess
import sys

ROOT = os.path.dirname(os.path.dirname(os.path.abspath(__file__)))


def call(module, func, *args, timeout=600):
    env = dict(os.environ)
    env.pop("NUMBA_DISABLE_JIT", None)
    env["QUIMB_NUMBA_CACHE"] = "off"
    env["QV_JIT_CHILD"] = "1"
    code = (
        "import sys, pickle; sys.path.insert(0, %r); import importlib; "
        "m = importlib.import_module(%r); a = pickle.load(sys.stdin.buffer); "
        "r = getattr(m, %r)(*a); sys.stdout.buffer.write(b'\\n@@QV@@' + pickle.dumps(r))"
    ) % (ROOT, module, func)
    p = subprocess.run([sys.executable, "-c", code], input=pickle.dumps(args), capture_output=True,
                       env=env, timeout=timeout, cwd=ROOT)
    if p.returncode != 0 or b"@@QV@@" not in p.stdout:
        raise RuntimeError("jit child failed: " + p.stderr.decode()[-1500:])
    return pickle.loads(p.stdout.split(b"@@QV@@", 1)[1])
