"""Two-mode harness layer.

A harness is ``def h(mk): ...`` written once against the *real* quimb API.  In ``sym`` mode
``mk`` hands out symbolic inputs (Poly entries in object arrays for engine ST, z3-backed
scalars for engine SX) and collects goals; the explorer re-executes it once per feasible path
and the goals are decided by the solver.  In ``num`` mode the same harness runs on plain
numpy / Python numbers (stubs are inactive: they only trigger on object dtype) -- this is the
replay of solver counterexamples against the un-stubbed real code, and the translator
validation (the same call on random points must satisfy the same goals numerically).
"""
from __future__ import annotations

import hashlib
import inspect
import random
import time
import traceback
from fractions import Fraction

import numpy as np
import z3

from . import decide as D
from . import poly as P
from . import sx


class Skip(Exception):
    """Harness decided the configuration is outside the API's domain (e.g. real code rejects)."""


REGISTRY = {}


class Obligation:
    def __init__(self, prop, name, fn, tiers, mandatory, params, opts):
        self.prop = prop
        self.name = name
        self.fn = fn
        self.tiers = tiers
        self.mandatory = mandatory
        self.params = params
        self.opts = opts

    @property
    def key(self):
        return f"{self.prop}:{self.name}"


def obligation(prop, name=None, tiers=("quick", "thorough"), mandatory=True, params=None, **opts):
    """Register harness(es).  ``params`` = list of dicts -> one obligation per entry."""

    def deco(fn):
        base = name or fn.__name__
        plist = params if params is not None else [None]
        for p in plist:
            nm = base if p is None else base + "[" + ",".join(f"{k}={_short(v)}" for k, v in p.items()) + "]"
            mand = mandatory
            tt = tiers
            if isinstance(p, dict) and ("_tiers" in p or "_mandatory" in p):
                tt = p.get("_tiers", tiers)
                mand = p.get("_mandatory", mandatory)
                p = {k: v for k, v in p.items() if k not in ("_tiers", "_mandatory")}
                nm = base + "[" + ",".join(f"{k}={_short(v)}" for k, v in p.items()) + "]"
            ob = Obligation(prop, nm, fn, tt, mand, p, opts)
            REGISTRY.setdefault(prop, []).append(ob)
        return fn

    return deco


def _short(v):
    if isinstance(v, (list, tuple)):
        return "(" + ".".join(_short(x) for x in v) + ")"
    if v is all:
        return "all"
    if callable(v):
        return getattr(v, "__name__", "fn")
    return str(v)


# ------------------------------------------------------------------------------ Mk

class Goal:
    __slots__ = ("label", "lhs", "rhs", "kind")

    def __init__(self, label, lhs, rhs, kind="eq"):
        self.label = label
        self.lhs = lhs
        self.rhs = rhs
        self.kind = kind


class Mk:
    def __init__(self, mode, env=None, seed=0, params=None):
        self.mode = mode
        self.sym = mode == "sym"
        self.env = dict(env or {})
        self.rng = random.Random(seed)
        self.goals = []            # sym: Goal with Poly lists ; num: failures only
        self.failures = []         # num mode: (label, detail)
        self.checked = 0           # number of goals / checks reached
        self.inputs = {}           # name -> kind (declared inputs, for replay files)
        self.used = {}             # name -> value (num mode)
        self.encoded = []          # real functions touched (for evidence)
        self.notes = []
        self.samples = []
        self.params = params or {}
        self.cfg_count = 0

    # -- bookkeeping -----------------------------------------------------------------
    def encodes(self, *fns):
        for f in fns:
            if f not in self.encoded:
                self.encoded.append(f)

    def note(self, s):
        if len(self.notes) < 20:
            self.notes.append(str(s))

    # -- numeric draws ---------------------------------------------------------------
    def _draw(self, name, kind):
        if name in self.env:
            v = self.env[name]
            if isinstance(v, str):
                v = complex(v) if "j" in v else float(Fraction(v))
            if isinstance(v, (list, tuple)):
                v = complex(v[0], v[1])
        else:
            r = self.rng
            q = lambda: r.choice([-1, 1]) * r.randint(1, 24) / 16
            if kind == "real":
                v = q()
            elif kind == "pos":
                v = r.randint(2, 24) / 16
            elif kind == "cplx":
                v = complex(q(), q())
            else:
                raise ValueError(kind)
        if kind in ("real", "pos"):
            v = float(v.real) if isinstance(v, complex) else float(v)
        self.used[name] = v
        return v

    # -- ST inputs -------------------------------------------------------------------
    def scalar(self, name, kind="real"):
        self.inputs[name] = kind
        if self.sym:
            return {"real": P.real, "cplx": P.cplx, "pos": P.positive}[kind](name)
        return self._draw(name, kind)

    def array(self, name, shape, kind="real"):
        shape = tuple(int(s) for s in shape)
        if self.sym:
            a = np.empty(shape, dtype=object)
        else:
            a = np.empty(shape, dtype=complex if kind == "cplx" else float)
        if shape == ():
            a[()] = self.scalar(name, kind)
            return a
        for idx in np.ndindex(*shape):
            a[idx] = self.scalar(name + "_" + "".join(map(str, idx)), kind)
        return a

    def herm(self, name, n):
        """Hermitian n x n matrix with free entries (real diagonal, conj-pair off-diagonals)."""
        a = np.empty((n, n), dtype=object if self.sym else complex)
        for i in range(n):
            a[i, i] = self.scalar(f"{name}_{i}{i}", "real")
            for j in range(i + 1, n):
                z = self.scalar(f"{name}_{i}{j}", "cplx")
                a[i, j] = z
                a[j, i] = z.conjugate()
        return a

    def symm(self, name, n):
        a = np.empty((n, n), dtype=object if self.sym else float)
        for i in range(n):
            for j in range(i, n):
                a[i, j] = a[j, i] = self.scalar(f"{name}_{i}{j}", "real")
        return a

    def const(self, x):
        """Lift a numeric array to the current mode (object array of exact constants in sym)."""
        if self.sym:
            return P.to_obj(np.asarray(x))
        return np.asarray(x)

    # -- SX inputs -------------------------------------------------------------------
    def int(self, name, lo=None, hi=None):
        self.inputs[name] = "int"
        if self.sym:
            v = z3.Int(name)
            c = sx.Ctx.cur
            if lo is not None:
                c.add(v >= lo)
            if hi is not None:
                c.add(v <= hi)
            return sx.SymInt(v)
        if name in self.env:
            v = int(self.env[name])
        else:
            l = lo if lo is not None else -64
            h = hi if hi is not None else max(l + 1, 64)
            h = min(h, l + 4096)
            v = self.rng.randint(l, h)
        self.used[name] = v
        return v

    def bv(self, name, bits=64, hi=None):
        self.inputs[name] = "int"
        if self.sym:
            v = z3.BitVec(name, bits)
            if hi is not None:
                sx.Ctx.cur.add(z3.ULE(v, z3.BitVecVal(hi, bits)))
            return sx.SymBV(v)
        if name in self.env:
            v = int(self.env[name])
        else:
            v = self.rng.randint(0, hi if hi is not None else 2 ** 16)
        self.used[name] = v
        return v

    def sreal(self, name, lo=None, hi=None):
        """A real scalar that drives *control flow* (times, cutoffs): z3 Real under SX."""
        self.inputs[name] = "sreal"
        if self.sym:
            v = z3.Real(name)
            c = sx.Ctx.cur
            if lo is not None:
                c.add(v >= _rv(lo))
            if hi is not None:
                c.add(v <= _rv(hi))
            return sx.SymReal(v)
        if name in self.env:
            x = self.env[name]
            v = float(Fraction(x)) if isinstance(x, str) else float(x)
        else:
            l = lo if lo is not None else -4.0
            h = hi if hi is not None else 4.0
            v = l + (h - l) * self.rng.randint(1, 63) / 64
        self.used[name] = v
        return v

    def label(self, name):
        """an index / tag label whose identity is symbolic: two labels may or may not be the
        same string -- equality (dict / set lookups inside the real code) is a solver decision
        and every consistent aliasing pattern is a path"""
        self.inputs[name] = "label"
        if self.sym:
            v = z3.Int(name)
            return sx.SymLabel(name, v)
        if name in self.env:
            val = f"L{int(self.env[name])}"
        else:
            val = name
        self.used[name] = int(val[1:]) if val[1:].isdigit() else val
        return val

    def choice(self, name, options):
        """A finite symbolic choice (forks one path per option)."""
        k = self.int(name, 0, len(options) - 1)
        return options[int(k) if not self.sym else k.__index__()]

    def assume(self, cond):
        if isinstance(cond, sx.Sym):
            sx.Ctx.cur.add(sx._tobool(cond))
            if not sx.Ctx.cur.feasible(z3.BoolVal(True)):
                raise sx.Abort()
        elif not cond:
            raise sx.Abort() if self.sym else Skip("assumption false in numeric mode")

    # -- goals -----------------------------------------------------------------------
    def check(self, cond, label):
        """Property assertion over control-flow scalars."""
        self.checked += 1
        if self.sym:
            c = sx.Ctx.cur
            if isinstance(cond, sx.Sym):
                e = z3.simplify(sx._tobool(cond))
                if z3.is_true(e):
                    return
                m = c.model(z3.Not(e))
                if m is not None:
                    c.violations.append((label, sx.model_to_dict(m)))
                c.add(e)
                if not c.feasible(z3.BoolVal(True)):
                    raise sx.Abort()
                if len(self.samples) < 3:
                    self.samples.append(f"check {label}: {str(z3.simplify(e))[:160]}")
            else:
                if not cond:
                    m = c.model()
                    c.violations.append((label, sx.model_to_dict(m)))
                if len(self.samples) < 3:
                    self.samples.append(f"check {label}: concrete on this path -> {bool(cond)}")
        else:
            if not bool(cond):
                self.failures.append((label, "assertion false on concrete replay"))

    def eq(self, label, lhs, rhs, tol=1e-7):
        """Array / scalar equality goal."""
        self.checked += 1
        if self.sym:
            a = P.flat_polys(lhs)
            b = P.flat_polys(rhs)
            if len(a) != len(b):
                raise AssertionError(f"goal {label}: size mismatch {len(a)} vs {len(b)}")
            self.goals.append(Goal(label, a, b))
            if len(self.samples) < 3:
                self.samples.append(f"eq {label}: lhs[0]={a[0]!r:.140} == rhs[0]={b[0]!r:.140} ({len(a)} entries)")
        else:
            a = np.asarray(lhs if not hasattr(lhs, "data") or isinstance(lhs, np.ndarray) else lhs.data, dtype=complex)
            b = np.asarray(rhs if not hasattr(rhs, "data") or isinstance(rhs, np.ndarray) else rhs.data, dtype=complex)
            if a.shape != b.shape and a.size == b.size:
                a = a.reshape(-1)
                b = b.reshape(-1)
            if a.shape != b.shape:
                self.failures.append((label, f"shape {a.shape} vs {b.shape}"))
                return
            scale = max(1.0, float(np.max(np.abs(b))) if b.size else 1.0, float(np.max(np.abs(a))) if a.size else 1.0)
            err = float(np.max(np.abs(a - b))) if a.size else 0.0
            if not (err <= tol * scale):
                self.failures.append((label, f"max|lhs-rhs|={err:.3e} scale={scale:.3e}"))

    def same(self, label, a, b):
        """Structural (non-numeric) equality: labels, shapes, tags ..."""
        self.checked += 1
        ok = a == b
        if self.sym:
            if not ok:
                c = sx.Ctx.cur
                try:
                    model = sx.model_to_dict(c.model())     # the path's model: replays on this path
                except sx.Inconclusive:
                    model = {}
                c.violations.append((label + f": {a!r} != {b!r}"[:300], model))
            if len(self.samples) < 3:
                self.samples.append(f"same {label}: {a!r:.100}")
        elif not ok:
            self.failures.append((label, f"{a!r} != {b!r}"[:300]))

    def raises(self, label, fn, excs=(Exception,)):
        """The call must be rejected."""
        self.checked += 1
        try:
            fn()
        except excs:
            return True
        if self.sym:
            c = sx.Ctx.cur
            try:
                model = sx.model_to_dict(c.model())
            except sx.Inconclusive:
                model = {}
            c.violations.append((label + ": call was not rejected", model))
        else:
            self.failures.append((label, "call was not rejected"))
        return False


def _rv(x):
    return z3.RealVal(str(Fraction(x)))


# ------------------------------------------------------------------------------ running

def source_hashes(fns):
    out = {}
    for f in fns:
        try:
            g = f
            while hasattr(g, "__wrapped__"):
                g = g.__wrapped__
            g = getattr(g, "py_func", g)
            src = inspect.getsource(g)
            name = f"{getattr(g, '__module__', '?')}.{getattr(g, '__qualname__', getattr(g, '__name__', '?'))}"
            out[name] = hashlib.sha256(src.encode()).hexdigest()[:16]
        except Exception:
            out[repr(f)[:80]] = "unavailable"
    return out


def run_obligation(ob, seed, tier):
    """Run one obligation fully (symbolic decision, replay, numeric validation).  Returns a
    JSON-able dict.  Never raises for harness-level problems: those become 'inconclusive'."""
    t_start = time.time()
    opts = ob.opts
    out = {
        "key": ob.key, "name": ob.name, "mandatory": ob.mandatory, "verdict": None,
        "paths": 0, "goals": 0, "nontrivial": 0, "checks": 0, "violations": [],
        "stats": {}, "samples": [], "encoded": {}, "notes": [], "assumed": [],
        "num_trials": 0, "procedure": [], "sx": {},
    }
    dstats = D.Stats()
    cand = []          # violation candidates: (label, env-by-name)
    inconclusive = []
    all_goal_keys = set()
    encoded = []
    hyp_count = 0
    nontrivial_keys = set()

    def run_path(ctx):
        P.reset()
        from . import stubs
        stubs.reset()
        mk = Mk("sym", seed=seed, params=ob.params)
        ctx.mk = mk
        try:
            if ob.params is None:
                ob.fn(mk)
            else:
                ob.fn(mk, **ob.params)
        except Skip as e:
            mk.note(f"skipped: {e}")
        # facts about positive symbols etc. are added lazily by ctx.polyvar
        # decide this path's goals now, while the symbol table is alive
        _decide_path(mk, ctx)
        return mk

    def _decide_path(mk, ctx):
        nonlocal hyp_count
        for f in mk.encoded:
            if f not in encoded:
                encoded.append(f)
        out["notes"].extend(n for n in mk.notes if n not in out["notes"])
        for a in P.ASSUMED:
            if a not in out["assumed"] and len(out["assumed"]) < 30:
                out["assumed"].append(a)
        for s in mk.samples:
            if len(out["samples"]) < 4 and s not in out["samples"]:
                out["samples"].append(s)
        out["checks"] += mk.checked
        if not mk.goals:
            return
        hyps = [h for _, h in P.HYP]
        hyp_count = max(hyp_count, len(hyps))
        pairs = []
        owner = []
        for g in mk.goals:
            for k, (a, b) in enumerate(zip(g.lhs, g.rhs)):
                pairs.append((a, b))
                owner.append((g.label, k))
                key = (g.label, k, hash(a), hash(b))
                all_goal_keys.add(key)
                if a.t and not a.isconst() or b.t and not b.isconst():
                    nontrivial_keys.add(key)
        out["goals"] += len(pairs)
        leaf = [i for i, k in enumerate(P.TAB.kind) if k in ("real", "cplx", "pos") and P.TAB.names[i] in mk.inputs]
        if not hyps:
            r, bad = D.q_id(pairs, dstats, timeout_ms=opts.get("solver_timeout_ms", 60000))
            if "Q-ID" not in out["procedure"]:
                out["procedure"].append("Q-ID")
            if r == "unsat":
                return
            if r == "unknown":
                inconclusive.append("Q-ID unknown")
                return
            diffs = [pairs[i][0] - pairs[i][1] for i in bad]
            env = D.find_witness(diffs, mk.rng, leaf)
            labels = sorted({owner[i][0] for i in bad})
            byname = _env_by_name(env) if env else {}
            byname.update(_pc_model(ctx))
            cand.append((";".join(labels)[:300], byname, "solver:sat(Q-ID)"))
        else:
            if "Q-CERT" not in out["procedure"]:
                out["procedure"].append("Q-CERT")
            diffs = [a - b for a, b in pairs]
            derived = [h for _, h in P.HYP_DERIVED]
            r, info = D.q_cert(diffs, hyps, dstats, rounds=opts.get("rounds", 2),
                               timeout_ms=opts.get("solver_timeout_ms", 120000),
                               max_rows=opts.get("max_rows", 120000), derived=derived)
            if r == "sat" and opts.get("rounds2"):
                r, info = D.q_cert(diffs, hyps, dstats, rounds=opts["rounds2"],
                                   timeout_ms=opts.get("solver_timeout_ms", 120000),
                                   max_rows=opts.get("max_rows", 120000), derived=derived)
            out["stats"].setdefault("cert", []).append(info if len(out["stats"].get("cert", [])) < 5 else None)
            if r == "unsat":
                return
            if r == "vacuous":
                inconclusive.append("Q-CERT hypotheses inconsistent (vacuous)")
                return
            if r == "unknown":
                inconclusive.append("Q-CERT unknown/timeout")
                return
            # no certificate: candidate to be replayed numerically at random points
            bad = info.get("uncertified", [])
            labels = sorted({owner[i][0] for i in bad})
            byname = _pc_model(ctx)
            cand.append((";".join(labels)[:300], byname, "no-certificate"))

    def _env_by_name(env):
        d = {}
        for sid, v in env.items():
            if sid == 0:
                continue
            nm = P.TAB.names[sid]
            if P.TAB.kind[sid] == "cplx":
                d[nm] = [v.real, v.imag]
            elif P.TAB.kind[sid] in ("real", "pos"):
                d[nm] = float(v.real) if isinstance(v, complex) else float(v)
        return d

    def _pc_model(ctx):
        try:
            m = ctx.model()
        except sx.Inconclusive:
            return {}
        return {k: v for k, v in sx.model_to_dict(m).items()
                if not (k.startswith("p") and "_" in k and k[1:k.index("_")].isdigit())}

    try:
        results, st = sx.explore(
            run_path,
            max_paths=opts.get("max_paths", 2000),
            wall_s=opts.get("wall_s", 300.0),
            solver_timeout_ms=opts.get("branch_timeout_ms", 20000),
        )
        out["sx"] = st
        out["paths"] = st["paths"]
        reach = 0
        exc_paths = []
        for res in results:
            if res.kind == "ok":
                if res.value.checked:
                    reach += 1
            elif res.kind == "exc":
                exc_paths.append(res)
            for label, model in res.violations:
                cand.append((label, _model_by_name(model), "solver:sat(path)"))
        out["reach_witness_paths"] = reach
        allowed = opts.get("allow_exc", ())
        for res in exc_paths:
            e = res.value
            if allowed and isinstance(e, allowed):
                continue
            if isinstance(e, P.Unsupported):
                inconclusive.append(f"unsupported: {e}"[:300])
                continue
            # an exception of the real code on a feasible path: candidate violation if the
            # harness declares exceptions as violations, otherwise harness error
            tb = "".join(traceback.format_exception(type(e), e, e.__traceback__))[-1500:]
            if opts.get("exc_is_violation"):
                s = z3.Solver()
                s.add(*res.pc)
                m = s.model() if str(s.check()) == "sat" else None
                cand.append((f"exception {type(e).__name__}: {e}"[:200], _model_by_name(sx.model_to_dict(m)), "solver:sat(exc-path)"))
            else:
                inconclusive.append(f"harness exception {type(e).__name__}: {e}\n{tb}"[:2500])
        if reach == 0 and not cand and not inconclusive:
            inconclusive.append("vacuous: no goal/check reached on any feasible path")
    except sx.Inconclusive as e:
        inconclusive.append(f"exploration: {e}")
    except Exception as e:
        inconclusive.append("harness crash: " + "".join(traceback.format_exception(type(e), e, e.__traceback__))[-2500:])

    out["goals_distinct"] = len(all_goal_keys)
    out["nontrivial"] = len(nontrivial_keys)
    out["hypotheses"] = hyp_count
    out["stats"]["decide"] = dstats.as_dict()
    out["encoded"] = source_hashes(encoded)
    t_sym = time.time() - t_start

    # ---- replay of candidates on the real code (numeric, stubs inactive) -----------------
    reproduced = []
    for label, env, how in cand:
        fails, used, err = _numeric_run(ob, env, seed)
        if err is not None and not fails:
            tries = 1
        if not fails and how == "no-certificate":
            # random points
            for k in range(opts.get("num_points", 3)):
                fails, used, err = _numeric_run(ob, {}, seed + 1000 + k)
                if fails:
                    break
        if fails:
            reproduced.append({"label": label, "how": how, "env": used, "failures": fails[:200]})
        else:
            inconclusive.append(f"candidate not reproduced on the real code ({how}): {label}"[:400]
                                + (f" [numeric run error: {err}]" if err else ""))
    # ---- translator validation / numeric cross-run ----------------------------------------
    ntr = opts.get("num_trials", 1 if tier == "quick" else 2)
    if not cand and opts.get("numeric", True):
        for k in range(ntr):
            fails, used, err = _numeric_run(ob, {}, seed + 17 * k + 1)
            out["num_trials"] += 1
            if err is not None:
                out["notes"].append(f"numeric cross-run error: {err}"[:400])
                # an obligation declared numeric=True is decided by this run: an error in it is never a silent pass
                # (nor in a cell whose symbolic run was skipped with a "numeric-only" note)
                if opts.get("numeric_required", opts.get("numeric") is True) or any(str(n).startswith("numeric-only") for n in out["notes"]):
                    inconclusive.append(f"numeric cross-run error: {err}"[:400])
            if fails:
                reproduced.append({"label": fails[0][0], "how": "numeric-cross-run", "env": used,
                                   "failures": fails[:200]})
                break
    out["violations"] = reproduced
    out["inconclusive"] = inconclusive
    if reproduced:
        out["verdict"] = "violated"
    elif inconclusive:
        out["verdict"] = "inconclusive"
    else:
        out["verdict"] = "discharged"
    out["wall_s"] = round(time.time() - t_start, 3)
    out["sym_s"] = round(t_sym, 3)
    return out


def _model_by_name(model):
    """z3 model dict -> harness input names (poly vars are named p<id>_<name>)."""
    d = {}
    for k, v in (model or {}).items():
        if k.startswith("p") and "_" in k and k[1:k.index("_")].isdigit():
            k = k[k.index("_") + 1:]
        d[k] = v
    return d


def _numeric_run(ob, env, seed):
    mk = Mk("num", env=env, seed=seed, params=ob.params)
    err = None
    try:
        if ob.params is None:
            ob.fn(mk)
        else:
            ob.fn(mk, **ob.params)
    except Skip:
        pass
    except sx.Abort:
        pass
    except Exception as e:
        if ob.opts.get("exc_is_violation") and not isinstance(e, ob.opts.get("allow_exc", ())):
            mk.failures.append((f"exception {type(e).__name__}: {e}"[:200], "raised on concrete replay"))
        else:
            err = "".join(traceback.format_exception(type(e), e, e.__traceback__))[-1200:]
    used = {k: ([v.real, v.imag] if isinstance(v, complex) else v) for k, v in mk.used.items()}
    return mk.failures, used, err
