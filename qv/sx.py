"""Engine SX: concolic execution of the real code's scalar control flow over z3.

Symbolic scalars (``SymInt`` / ``SymReal`` / ``SymBV`` / ``SymBool``) build z3 terms; a
``SymBool`` that reaches ``__bool__`` forks: both polarities are checked for feasibility
against the path condition and the harness is re-executed once per feasible path (DFS with a
recorded decision prefix).  Comparisons of ``Poly`` scalars (engine ST) are routed here as
well, so sign / threshold branches inside tensor code fork in the same way.
"""
from __future__ import annotations

import math
import time
from fractions import Fraction

import numpy as np
import z3

from . import poly as P


class Abort(BaseException):
    """Path pruned (infeasible assumption)."""


class Inconclusive(BaseException):
    """Solver said unknown / budget exhausted: the obligation cannot be decided."""


OPTIONS = {"def_relations": False}   # see Ctx.polyvar (opt-in per harness)


S2X = {"mode": None, "n": 0, "spent": 0.0, "agree": 0, "noverdict": 0}


def _second_solver_pruned(pc, e):
    """A branch z3 calls infeasible is never explored, so a wrong 'unsat' would silently lose paths: the first few
    pruned branches of every obligation (QV_SOLVER2_PRUNED, within a time allowance) are re-decided by cvc5 from the
    SMT-LIB text of path condition + branch condition.  cvc5 'sat' => Inconclusive (never a pass)."""
    import os
    if S2X["mode"] is None:
        S2X["mode"] = os.environ.get("QV_SOLVER2", "cvc5")
        S2X["max"] = int(os.environ.get("QV_SOLVER2_PRUNED", "25"))
        S2X["budget"] = float(os.environ.get("QV_SOLVER2_BUDGET_S", "4"))
    if S2X["mode"] != "cvc5" or S2X["n"] >= S2X["max"] or S2X["spent"] > S2X["budget"]:
        return
    S2X["n"] += 1
    t0 = time.time()
    r2 = None
    try:
        import cvc5
        s = z3.Solver()
        s.add(*pc)
        s.add(e)
        txt = "(set-logic ALL)\n" + s.to_smt2()
        slv = cvc5.Solver()
        slv.setOption("tlimit-per", "1500")
        ip = cvc5.InputParser(slv)
        ip.setStringInput(cvc5.InputLanguage.SMT_LIB_2_6, txt, "q")
        sm = ip.getSymbolManager()
        while True:
            c = ip.nextCommand()
            if c.isNull():
                break
            o = c.invoke(slv, sm)
            if c.getCommandName() == "check-sat":
                r2 = str(o).strip()
    except Exception:                                             # noqa: BLE001 - unusable second solver decides nothing
        r2 = None
    S2X["spent"] += time.time() - t0
    if r2 == "sat":
        raise Inconclusive(f"solver disagreement on a pruned branch: z3 unsat, cvc5 sat ({str(e)[:160]})")
    S2X["agree" if r2 == "unsat" else "noverdict"] += 1


class Ctx:
    cur = None

    def __init__(self, prefix, timeout_ms=20000):
        self.decisions = list(prefix)   # list of ('b', bool) / ('v', int)
        self.pos = 0
        self.pc = []                    # z3 BoolRefs
        self.solver = z3.Solver()
        self.solver.set("timeout", timeout_ms)
        self.alts = []                  # alternative prefixes discovered on this path
        self.nq = 0
        self.tsolve = 0.0
        self.polyvars = {}              # poly symbol id -> z3 Real
        self.violations = []            # (label, model dict)
        self.memo = {}                  # (kind, id, id) -> decision already taken on this path
        self.notes = []
        self.nforks = 0

    # -- solver helpers
    def add(self, e):
        self.pc.append(e)
        self.solver.add(e)

    def feasible(self, e):
        t0 = time.time()
        self.solver.push()
        self.solver.add(e)
        r = self.solver.check()
        self.solver.pop()
        self.nq += 1
        self.tsolve += time.time() - t0
        r = str(r)
        if r == "unknown":
            raise Inconclusive(f"solver unknown on branch condition {str(e)[:200]}")
        if r == "unsat":
            _second_solver_pruned(self.pc, e)
        return r == "sat"

    def model(self, extra=None):
        t0 = time.time()
        self.solver.push()
        if extra is not None:
            self.solver.add(extra)
        r = str(self.solver.check())
        m = self.solver.model() if r == "sat" else None
        self.solver.pop()
        self.nq += 1
        self.tsolve += time.time() - t0
        if r == "unknown":
            raise Inconclusive("solver unknown while extracting a model")
        return m

    def decide(self, e):
        """Fork on boolean z3 term e."""
        e = z3.simplify(e)
        if z3.is_true(e):
            return True
        if z3.is_false(e):
            return False
        if self.pos < len(self.decisions):
            kind, d = self.decisions[self.pos]
            assert kind == "b", "decision trace out of sync (non-deterministic harness?)"
            self.pos += 1
            self.add(e if d else z3.Not(e))
            return d
        can_t = self.feasible(e)
        can_f = self.feasible(z3.Not(e))
        if not can_t and not can_f:
            raise Abort()
        d = can_t
        if can_t and can_f:
            self.alts.append(self.decisions[: self.pos] + [("b", False)])
            self.nforks += 1
        self.decisions.append(("b", d))
        self.pos += 1
        self.add(e if d else z3.Not(e))
        return d

    def concretize(self, term, limit=4096):
        """Fork over the feasible values of an integer term; return a Python int.

        Decision trace at a concretisation point: zero or more ('x', v) exclusions followed
        by a ('v', v) pick.  The alternative scheduled for a fresh pick is "same exclusions
        plus this value", so the values are enumerated one per path until none is feasible."""
        s = z3.simplify(term)
        if z3.is_int_value(s) or z3.is_bv_value(s):
            return s.as_long()
        n = 0
        while self.pos < len(self.decisions) and self.decisions[self.pos][0] == "x":
            self.add(term != self.decisions[self.pos][1])
            self.pos += 1
            n += 1
            if n > limit:
                raise Inconclusive("concretisation fan-out too large")
        if self.pos < len(self.decisions):
            kind, v = self.decisions[self.pos]
            assert kind == "v", "decision trace out of sync"
            self.pos += 1
            self.add(term == v)
            return v
        m = self.model()
        if m is None:
            raise Abort()
        v = m.eval(term, model_completion=True).as_long()
        self.alts.append(self.decisions[: self.pos] + [("x", v)])
        self.decisions.append(("v", v))
        self.pos += 1
        self.add(term == v)
        return v

    # -- Poly bridge
    def polyvar(self, sid):
        v = self.polyvars.get(sid)
        if v is None:
            kind = P.TAB.kind[sid]
            if kind in ("cplx", "cplxbar", "unit", "I"):
                raise P.Unsupported(
                    f"ordering/equality branch on a complex symbolic quantity ({P.TAB.names[sid]})"
                )
            v = z3.Real(f"p{sid}_{P.TAB.names[sid]}")
            self.polyvars[sid] = v
            if sid in P.TAB.positive:
                self.add(v > 0)
            elif sid in P.TAB.nonneg:
                self.add(v >= 0)
            pr = P.TAB.powrule.get(sid)
            if pr is not None and pr[0] == 2:
                self.add(v * v == pr[1])
            if kind == "def" and OPTIONS["def_relations"]:
                # opt-in: a defined symbol (1/p, sqrt(p)) that reaches a branch carries its
                # defining relation into the path condition (otherwise it is unconstrained there)
                nm = P.TAB.names[sid]
                for lab, h in list(P.HYP):
                    if lab == "def-inverse:" + nm and OPTIONS["def_relations"] == "monotone":
                        self._inverse_lemmas(sid, v, h)
                    elif lab in ("def-inverse:" + nm, "def-sqrt:" + nm):
                        self.add(self.poly_to_z3(h) == 0)
        return v

    def _inverse_lemmas(self, sid, v, h):
        """OPTIONS['def_relations'] == 'monotone': w = 1/q (h is w*q - 1) enters the path condition
        through the *linear* order theory of reciprocals instead of the product w*q == 1:
        q != 0, sign(w) = sign(q), and for two reciprocals |w| < |w'| <=> |q'| < |q|.
        Exact for comparisons among (absolute values of) reciprocals and zero (sort keys); an
        over-approximation of the path condition otherwise (more paths, never fewer)."""
        q = P.Poly({tuple(x for x in m if x[0] != sid): c for m, c in (h + 1).t.items()})
        qz = self.poly_to_z3(q)
        self.add(z3.And(qz != 0, (qz > 0) == (v > 0), (qz < 0) == (v < 0)))
        av, aq = z3.If(v >= 0, v, -v), z3.If(qz >= 0, qz, -qz)
        invs = self.__dict__.setdefault("_inverses", [])
        for av2, aq2 in invs:
            self.add(z3.And((av < av2) == (aq2 < aq), (av == av2) == (aq2 == aq)))
        invs.append((av, aq))

    def poly_to_z3(self, p):
        terms = []
        for m, c in p.t.items():
            t = z3.RealVal(str(Fraction(c)))
            for s, e in m:
                if not isinstance(e, int):
                    raise P.Unsupported("branch on a quantity with a fractional power")
                v = self.polyvar(s)
                for _ in range(abs(e)):
                    t = t * v if e > 0 else t / v
            terms.append(t)
        if not terms:
            return z3.RealVal(0)
        return z3.Sum(terms) if len(terms) > 1 else terms[0]


def _poly_cmp(d, op):
    c = Ctx.cur
    if c is None:
        raise P.Unsupported(f"comparison of symbolic scalar outside an exploration: {d!r} {op} 0")
    e = c.poly_to_z3(d)
    cond = {"==": e == 0, "<": e < 0, "<=": e <= 0, ">": e > 0, ">=": e >= 0}[op]
    return c.decide(cond)


# ------------------------------------------------------------------------------ scalars

def _lift(x):
    if isinstance(x, Sym):
        return x.e
    if isinstance(x, (bool, np.bool_)):
        return z3.BoolVal(bool(x))
    if isinstance(x, (int, np.integer)):
        return z3.IntVal(int(x))
    if isinstance(x, Fraction):
        return z3.RealVal(str(x))
    if isinstance(x, (float, np.floating)):
        if x != x or x in (math.inf, -math.inf):
            raise P.Unsupported("non-finite float in symbolic arithmetic")
        return z3.RealVal(str(Fraction(float(x))))
    if isinstance(x, np.ndarray) and x.ndim == 0:
        return _lift(x.item())
    raise TypeError(f"cannot lift {type(x).__name__} into the symbolic domain")


def _is_int(e):
    return e.sort() == z3.IntSort()


def _coerce(a, b):
    """Bring two z3 arith terms to a common sort."""
    if z3.is_bool(a):
        a = z3.If(a, z3.IntVal(1), z3.IntVal(0))
    if z3.is_bool(b):
        b = z3.If(b, z3.IntVal(1), z3.IntVal(0))
    if _is_int(a) and not _is_int(b):
        a = z3.ToReal(a)
    elif _is_int(b) and not _is_int(a):
        b = z3.ToReal(b)
    return a, b


class Sym:
    __slots__ = ("e",)
    __array_priority__ = 10000

    def __init__(self, e):
        self.e = e

    def __repr__(self):
        return f"<{type(self).__name__} {str(z3.simplify(self.e))[:80]}>"

    # numpy scalars on the left / explicit ufunc calls land here
    def __array_ufunc__(self, ufunc, method, *inputs, **kw):
        if method != "__call__" or kw.get("out") is not None:
            return NotImplemented
        # arrays among the inputs: apply elementwise on object arrays
        if any(isinstance(x, np.ndarray) and x.ndim > 0 for x in inputs):
            arrs = [np.asarray(x, dtype=object) if isinstance(x, np.ndarray) else x for x in inputs]
            shape = np.broadcast(*[a for a in arrs if isinstance(a, np.ndarray)]).shape
            out = np.empty(shape, dtype=object)
            bs = [np.broadcast_to(a, shape) if isinstance(a, np.ndarray) else None for a in arrs]
            for idx in np.ndindex(*shape):
                args = [b[idx] if b is not None else a for a, b in zip(arrs, bs)]
                out[idx] = _UFUNCS[ufunc](*args)
            return out
        f = _UFUNCS.get(ufunc)
        if f is None:
            raise P.Unsupported(f"numpy ufunc {ufunc.__name__} on a symbolic scalar")
        # numpy *scalars* (np.uint32(3) + sym) are unwrapped to Python numbers, otherwise the
        # numpy scalar's own operator would dispatch straight back here (infinite recursion)
        return f(*[x.item() if isinstance(x, (np.ndarray, np.generic)) else x for x in inputs])


class SymBool(Sym):
    __slots__ = ()

    def __bool__(self):
        c = Ctx.cur
        if c is None:
            raise P.Unsupported("symbolic branch outside an exploration")
        return c.decide(self.e)

    def __and__(self, o):
        return SymBool(z3.And(self.e, _tobool(o)))

    __rand__ = __and__

    def __or__(self, o):
        return SymBool(z3.Or(self.e, _tobool(o)))

    __ror__ = __or__

    def __invert__(self):
        return SymBool(z3.Not(self.e))

    def __xor__(self, o):
        # bool ^ bool and bool ^ {0, 1} stay boolean (value-equal to Python's int result);
        # bool ^ other int flips the lowest bit of that int
        if isinstance(o, SymBool):
            return SymBool(z3.Xor(self.e, o.e))
        if isinstance(o, (bool, np.bool_)) or (isinstance(o, (int, np.integer)) and int(o) in (0, 1)):
            return SymBool(z3.Xor(self.e, z3.BoolVal(bool(o))))
        if isinstance(o, (int, np.integer)):
            return SymInt(z3.If(self.e, z3.IntVal(int(o) ^ 1), z3.IntVal(int(o))))
        return NotImplemented

    __rxor__ = __xor__

    def __eq__(self, o):
        return SymBool(self.e == _tobool(o))

    def __ne__(self, o):
        return SymBool(self.e != _tobool(o))

    __hash__ = None

    # bool used in arithmetic (e.g. `1 if ... `, `x + (a < b)`)
    def _asint(self):
        return SymInt(z3.If(self.e, z3.IntVal(1), z3.IntVal(0)))

    def __add__(self, o):
        return self._asint() + o

    __radd__ = __add__

    def __mul__(self, o):
        return self._asint() * o

    __rmul__ = __mul__

    def __index__(self):
        return 1 if bool(self) else 0


def _tobool(o):
    if isinstance(o, SymBool):
        return o.e
    if isinstance(o, Sym):
        return o.e != 0
    return z3.BoolVal(bool(o))


def _num(e):
    if z3.is_bool(e):
        return SymBool(e)
    return SymInt(e) if _is_int(e) else SymReal(e)


class SymNum(Sym):
    __slots__ = ()

    def _bin(self, o, f, swap=False):
        if isinstance(o, SymRat) and isinstance(self, SymInt):
            return SymRat(self.e, 1)._bin(o, f, swap)
        try:
            oe = _lift(o)
        except TypeError:
            return NotImplemented
        a, b = _coerce(self.e, oe)
        if swap:
            a, b = b, a
        return _num(f(a, b))

    def __add__(self, o):
        return self._bin(o, lambda a, b: a + b)

    __radd__ = __add__

    def __sub__(self, o):
        return self._bin(o, lambda a, b: a - b)

    def __rsub__(self, o):
        return self._bin(o, lambda a, b: a - b, swap=True)

    def __mul__(self, o):
        return self._bin(o, lambda a, b: a * b)

    __rmul__ = __mul__

    def __neg__(self):
        return _num(-self.e)

    def __pos__(self):
        return self

    def __abs__(self):
        return _num(z3.If(self.e >= 0, self.e, -self.e))

    def __truediv__(self, o):
        return _truediv(self, o)

    def __rtruediv__(self, o):
        return _truediv(o, self)

    def __pow__(self, n):
        if isinstance(n, (int, np.integer)) and 0 <= int(n) <= 8:
            r = _num(z3.IntVal(1)) if _is_int(self.e) else _num(z3.RealVal(1))
            for _ in range(int(n)):
                r = r * self
            return r
        raise P.Unsupported(f"power {n!r} of symbolic number")

    def __rpow__(self, b):
        # b ** self with small concretised exponent
        n = self.__index__()
        return b ** n

    def __lt__(self, o):
        return self._bin(o, lambda a, b: a < b)

    def __le__(self, o):
        return self._bin(o, lambda a, b: a <= b)

    def __gt__(self, o):
        return self._bin(o, lambda a, b: a > b)

    def __ge__(self, o):
        return self._bin(o, lambda a, b: a >= b)

    def __eq__(self, o):
        r = self._bin(o, lambda a, b: a == b)
        return False if r is NotImplemented else r

    def __ne__(self, o):
        r = self._bin(o, lambda a, b: a != b)
        return True if r is NotImplemented else r

    __hash__ = None

    def __bool__(self):
        return bool(self != 0)


def _zero_check(den):
    """Python semantics: division by zero raises on the path where the divisor is zero."""
    if isinstance(den, Sym):
        if bool(SymBool(den.e == 0)):
            raise ZeroDivisionError("division by zero (symbolic path)")
    elif den == 0:
        raise ZeroDivisionError("division by zero")


def _as_rat(x):
    """(numerator z3 Int term, positive python int denominator) or None"""
    if isinstance(x, SymRat):
        return x.n, x.d
    if isinstance(x, SymInt):
        return x.e, 1
    if isinstance(x, (bool, np.bool_)):
        return z3.IntVal(int(x)), 1
    if isinstance(x, (int, np.integer)):
        return z3.IntVal(int(x)), 1
    if isinstance(x, (float, np.floating)) and float(x) == int(x):
        return z3.IntVal(int(x)), 1
    if isinstance(x, (float, np.floating, Fraction)):
        f = Fraction(x)
        if f.denominator <= 2 ** 20:
            return z3.IntVal(f.numerator), f.denominator
    return None


def _const_of(x):
    """python Fraction if x is a concrete number else None"""
    if isinstance(x, SymRat):
        v = z3.simplify(x.n)
        return Fraction(v.as_long(), x.d) if z3.is_int_value(v) else None
    if isinstance(x, SymInt):
        v = z3.simplify(x.e)
        return Fraction(v.as_long()) if z3.is_int_value(v) else None
    if isinstance(x, Sym):
        return None
    if isinstance(x, (int, np.integer, bool, np.bool_)):
        return Fraction(int(x))
    if isinstance(x, (float, np.floating, Fraction)):
        return Fraction(x)
    return None


def _truediv(a, b):
    _zero_check(b)
    cb = _const_of(b)
    ra = _as_rat(a)
    if cb is not None and ra is not None and cb.denominator <= 2 ** 20:
        # (n/d) / (p/q) = n*q / (d*p)
        n, d = ra
        num, den = n * cb.denominator, d * cb.numerator
        if den < 0:
            num, den = -num, -den
        return SymRat(num, den)
    ae, be = _lift(a), _lift(b)
    if _is_int(ae):
        ae = z3.ToReal(ae)
    if _is_int(be):
        be = z3.ToReal(be)
    return SymReal(ae / be)


def _is_true_int(x):
    return isinstance(x, (SymInt, int, np.integer, bool, np.bool_)) and not isinstance(x, SymRat)


def _floor_int_div(ae, be):
    """floor(ae / be) for z3 Int terms (z3's div is Euclidean: remainder >= 0)"""
    q = ae / be
    if z3.is_int_value(be):
        if be.as_long() > 0:
            return q
    r = ae % be
    return z3.If(be > 0, q, z3.If(r == 0, q, q - 1))


def _floordiv(a, b):
    _zero_check(b)
    ra, rb = _as_rat(a), _as_rat(b)
    if ra is not None and rb is not None:
        (n1, d1), (n2, d2) = ra, rb
        num = n1 * d2 if d2 != 1 else n1
        den = n2 * d1 if d1 != 1 else n2
        fl = _floor_int_div(num, z3.simplify(den))
        if _is_true_int(a) and _is_true_int(b):
            return SymInt(fl)
        return SymRat(fl, 1)
    ae, be = _coerce(_lift(a), _lift(b))
    return SymReal(z3.ToReal(z3.ToInt(ae / be)))


def _mod(a, b):
    q = _floordiv(a, b)
    return a - q * b


class SymInt(SymNum):
    __slots__ = ()

    def __floordiv__(self, o):
        return _floordiv(self, o)

    def __rfloordiv__(self, o):
        return _floordiv(o, self)

    def __mod__(self, o):
        return _mod(self, o)

    def __rmod__(self, o):
        return _mod(o, self)

    def __divmod__(self, o):
        q = _floordiv(self, o)
        return q, self - q * o

    def __rdivmod__(self, o):
        q = _floordiv(o, self)
        return q, o - q * self

    def __index__(self):
        c = Ctx.cur
        if c is None:
            raise P.Unsupported("symbolic index outside an exploration")
        return c.concretize(self.e)

    __int__ = __index__

    def __float__(self):
        raise P.Unsupported("float() of a symbolic integer")

    def __round__(self, n=None):
        return self

    def __ceil__(self):
        return self

    def __floor__(self):
        return self

    def __trunc__(self):
        return self

    # bit operations for non-negative ints with constant masks / shifts
    def __lshift__(self, k):
        k = int(k)
        return self * (1 << k)

    def __rshift__(self, k):
        k = int(k)
        return self // (1 << k)

    def __and__(self, o):
        if isinstance(o, (int, np.integer)) and (int(o) + 1) & int(o) == 0:
            return self % (int(o) + 1)
        raise P.Unsupported("general & on SymInt (use SymBV)")

    __rand__ = __and__

    def __or__(self, o):
        raise P.Unsupported("| on SymInt (use SymBV)")


class SymReal(SymNum):
    __slots__ = ()

    def __floordiv__(self, o):
        return _floordiv(self, o)

    def __rfloordiv__(self, o):
        return _floordiv(o, self)

    def __mod__(self, o):
        return _mod(self, o)

    def __rmod__(self, o):
        return _mod(o, self)

    def __divmod__(self, o):
        q = _floordiv(self, o)
        return q, self - q * o

    def __rdivmod__(self, o):
        q = _floordiv(o, self)
        return q, o - q * self

    def __round__(self, nd=None):
        if nd is not None:
            raise P.Unsupported("round(x, ndigits) on symbolic real")
        f = z3.ToInt(self.e)
        frac = self.e - z3.ToReal(f)
        half = z3.RealVal("1/2")
        return SymInt(z3.If(frac < half, f, z3.If(frac > half, f + 1, z3.If(f % 2 == 0, f, f + 1))))

    def __floor__(self):
        return SymInt(z3.ToInt(self.e))

    def __ceil__(self):
        f = z3.ToInt(self.e)
        return SymInt(z3.If(z3.ToReal(f) == self.e, f, f + 1))

    def __trunc__(self):
        f = z3.ToInt(self.e)
        return SymInt(z3.If(z3.Or(self.e >= 0, z3.ToReal(f) == self.e), f, f + 1))

    def __index__(self):
        # integral-valued real used as an index (the real code would have a float here ->
        # TypeError in Python).  Mirror Python: a float is not an index.
        raise TypeError("'float' object cannot be interpreted as an integer (symbolic real)")

    def __int__(self):
        return self.__trunc__().__index__()

    def is_integer(self):
        return SymBool(z3.ToReal(z3.ToInt(self.e)) == self.e)


class SymRat(SymReal):
    """A rational number n/d with symbolic integer numerator and concrete positive
    denominator: keeps floor / ceil / round / comparisons inside linear integer arithmetic."""
    __slots__ = ("n", "d")

    def __init__(self, n, d):
        assert isinstance(d, int) and d > 0
        self.n = z3.simplify(n) if not z3.is_int_value(n) else n
        self.d = d
        self.e = z3.ToReal(self.n) / z3.RealVal(d) if d != 1 else z3.ToReal(self.n)

    def _bin(self, o, f, swap=False):
        ro = _as_rat(o)
        if ro is None:
            return SymReal._bin(self, o, f, swap)
        (n1, d1), (n2, d2) = (self.n, self.d), ro
        # bring to common denominator: compare / add integers
        a, b = n1 * d2, n2 * d1
        if swap:
            a, b = b, a
        r = f(a, b)
        if z3.is_bool(r):
            return SymBool(r)
        return SymReal._bin(self, o, f, swap)

    def __add__(self, o):
        ro = _as_rat(o)
        if ro is None:
            return SymReal.__add__(self, o)
        return SymRat(self.n * ro[1] + ro[0] * self.d, self.d * ro[1])

    __radd__ = __add__

    def __sub__(self, o):
        ro = _as_rat(o)
        if ro is None:
            return SymReal.__sub__(self, o)
        return SymRat(self.n * ro[1] - ro[0] * self.d, self.d * ro[1])

    def __rsub__(self, o):
        ro = _as_rat(o)
        if ro is None:
            return SymReal.__rsub__(self, o)
        return SymRat(ro[0] * self.d - self.n * ro[1], self.d * ro[1])

    def __mul__(self, o):
        c = _const_of(o)
        if c is not None:
            num, den = self.n * c.numerator, self.d * c.denominator
            return SymRat(num, den)
        if isinstance(o, SymInt):
            return SymRat(self.n * o.e, self.d)
        if isinstance(o, SymRat):
            return SymRat(self.n * o.n, self.d * o.d)
        return SymReal.__mul__(self, o)

    __rmul__ = __mul__

    def __neg__(self):
        return SymRat(-self.n, self.d)

    def __abs__(self):
        return SymRat(z3.If(self.n >= 0, self.n, -self.n), self.d)

    def __floor__(self):
        return SymInt(self.n / self.d) if self.d != 1 else SymInt(self.n)   # d > 0: Euclidean == floor

    def __ceil__(self):
        if self.d == 1:
            return SymInt(self.n)
        return SymInt(-((-self.n) / self.d))

    def __round__(self, nd=None):
        if nd is not None:
            raise P.Unsupported("round(x, ndigits) on symbolic real")
        if self.d == 1:
            return SymInt(self.n)
        f = self.n / self.d
        r2 = 2 * (self.n % self.d)
        return SymInt(z3.If(r2 < self.d, f, z3.If(r2 > self.d, f + 1, z3.If(f % 2 == 0, f, f + 1))))

    def __trunc__(self):
        if self.d == 1:
            return SymInt(self.n)
        return SymInt(z3.If(self.n >= 0, self.n / self.d, -((-self.n) / self.d)))

    def __index__(self):
        # numba accepts a float where an integer is expected by truncation; mirror that for
        # integral-valued results such as np.ceil(...)
        return self.__trunc__().__index__()

    __int__ = __index__

    def __floordiv__(self, o):
        return _floordiv(self, o)

    def __rfloordiv__(self, o):
        return _floordiv(o, self)

    def __divmod__(self, o):
        q = self.__floordiv__(o)
        return q, self - q * o

    def __rdivmod__(self, o):
        q = self.__rfloordiv__(o)
        return q, o - q * self

    def __mod__(self, o):
        return self.__divmod__(o)[1]

    def __rmod__(self, o):
        return self.__rdivmod__(o)[1]


def _real_of_int(x):
    """an integer-valued *float* (what np.ceil / np.floor / float floor-division return)"""
    if isinstance(x, SymInt):
        return SymRat(x.e, 1)
    return x


_UFUNCS = {
    np.add: lambda a, b: a + b,
    np.subtract: lambda a, b: a - b,
    np.multiply: lambda a, b: a * b,
    np.true_divide: lambda a, b: _truediv(a, b),
    np.floor_divide: lambda a, b: _floordiv(a, b),
    np.remainder: lambda a, b: _mod(a, b),
    np.negative: lambda a: -a,
    np.absolute: lambda a: abs(a),
    # numpy's ceil/floor return floats: keep them real-sorted like the real code does
    np.ceil: lambda a: _real_of_int(a.__ceil__()) if isinstance(a, SymReal) else _real_of_int(a),
    np.floor: lambda a: _real_of_int(a.__floor__()) if isinstance(a, SymReal) else _real_of_int(a),
    np.less: lambda a, b: a < b,
    np.less_equal: lambda a, b: a <= b,
    np.greater: lambda a, b: a > b,
    np.greater_equal: lambda a, b: a >= b,
    np.equal: lambda a, b: a == b,
    np.not_equal: lambda a, b: a != b,
    np.minimum: lambda a, b: a if bool(a <= b) else b,
    np.maximum: lambda a, b: a if bool(a >= b) else b,
    np.left_shift: lambda a, b: a << b,
    np.right_shift: lambda a, b: a >> b,
    np.bitwise_and: lambda a, b: a & b,
    np.bitwise_or: lambda a, b: a | b,
    np.bitwise_xor: lambda a, b: a ^ b,
}


# ------------------------------------------------------------------------------ bit-vectors

class SymBV(Sym):
    """Unsigned machine integers (numba uint64 / int64 kernels with & | ^ << >>)."""
    __slots__ = ("bits",)

    def __init__(self, e, bits=None):
        self.e = e
        self.bits = e.size()

    def _l(self, o):
        if isinstance(o, SymBV):
            if o.bits != self.bits:
                return z3.ZeroExt(self.bits - o.bits, o.e) if o.bits < self.bits else z3.Extract(self.bits - 1, 0, o.e)
            return o.e
        if isinstance(o, SymBool):
            return z3.If(o.e, z3.BitVecVal(1, self.bits), z3.BitVecVal(0, self.bits))
        if isinstance(o, (int, np.integer, bool, np.bool_)):
            return z3.BitVecVal(int(o), self.bits)
        if isinstance(o, SymInt):
            return z3.Int2BV(o.e, self.bits)
        raise TypeError(type(o))

    def _b(self, o, f, swap=False):
        try:
            oe = self._l(o)
        except TypeError:
            return NotImplemented
        a, b = (oe, self.e) if swap else (self.e, oe)
        r = f(a, b)
        return SymBool(r) if z3.is_bool(r) else SymBV(r)

    def __add__(self, o): return self._b(o, lambda a, b: a + b)
    __radd__ = __add__
    def __sub__(self, o): return self._b(o, lambda a, b: a - b)
    def __rsub__(self, o): return self._b(o, lambda a, b: a - b, True)
    def __mul__(self, o): return self._b(o, lambda a, b: a * b)
    __rmul__ = __mul__
    def __and__(self, o): return self._b(o, lambda a, b: a & b)
    __rand__ = __and__
    def __or__(self, o): return self._b(o, lambda a, b: a | b)
    __ror__ = __or__
    def __xor__(self, o): return self._b(o, lambda a, b: a ^ b)
    __rxor__ = __xor__
    def __lshift__(self, o): return self._b(o, lambda a, b: a << b)
    def __rshift__(self, o): return self._b(o, lambda a, b: z3.LShR(a, b))
    def __rlshift__(self, o): return self._b(o, lambda a, b: a << b, True)
    def __invert__(self): return SymBV(~self.e)
    def __neg__(self): return SymBV(-self.e)

    def __floordiv__(self, o):
        _zero_check(o if not isinstance(o, SymBV) else o)
        return self._b(o, lambda a, b: z3.UDiv(a, b))

    def __mod__(self, o):
        _zero_check(o)
        return self._b(o, lambda a, b: z3.URem(a, b))

    def __lt__(self, o): return self._b(o, lambda a, b: z3.ULT(a, b))
    def __le__(self, o): return self._b(o, lambda a, b: z3.ULE(a, b))
    def __gt__(self, o): return self._b(o, lambda a, b: z3.UGT(a, b))
    def __ge__(self, o): return self._b(o, lambda a, b: z3.UGE(a, b))

    def __eq__(self, o):
        r = self._b(o, lambda a, b: a == b)
        return False if r is NotImplemented else r

    def __ne__(self, o):
        r = self._b(o, lambda a, b: a != b)
        return True if r is NotImplemented else r

    __hash__ = None

    def __bool__(self):
        return bool(self != 0)

    def __index__(self):
        c = Ctx.cur
        return c.concretize(self.e)

    __int__ = __index__


# ------------------------------------------------------------------------------ labels

def _memo_cmp(op, a, b):
    """label comparison with a per-path memo (a decision taken once on a path is implied by the
    path condition afterwards: no need to ask the solver again)"""
    c = Ctx.cur
    ia, ib = a.get_id(), b.get_id()
    if ia == ib:
        return op == "=="
    if op == "==" and ia > ib:
        ia, ib, a, b = ib, ia, b, a
    k = (op, ia, ib)
    r = c.memo.get(k)
    if r is None:
        r = bool(SymBool(a == b if op == "==" else a < b))
        c.memo[k] = r
        if op == "<":
            if r:
                c.memo[("<", ib, ia)] = False
                c.memo[("==", min(ia, ib), max(ia, ib))] = False
        elif r is False:
            pass
    return r


class SymLabel(str):
    """A string label of symbolic identity.  Constant hash => every hashed container compares
    keys with ==, which forks on `self.e == other.e`.  Never equal to a plain str."""

    def __new__(cls, name, e):
        o = str.__new__(cls, name)
        o.e = e
        return o

    def __hash__(self):
        return 0x51A8E1

    def __eq__(self, o):
        if o is self:
            return True
        if isinstance(o, SymLabel):
            return _memo_cmp("==", self.e, o.e)
        return False

    def __ne__(self, o):
        return not self.__eq__(o)

    def __lt__(self, o):
        if isinstance(o, SymLabel):
            return _memo_cmp("<", self.e, o.e)
        return str.__lt__(self, o)

    def __le__(self, o):
        if isinstance(o, SymLabel):
            return bool(SymBool(self.e <= o.e))
        return str.__le__(self, o)

    def __gt__(self, o):
        if isinstance(o, SymLabel):
            return bool(SymBool(self.e > o.e))
        return str.__gt__(self, o)

    def __ge__(self, o):
        if isinstance(o, SymLabel):
            return bool(SymBool(self.e >= o.e))
        return str.__ge__(self, o)

    def __reduce__(self):
        return (_unpickle_label, (str.__str__(self), str(self.e)))

    def __repr__(self):
        return "<" + str.__str__(self) + ">"


def _unpickle_label(name, var):
    return SymLabel(name, z3.Int(var))


# ------------------------------------------------------------------------------ exploration

class PathResult:
    __slots__ = ("kind", "value", "pc", "decisions", "violations", "nq", "tsolve", "notes", "goals",
                 "hyps", "assumed")

    def __init__(self):
        self.violations = []
        self.goals = []
        self.notes = []


def explore(run_path, max_paths=2000, wall_s=120.0, solver_timeout_ms=20000):
    """DFS by re-execution.  ``run_path(ctx)`` runs the harness once under ``ctx`` and
    returns an arbitrary value; exceptions derived from Exception are recorded as the path's
    outcome.  Returns (list[PathResult], stats).  Raises Inconclusive when a budget is hit
    (the frontier is then not empty: the unwinding assertion fails)."""
    todo = [[]]
    results = []
    t0 = time.process_time()      # CPU seconds: the budget does not depend on machine load
    stats = {"paths": 0, "queries": 0, "solver_s": 0.0, "forks": 0, "aborted": 0}
    while todo:
        if stats["paths"] >= max_paths:
            raise Inconclusive(f"path budget {max_paths} exhausted with {len(todo)} prefixes left")
        if time.process_time() - t0 > wall_s:
            raise Inconclusive(f"CPU budget {wall_s}s exhausted with {len(todo)} prefixes left")
        prefix = todo.pop()
        ctx = Ctx(prefix, timeout_ms=solver_timeout_ms)
        Ctx.cur = ctx
        P.CMP_HANDLER[0] = _poly_cmp
        res = PathResult()
        try:
            try:
                res.value = run_path(ctx)
                res.kind = "ok"
            except Abort:
                res.kind = "abort"
                stats["aborted"] += 1
            except (Inconclusive, KeyboardInterrupt, SystemExit, MemoryError):
                raise
            except Exception as e:  # outcome of the real code on this path
                res.kind = "exc"
                res.value = e
        finally:
            Ctx.cur = None
            P.CMP_HANDLER[0] = None
        res.pc = list(ctx.pc)
        res.decisions = list(ctx.decisions)
        res.violations = ctx.violations
        res.notes = ctx.notes
        stats["paths"] += 1
        stats["queries"] += ctx.nq
        stats["solver_s"] += ctx.tsolve
        stats["forks"] += ctx.nforks
        todo.extend(ctx.alts)
        if res.kind != "abort" or res.violations:
            results.append(res)
    stats["second_solver_pruned_agree"] = S2X["agree"]
    stats["second_solver_pruned_noverdict"] = S2X["noverdict"]
    return results, stats


def model_to_dict(m):
    out = {}
    if m is None:
        return out
    for d in m.decls():
        v = m[d]
        try:
            if z3.is_int_value(v):
                out[d.name()] = v.as_long()
            elif z3.is_rational_value(v):
                out[d.name()] = str(v.as_fraction())
            elif z3.is_bv_value(v):
                out[d.name()] = v.as_long()
            elif z3.is_algebraic_value(v):
                out[d.name()] = str(v.approx(20).as_fraction())
            else:
                out[d.name()] = str(v)
        except Exception:
            out[d.name()] = str(v)
    return out
