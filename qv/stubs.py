"""Contract stubs for the FFI the real code reaches (LAPACK & friends).

They are installed on the numpy / scipy module attributes *before* quimb is imported and only
trigger for ``dtype == object`` inputs holding symbolic scalars; numeric calls fall through to
the genuine routine.  Every stub returns fresh symbols and appends the documented contract of
the routine to ``poly.HYP`` (equalities) and, under an active exploration, to the path
condition (orderings / signs).  Every stub used on a run is reported in the evidence.
"""
from __future__ import annotations

import functools

import numpy as np
import scipy.linalg as scla

from . import poly as P
from . import sx

USED = {}
LAST = {}          # name -> argument of the most recent call of that stub (for harnesses)
_N = [0]
OPTIONS = {"qr_positive_diag": True, "svd_positive": True, "eigh_spectrum": "real",
           # contracts=False: the factorisation stubs return fresh factors of the right shapes and add NO
           # contract to the hypotheses (fewer assumptions: sound).  For goals that only concern shapes
           # (bond caps of truncating runs), where the product contracts of huge operands are dead weight.
           "contracts": True,
           # range_consequences=True: for a tall isometric factor (m > r) also record the implied
           #   Q Q^dag A = A   (qr)      U U^dag A = A,  A V^dag V = A   (svd)
           # as *derived* hypotheses, each divided by the monomial of strictly positive symbols common to all
           # its terms (p = 0 <=> p / mono = 0).  Sound (consequences of the contract); opt-in because extra
           # rewrite rules change the certificate search of existing obligations.
           "range_consequences": False}


def reset():
    USED.clear()
    LAST.clear()
    _N[0] = 0


def _is_sym(x):
    return isinstance(x, np.ndarray) and x.dtype == object


def _any_sym(*xs):
    return any(_is_sym(x) for x in xs)


def _isreal(A):
    for v in A.reshape(-1):
        if isinstance(v, P.Poly) and not v.is_real():
            return False
        if isinstance(v, complex) and v.imag != 0:
            return False
    return True


def _fresh(name, shape, real, kind=None, constrained=False):
    k = kind or ("real" if real else "cplx")
    a = P.symarray(name, shape, k)
    if constrained:
        for v in a.reshape(-1):
            i = P.sid(v)
            P.TAB.constrained.add(i)
            P.TAB.constrained.add(P.TAB.partner[i])
    return a


def _dag(x):
    return np.conj(x.T) if x.ndim == 2 else np.conj(x)


def _lift_arr(A):
    out = np.empty(A.shape, dtype=object)
    for idx in np.ndindex(*A.shape):
        out[idx] = P.lift(A[idx])
    return out


def _add_eq(label, M, real, derived=False):
    """Add every entry of matrix/array M (== 0) as a hypothesis (plus conjugates if complex)."""
    dest = P.HYP_DERIVED if derived else P.HYP
    for idx in np.ndindex(*M.shape):
        p = P.lift(M[idx])
        if p.t:
            dest.append((f"{label}{list(idx)}", p))
            if not real:
                pc = p.conjugate()
                if pc.t != p.t:
                    dest.append((f"{label}{list(idx)}*", pc))


def _strip_common(M):
    """entrywise: divide each polynomial by the largest monomial of strictly positive (invertible)
    symbols common to all of its terms"""
    out = np.empty(M.shape, dtype=object)
    pos = P.TAB.positive
    for idx in np.ndindex(*M.shape):
        p = P.lift(M[idx])
        common = None
        for mono in p.t:
            d = {s_: e for s_, e in mono if s_ in pos and s_ in P.TAB.invertible and isinstance(e, int) and e > 0}
            common = d if common is None else {s_: min(e, d[s_]) for s_, e in common.items() if s_ in d}
            if not common:
                break
        if common:
            p = p * P.Poly({tuple(sorted(common.items())): 1}).inverse()
        out[idx] = p
    return out


def _eye(n):
    e = np.empty((n, n), dtype=object)
    for i in range(n):
        for j in range(n):
            e[i, j] = P.Poly.const(1 if i == j else 0)
    return e


def _use(name):
    USED[name] = USED.get(name, 0) + 1
    _N[0] += 1
    return _N[0]


# ------------------------------------------------------------------------------ QR

def qr_stub(A, mode="reduced"):
    if mode != "reduced":
        raise P.Unsupported(f"qr mode {mode}")
    A = _lift_arr(A)
    if A.ndim != 2:
        raise P.Unsupported("batched qr on symbolic input")
    k = _use("numpy.linalg.qr")
    m, n = A.shape
    r = min(m, n)
    real = _isreal(A)
    Q = _fresh(f"Q{k}", (m, r), real, constrained=True)
    R = _fresh(f"R{k}", (r, n), real)
    for i in range(r):
        for j in range(n):
            if i > j:
                R[i, j] = P.Poly.const(0)
        if i < n and (OPTIONS["qr_positive_diag"] or not real):
            # diagonal real positive (the stabilised form); in the real case the thorough
            # tier frees the sign and lets the stabiliser's branches fork
            R[i, i] = P.positive(f"R{k}d{i}")
    if not OPTIONS["contracts"]:
        return Q, R
    _add_eq(f"qr{k}:QhQ-I", _dag(Q).dot(Q) - _eye(r), real)
    _add_eq(f"qr{k}:QR-A", Q.dot(R) - A, real)
    # consequences of the contract (sound: implied by the two lines above); they lower the
    # degree of the certificates the decision procedure has to find
    if m == r:
        _add_eq(f"qr{k}:QQh-I", Q.dot(_dag(Q)) - _eye(m), real)
    # consequences (implied by the contract): Gram identity and R = Q^dag A
    _add_eq(f"qr{k}:RhR-AhA", _dag(R).dot(R) - _dag(A).dot(A), real, derived=True)
    _add_eq(f"qr{k}:QhA-R", _dag(Q).dot(A) - R, real, derived=True)
    if OPTIONS["range_consequences"] and m > r:
        _add_eq(f"qr{k}:QQhA-A", _strip_common(Q.dot(_dag(Q)).dot(A) - A), real, derived=True)
    return Q, R


# ------------------------------------------------------------------------------ SVD

def svd_stub(A, full_matrices=True, compute_uv=True, hermitian=False, **kw):
    A = _lift_arr(A)
    if A.ndim != 2:
        raise P.Unsupported("batched svd on symbolic input")
    m, n = A.shape
    r = min(m, n)
    if full_matrices and m != n and compute_uv:
        raise P.Unsupported("svd(full_matrices=True) of a non-square symbolic matrix")
    k = _use("linalg.svd")
    LAST["svd"] = A
    real = _isreal(A)
    s = np.empty(r, dtype=object)
    for i in range(r):
        # strictly positive (generic full-rank input): sqrt(s), 1/s stay monomials
        s[i] = P.positive(f"s{k}_{i}") if OPTIONS["svd_positive"] else P.nonneg(f"s{k}_{i}")
    c = sx.Ctx.cur
    if c is not None:
        for i in range(r - 1):
            c.add(c.polyvar(P.sid(s[i])) >= c.polyvar(P.sid(s[i + 1])))
        for i in range(r):
            c.polyvar(P.sid(s[i]))
    if not compute_uv:
        # singular values only: tied to A through the power sums  sum s^(2j) = Tr (A^dag A)^j
        if OPTIONS["contracts"]:
            _power_sums(A, s, m, n, r, k, P.HYP)
        return s
    U = _fresh(f"U{k}", (m, r), real, constrained=True)
    VH = _fresh(f"V{k}", (r, n), real, constrained=True)
    if not OPTIONS["contracts"]:
        return U, s, VH
    S = np.empty((r, r), dtype=object)
    for i in range(r):
        for j in range(r):
            S[i, j] = s[i] if i == j else P.ZERO
    _add_eq(f"svd{k}:UhU-I", _dag(U).dot(U) - _eye(r), real)
    _add_eq(f"svd{k}:VVh-I", VH.dot(_dag(VH)) - _eye(r), real)
    _add_eq(f"svd{k}:USV-A", U.dot(S).dot(VH) - A, real)
    if m == r:
        _add_eq(f"svd{k}:UUh-I", U.dot(_dag(U)) - _eye(m), real)
    if n == r:
        _add_eq(f"svd{k}:VhV-I", _dag(VH).dot(VH) - _eye(n), real)
    # cheap consequences that lower the certificate degree
    _add_eq(f"svd{k}:AVh-US", A.dot(_dag(VH)) - U.dot(S), real, derived=True)
    _add_eq(f"svd{k}:UhA-SV", _dag(U).dot(A) - S.dot(VH), real, derived=True)
    S2 = S.dot(S)
    _add_eq(f"svd{k}:VS2Vh-AhA", _dag(VH).dot(S2).dot(VH) - _dag(A).dot(A), real, derived=True)
    _add_eq(f"svd{k}:US2Uh-AAh", U.dot(S2).dot(_dag(U)) - A.dot(_dag(A)), real, derived=True)
    _power_sums(A, s, m, n, r, k, P.HYP_DERIVED)
    if OPTIONS["range_consequences"]:
        if m > r:
            _add_eq(f"svd{k}:UUhA-A", _strip_common(U.dot(_dag(U)).dot(A) - A), real, derived=True)
        if n > r:
            _add_eq(f"svd{k}:AVhV-A", _strip_common(A.dot(_dag(VH)).dot(VH) - A), real, derived=True)
    return U, s, VH


def _power_sums(A, s, m, n, r, k, dest):
    """power sums of the singular values are traces of powers of the (smaller) Gram matrix"""
    G = _dag(A).dot(A) if n <= m else A.dot(_dag(A))
    Gk = G
    for kk in range(1, min(r, 3) + 1):
        tr = sum((Gk[i, i] for i in range(Gk.shape[0])), P.ZERO)
        dest.append((f"svd{k}:p{kk}", sum((x ** (2 * kk) for x in s), P.ZERO) - tr))
        if kk < min(r, 3):
            Gk = Gk.dot(G)


# ------------------------------------------------------------------------------ eigh

def eigh_stub(A, *a, **kw):
    if kw.get("b") is not None or (a and a[0] is not None and not isinstance(a[0], (str, bool))):
        raise P.Unsupported("generalised eigh on symbolic input")
    A = _lift_arr(A)
    if A.ndim != 2 or A.shape[0] != A.shape[1]:
        raise P.Unsupported("eigh of non-square symbolic input")
    n = A.shape[0]
    # Hermiticity is a precondition: verify it symbolically
    for i in range(n):
        for j in range(n):
            if (A[i, j] - A[j, i].conjugate()).t:
                # may still be Hermitian modulo hypotheses; record as assumption + hypothesis-free note
                P.ASSUMED.append("eigh called on a matrix not syntactically Hermitian (Hermitian modulo stub contracts assumed)")
                break
    k = _use("linalg.eigh")
    real = _isreal(A)
    w = np.empty(n, dtype=object)
    for i in range(n):
        # "pos": the harness knows the matrix is positive definite (Gram matrix of a generic
        # full-rank input); "nonneg": positive semi-definite; "real": any Hermitian matrix
        w[i] = {"real": P.real, "nonneg": P.nonneg, "pos": P.positive}[OPTIONS["eigh_spectrum"]](f"w{k}_{i}")
    c = sx.Ctx.cur
    if c is not None:
        for i in range(n - 1):
            c.add(c.polyvar(P.sid(w[i])) <= c.polyvar(P.sid(w[i + 1])))
    V = _fresh(f"E{k}", (n, n), real, constrained=True)
    if not OPTIONS["contracts"]:
        return w, V
    W = np.empty((n, n), dtype=object)
    for i in range(n):
        for j in range(n):
            W[i, j] = w[i] if i == j else P.ZERO
    _add_eq(f"eigh{k}:VhV-I", _dag(V).dot(V) - _eye(n), real)
    _add_eq(f"eigh{k}:VVh-I", V.dot(_dag(V)) - _eye(n), real)
    _add_eq(f"eigh{k}:AV-VW", A.dot(V) - V.dot(W), real)
    _add_eq(f"eigh{k}:VWVh-A", V.dot(W).dot(_dag(V)) - A, real)
    return w, V


def eigvalsh_stub(A, *a, **kw):
    return eigh_stub(A)[0]


# ------------------------------------------------------------------------------ inverse / solve

def inv_stub(A):
    A = _lift_arr(A)
    n = A.shape[0]
    k = _use("numpy.linalg.inv")
    real = _isreal(A)
    X = _fresh(f"Inv{k}", (n, n), real)
    _add_eq(f"inv{k}:AX-I", A.dot(X) - _eye(n), real)
    _add_eq(f"inv{k}:XA-I", X.dot(A) - _eye(n), real)
    P.ASSUMED.append("matrix passed to inv assumed invertible")
    return X


def solve_stub(A, B, *a, **kw):
    A = _lift_arr(A)
    B = _lift_arr(np.asarray(B))
    k = _use("linalg.solve")
    real = _isreal(A) and _isreal(B)
    X = _fresh(f"Sol{k}", B.shape, real)
    _add_eq(f"solve{k}:AX-B", A.dot(X) - B, real)
    P.ASSUMED.append("matrix passed to solve assumed invertible")
    return X


def solve_triangular_stub(a, b, trans=0, lower=False, unit_diagonal=False, **kw):
    """exact forward / back substitution (the diagonal entries are divided by: they must be
    invertible symbols, e.g. the positive diagonal of a Cholesky / QR factor)"""
    _use("scipy.linalg.solve_triangular (exact substitution)")
    A = _lift_arr(np.asarray(a))
    B = _lift_arr(np.asarray(b))
    if trans in (1, "T"):
        A = A.T
        lower = not lower
    elif trans in (2, "C"):
        A = _dag(A)
        lower = not lower
    vec = B.ndim == 1
    if vec:
        B = B.reshape(-1, 1)
    n = A.shape[0]
    X = np.empty(B.shape, dtype=object)
    order = range(n) if lower else range(n - 1, -1, -1)
    for j in range(B.shape[1]):
        for i in order:
            acc = B[i, j]
            ks = range(i) if lower else range(i + 1, n)
            for k in ks:
                acc = acc - A[i, k] * X[k, j]
            X[i, j] = acc if unit_diagonal else acc / A[i, i]
    return X.reshape(-1) if vec else X


def cholesky_stub(A, *a, **kw):
    upper = kw.get("upper", False)
    lower = kw.get("lower", None)
    A = _lift_arr(A)
    n = A.shape[0]
    k = _use("linalg.cholesky")
    real = _isreal(A)
    L = _fresh(f"L{k}", (n, n), real)
    for i in range(n):
        for j in range(n):
            if j > i:
                L[i, j] = P.ZERO
        L[i, i] = P.positive(f"L{k}d{i}")
    _add_eq(f"chol{k}:LLh-A", L.dot(_dag(L)) - A, real)
    P.ASSUMED.append("matrix passed to cholesky assumed positive definite")
    if upper or lower is False:
        return _dag(L)
    return L


# ------------------------------------------------------------------------------ misc numpy gaps

def _obj_norm(x, ord=None, axis=None, keepdims=False):
    if ord not in (None, "fro", 2) or axis is not None:
        raise P.Unsupported("norm variant on symbolic input")
    if ord == 2 and x.ndim != 1:
        raise P.Unsupported("spectral norm on symbolic input")
    tot = P.ZERO
    for v in x.reshape(-1):
        v = P.lift(v)
        tot = tot + v * v.conjugate()
    return tot.sqrt()


def _wrap(real_fn, stub, argn=1):
    @functools.wraps(real_fn)
    def f(*a, **kw):
        if _any_sym(*[x for x in a[:argn] if isinstance(x, np.ndarray)]):
            return stub(*a, **kw)
        return real_fn(*a, **kw)

    f.__qv_real__ = real_fn
    return f


def _isnan(x, *a, **kw):
    if isinstance(x, P.Poly):
        return False
    if _is_sym(x):
        return np.zeros(x.shape, dtype=bool)
    return _REAL["isnan"](x, *a, **kw)


def _isfinite(x, *a, **kw):
    if isinstance(x, P.Poly):
        return True
    if _is_sym(x):
        return np.ones(x.shape, dtype=bool)
    return _REAL["isfinite"](x, *a, **kw)


def _isclose_obj(a, b, *args, **kw):
    """exact semantics on symbolic data: two exact quantities are 'close' iff identical (a
    non-trivial polynomial difference is non-zero in generic position)"""
    a = np.asarray(a)
    b = np.asarray(b)
    a, b = np.broadcast_arrays(a, b)
    out = np.empty(a.shape, dtype=bool)
    for idx in np.ndindex(*a.shape):
        d = P.lift(a[idx]) - P.lift(b[idx])
        cv = d.constval()
        out[idx] = (not d.t) or (cv is not None and abs(cv) < 1e-12)
    if any((not o) for o in out.reshape(-1)) and len(P.ASSUMED) < 60:
        P.ASSUMED.append("allclose/isclose on symbolic data: generic position (different polynomials are not close)")
    return out


def _wrap_close(real_fn, reduce_all):
    @functools.wraps(real_fn)
    def f(a, b, *args, **kw):
        if _is_sym(np.asarray(a)) or _is_sym(np.asarray(b)) or isinstance(a, P.Poly) or isinstance(b, P.Poly):
            r = _isclose_obj(a, b)
            return bool(r.all()) if reduce_all else (r if r.ndim else bool(r))
        return real_fn(a, b, *args, **kw)

    f.__qv_real__ = real_fn
    return f


def _sum_like(name):
    real = getattr(np, name)

    def f(x, *a, **kw):
        return real(x, *a, **kw)

    return f


def _max_stub(a, axis=None, out=None, **kw):
    """max over symbolic magnitudes -> an arbitrary positive factor 10**E (E a fresh exponent
    symbol).  Over-approximation used for norm-stripping code: an identity that holds for every
    positive factor holds for the max-abs one."""
    if axis is not None or out is not None:
        raise P.Unsupported("np.max(axis=...) on symbolic input")
    vals = [P.lift(v) for v in np.asarray(a).reshape(-1)]
    if all(not isinstance(v, P.LazyAbs) and v.constval() is not None for v in vals):
        cs = [v.constval() for v in vals]
        return P.Poly.const(max(cs))
    if len(vals) == 1 and not isinstance(vals[0], P.LazyAbs):
        return vals[0]
    k = _use("max(abs(.)) -> positive factor")
    E = P.real(f"E{k}", origin="log10 of a stripped positive factor")
    return P.exp10(E)


def _wrap_reduce(real_fn, stub):
    @functools.wraps(real_fn)
    def f(a, *args, **kw):
        if _is_sym(a) and a.size and any(isinstance(v, P.Poly) for v in a.reshape(-1)):
            return stub(a, *args, **kw)
        return real_fn(a, *args, **kw)

    f.__qv_real__ = real_fn
    return f


class _ObjFinfo:
    """machine epsilon of exact arithmetic: regularisations of the form eps * something vanish"""
    eps = 0.0
    tiny = 0.0
    smallest_normal = 0.0
    resolution = 0.0
    max = float("inf")
    min = -float("inf")
    dtype = np.dtype(object)


def _finfo(dtype):
    try:
        if np.dtype(dtype) == np.dtype(object):
            return _ObjFinfo()
    except TypeError:
        pass
    return _REAL["finfo"](dtype)


def _unary(name):
    real_fn = getattr(np, name)

    def f(x, *a, **kw):
        if isinstance(x, P.Poly):
            return getattr(x, name)()
        if _is_sym(x) and not a and not kw:
            out = np.empty(x.shape, dtype=object)
            for idx in np.ndindex(*x.shape):
                v = P.lift(x[idx])
                out[idx] = getattr(v, name)() if v is not NotImplemented else real_fn(x[idx])
            return out if out.ndim else out[()]
        return real_fn(x, *a, **kw)

    f.__name__ = name
    f.__qv_real__ = real_fn
    return f


def _realify_scalar(x, imag_tol=1e-12):
    if isinstance(x, P.Poly):
        return x
    return _REAL["realify_scalar"](x, imag_tol)


_REAL = {}
_INSTALLED = [False]


def install():
    if _INSTALLED[0]:
        return
    _INSTALLED[0] = True
    # numba registers numpy's ufunc objects while quimb is imported: import first, patch after.
    # (quimb / autoray look the patched attributes up at call time.)
    import quimb  # noqa
    import quimb.tensor  # noqa
    try:
        # casting exact symbolic scalars to a float / complex dtype is the identity
        import autoray as _ar

        def _astype(x, dtype, **kw):
            if getattr(x, "dtype", None) == object or isinstance(x, P.Poly):
                return x
            return x.astype(_ar.to_backend_dtype(dtype, like=x) if isinstance(dtype, str) else dtype, **kw)

        _ar.register_function("numpy", "astype", _astype)
    except Exception:
        pass
    try:
        # check workers are daemonic processes: cotengra must not try to spawn its own pool
        import cotengra.parallel as _cp
        _cp._IS_WORKER = True
    except Exception:
        pass
    _REAL["isnan"] = np.isnan
    _REAL["isfinite"] = np.isfinite
    np.linalg.qr = _wrap(np.linalg.qr, qr_stub)
    np.linalg.svd = _wrap(np.linalg.svd, svd_stub)
    np.linalg.eigh = _wrap(np.linalg.eigh, eigh_stub)
    np.linalg.eigvalsh = _wrap(np.linalg.eigvalsh, eigvalsh_stub)
    np.linalg.inv = _wrap(np.linalg.inv, inv_stub)
    np.linalg.solve = _wrap(np.linalg.solve, solve_stub, argn=2)
    np.linalg.cholesky = _wrap(np.linalg.cholesky, cholesky_stub)
    np.linalg.norm = _wrap(np.linalg.norm, _obj_norm)
    scla.svd = _wrap(scla.svd, lambda A, full_matrices=True, compute_uv=True, **kw: svd_stub(A, full_matrices=full_matrices, compute_uv=compute_uv))
    scla.eigh = _wrap(scla.eigh, eigh_stub)
    scla.qr = _wrap(scla.qr, lambda A, mode="full", **kw: qr_stub(A, "reduced" if mode == "economic" else mode))
    scla.cholesky = _wrap(scla.cholesky, cholesky_stub)
    scla.solve = _wrap(scla.solve, solve_stub, argn=2)
    scla.solve_triangular = _wrap(scla.solve_triangular, solve_triangular_stub, argn=2)
    scla.inv = _wrap(scla.inv, inv_stub)
    np.isnan = _isnan
    np.isfinite = _isfinite
    _REAL["finfo"] = np.finfo
    np.finfo = _finfo
    for nm in ("sqrt", "exp", "log10", "cos", "sin"):
        setattr(np, nm, _unary(nm))
    np.allclose = _wrap_close(np.allclose, True)
    np.isclose = _wrap_close(np.isclose, False)
    np.max = _wrap_reduce(np.max, _max_stub)
    np.amax = np.max
    import quimb.core as _qc
    import quimb.tensor.tensor_core as _tc
    _REAL["realify_scalar"] = _qc.realify_scalar
    _qc.realify_scalar = _realify_scalar
    _tc.realify_scalar = _realify_scalar
    # dtype shims (object arrays only): quimb picks output buffers by dtype *name*
    if not hasattr(_qc.common_type, "__qv_real__"):
        _real_ct = _qc.common_type

        def _common_type(*arrays):
            if any(getattr(a, "dtype", None) == object for a in arrays):
                return object
            return _real_ct(*arrays)

        _common_type.__qv_real__ = _real_ct
        _qc.common_type = _common_type

        def _qarray_astype(self, dtype, *a, **k):
            if self.dtype == object and np.dtype(dtype) != object:
                return self.copy()
            return np.ndarray.astype(self, dtype, *a, **k)

        _qc.qarray.astype = _qarray_astype
