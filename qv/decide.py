"""Decision procedures over Poly goals.

Q-ID   : identity of two polynomials with no hypotheses.  Every distinct normal monomial is an
         uninterpreted real constant (normal monomials are linearly independent functions), the
         query is  OR_i lin(lhs_i) != lin(rhs_i)  in QF_LRA.  unsat => identity for all values
         of all symbols.  sat => the two sides are different polynomial functions; a rational
         witness point is then searched by evaluation and replayed on the real code.
         For small goals the un-normalised QF_NRA query (products left to z3) is discharged as
         well, as a cross-check of the normaliser.
Q-CERT : identity modulo hypotheses h_k = 0 (stub contracts).  Linear Nullstellensatz
         certificate: rows mu*h_k = 0 for monomial multipliers mu found by term-quotient
         closure, query rows AND goal != 0 in QF_LRA.  unsat => goal in <h_k>.  sat only means
         "no certificate at this degree" and is never reported as a violation by itself.
"""
from __future__ import annotations

import time
from fractions import Fraction

import z3

from . import poly as P


class Stats:
    def __init__(self):
        self.queries = 0
        self.solver_s = 0.0
        self.build_s = 0.0
        self.rows = 0
        self.monomials = 0
        self.nra_crosschecks = 0
        self.by_proc = {}

    def bump(self, proc, dt):
        self.queries += 1
        self.solver_s += dt
        self.by_proc[proc] = self.by_proc.get(proc, 0) + 1

    def as_dict(self):
        return {
            "queries": self.queries,
            "solver_s": round(self.solver_s, 3),
            "build_s": round(self.build_s, 3),
            "rows": self.rows,
            "monomials": self.monomials,
            "nra_crosschecks": self.nra_crosschecks,
            "by_procedure": dict(self.by_proc),
        }


def _ratval(c):
    if isinstance(c, int):
        return z3.RealVal(c)
    return z3.RealVal(str(Fraction(c)))


class _MonoAtoms:
    def __init__(self):
        self.v = {}

    def atom(self, m):
        a = self.v.get(m)
        if a is None:
            a = z3.Real(f"m{len(self.v)}")
            self.v[m] = a
        return a

    def lin(self, p):
        if not p.t:
            return z3.RealVal(0)
        terms = []
        for m, c in p.t.items():
            if m:
                terms.append(_ratval(c) * self.atom(m) if c != 1 else self.atom(m))
            else:
                terms.append(_ratval(c))
        return z3.Sum(terms) if len(terms) > 1 else terms[0]


_S2 = {"mode": None, "spent": 0.0}


def _second_solver(s, r, stats, proc):
    """Differential check of a deciding query with a second solver (cvc5, through the SMT-LIB text z3 exports).
    Controlled by QV_SOLVER2 (default 'cvc5'; 'off' disables) with the size cap QV_SOLVER2_ROWS (assertions) and a
    per-process time allowance QV_SOLVER2_BUDGET_S.  A definite disagreement is a harness error (the obligation
    ends inconclusive, never discharged); a cvc5 timeout / oversize query is counted as skipped."""
    import os
    if _S2["mode"] is None:
        _S2["mode"] = os.environ.get("QV_SOLVER2", "cvc5")
        _S2["rows"] = int(os.environ.get("QV_SOLVER2_ROWS", "600"))
        _S2["budget"] = float(os.environ.get("QV_SOLVER2_BUDGET_S", "8"))
    if _S2["mode"] != "cvc5" or r not in ("sat", "unsat") or not proc.startswith(("Q-ID/LRA", "Q-CERT/LRA", "Q-CERT/cons")):
        return
    key = "second-solver(cvc5) "
    if len(s.assertions()) > _S2["rows"] or _S2["spent"] > _S2["budget"]:
        stats.by_proc[key + "skipped (size/time allowance)"] = stats.by_proc.get(key + "skipped (size/time allowance)", 0) + 1
        return
    t0 = time.time()
    try:
        import cvc5
        txt = "(set-logic QF_LRA)\n" + s.to_smt2()
        slv = cvc5.Solver()
        slv.setOption("tlimit-per", "5000")
        ip = cvc5.InputParser(slv)
        ip.setStringInput(cvc5.InputLanguage.SMT_LIB_2_6, txt, "q")
        sm = ip.getSymbolManager()
        r2 = None
        while True:
            c = ip.nextCommand()
            if c.isNull():
                break
            o = c.invoke(slv, sm)
            if c.getCommandName() == "check-sat":
                r2 = str(o).strip()
    except Exception as e:                                            # noqa: BLE001 - an unusable second solver never decides
        r2 = f"error: {type(e).__name__}"
    _S2["spent"] += time.time() - t0
    if r2 in ("sat", "unsat"):
        if r2 != r:
            raise AssertionError(f"solver disagreement on {proc}: z3 {r}, cvc5 {r2}")
        stats.by_proc[key + "agrees"] = stats.by_proc.get(key + "agrees", 0) + 1
    else:
        stats.by_proc[key + "no verdict"] = stats.by_proc.get(key + "no verdict", 0) + 1


def _check(s, stats, proc):
    t0 = time.time()
    r = str(s.check())
    stats.bump(proc, time.time() - t0)
    _second_solver(s, r, stats, proc)
    return r


def _fold_alg(p):
    """coefficients with the algebraic constants (sqrt n symbols) evaluated numerically, grouped by the
    remaining monomial: only used by the floating-point tolerance retry"""
    import math
    from fractions import Fraction
    out = {}
    alg = P.TAB.powrule
    for m, c in p.t.items():
        val = None
        rest = []
        for sid, e in m:
            if sid in alg and alg[sid][0] == 2 and sid in P._ALG.values():
                val = (val if val is not None else 1.0) * math.sqrt(alg[sid][1]) ** float(e)
            else:
                rest.append((sid, e))
        if val is None:
            key, cc = m, c
        else:
            key, cc = tuple(rest), Fraction(float(c) * val)
        out[key] = out.get(key, 0) + cc
    return out


def q_id(pairs, stats, timeout_ms=60000, nra_limit=400):
    """pairs: list of (lhs Poly, rhs Poly).  Returns ('unsat'|'sat'|'unknown', bad_indices)."""
    t0 = time.time()
    atoms = _MonoAtoms()
    s = z3.SolverFor("QF_LRA")
    s.set("timeout", timeout_ms)
    lits = []
    for i, (a, b) in enumerate(pairs):
        if a.t is b.t:
            continue
        lits.append((i, atoms.lin(a) != atoms.lin(b)))
    stats.build_s += time.time() - t0
    stats.monomials += len(atoms.v)
    if not lits:
        # every pair is the very same object: still one (trivial) query for the record
        s.add(z3.BoolVal(False))
        r = _check(s, stats, "Q-ID/LRA")
        return r, []
    s.add(z3.Or([l for _, l in lits]))
    r = _check(s, stats, "Q-ID/LRA")
    bad = []
    if r == "sat" and P.STATS["inexact_float_lifts"] > 0:
        # constants produced by numeric LAPACK on constant arrays (e.g. the SVD factors of a CX gate)
        # are floats that are not exactly representable: compare up to 1e-9 in the coefficients
        # ("up to floating point"); the query is repeated on the differences with negligible
        # coefficients dropped
        s2 = z3.SolverFor("QF_LRA")
        s2.set("timeout", timeout_ms)
        atoms2 = _MonoAtoms()
        lits2 = []
        for i, (a, b) in enumerate(pairs):
            dd = _fold_alg(a - b)
            scale = max([abs(float(c)) for c in list(a.t.values()) + list(b.t.values())] or [1.0])
            keep = {m: c for m, c in dd.items() if abs(float(c)) > 1e-9 * max(1.0, scale)}
            lits2.append((i, atoms2.lin(P.Poly(keep)) != 0))
        s2.add(z3.Or([l for _, l in lits2]))
        r2 = _check(s2, stats, "Q-ID/LRA(1e-9 coefficient tolerance)")
        if r2 == "unsat":
            stats.by_proc["tolerance_discharged"] = stats.by_proc.get("tolerance_discharged", 0) + 1
            return "unsat", []
        s, lits = s2, lits2
    if r == "sat":
        m = s.model()
        for i, l in lits:
            if z3.is_true(m.eval(l, model_completion=True)):
                bad.append(i)
    elif r == "unsat":
        # cross-check through non-linear real arithmetic on the small ones
        size = sum(len(a.t) + len(b.t) for a, b in pairs)
        if 0 < size <= nra_limit:
            rr = _q_id_nra(pairs, stats, 20000)
            if rr == "skipped":
                stats.nra_crosschecks -= 0
            if rr == "sat":
                raise AssertionError("Q-ID: LRA-over-monomials and NRA disagree (normaliser bug)")
    return r, bad


def _nra_term(p, vars_):
    terms = []
    for m, c in p.t.items():
        t = _ratval(c)
        for sid, e in m:
            if not isinstance(e, int) or e < 0:
                raise _NoNRA()
            v = vars_.get(sid)
            if v is None:
                v = z3.Real(f"x{sid}")
                vars_[sid] = v
            for _ in range(e):
                t = t * v
        terms.append(t)
    if not terms:
        return z3.RealVal(0)
    return z3.Sum(terms) if len(terms) > 1 else terms[0]


class _NoNRA(Exception):
    pass


def _q_id_nra(pairs, stats, timeout_ms):
    vars_ = {}
    s = z3.Solver()
    s.set("timeout", timeout_ms)
    try:
        lits = [_nra_term(a, vars_) != _nra_term(b, vars_) for a, b in pairs]
    except _NoNRA:
        return "skipped"
    for sid, v in vars_.items():
        pr = P.TAB.powrule.get(sid)
        if pr is not None:
            s.add(v * v == pr[1]) if pr[0] == 2 else None
        if sid in P.TAB.units:
            return "skipped"
    s.add(z3.Or(lits))
    stats.nra_crosschecks += 1
    return _check(s, stats, "Q-ID/NRA-crosscheck")


# ------------------------------------------------------------------------------ certificates

def _mdiv(m, t):
    """m / t for monomials (tuples of (sid, exp) sorted by sid) or None if t does not divide m.
    Ordinary symbols need exponent(m) >= exponent(t); invertible symbols (any rational
    exponent is a legal monomial) only need to be present in m."""
    if not t:
        return m
    d = dict(m)
    inv = P.TAB.invertible
    for s, e in t:
        have = d.get(s)
        if have is None:
            return None
        if s in inv:
            ne = have - e
        else:
            if have < e:
                return None
            ne = have - e
        if ne:
            d[s] = ne
        else:
            del d[s]
    return tuple(sorted(d.items()))


def _deg(m):
    inv = P.TAB.invertible
    return sum(e for s, e in m if s not in inv)


def build_rows(goals, hyps, rounds=2, max_rows=120000, deg_cap=None):
    """Term-quotient closure.  goals/hyps: lists of Poly.  Returns list of row Polys."""
    # index hypothesis terms by their smallest-frequency symbol
    by_sym = {}
    consts = []
    for k, h in enumerate(hyps):
        for t in h.t:
            if not t:
                consts.append((k, t))
                continue
            for v, _ in t:
                by_sym.setdefault(v, []).append((k, t))
    frontier = set()
    for g in goals:
        frontier.update(g.t)
    allmon = set(frontier)
    if deg_cap is None:
        deg_cap = max((_deg(m) for m in frontier), default=0) + 2
    seen = set()
    rows = []
    for _ in range(rounds):
        new = set()
        for m in frontier:
            cands = set()
            for v, _ in m:
                for kt in by_sym.get(v, ()):
                    cands.add(kt)
            for k, t in cands:
                q = _mdiv(m, t)
                if q is None or (k, q) in seen:
                    continue
                seen.add((k, q))
                row = hyps[k] * P.Poly({q: 1}) if q else hyps[k]
                if any(_deg(mm) > deg_cap for mm in row.t):
                    continue
                rows.append(row)
                for mm in row.t:
                    if mm not in allmon:
                        allmon.add(mm)
                        new.add(mm)
                if len(rows) > max_rows:
                    return rows, allmon, True
        frontier = new
        if not new:
            break
    return rows, allmon, False


def _okey(m):
    """lex order with newer symbols larger: key for comparing monomials"""
    return tuple(sorted(m, reverse=True))


class _Rules:
    """hypotheses oriented as rewrite rules  lead -> -(rest)/lc  under the lex order above.
    Reduction with them is the *search* for a Nullstellensatz certificate: every step subtracts
    a monomial multiple of a hypothesis, the multiples used are the certificate rows that the
    solver then checks."""

    def __init__(self, hyps):
        self.rules = []
        self.by_top = {}
        for k, h in enumerate(hyps):
            if not h.t:
                continue
            lead = max(h.t, key=_okey)
            if not lead:
                continue
            lc = h.t[lead]
            self.rules.append((lead, lc, h, k))
            top = max(s for s, _ in lead)
            self.by_top.setdefault(top, []).append(len(self.rules) - 1)

    def find(self, m):
        """a rule whose lead divides monomial m -> (rule index, quotient)"""
        for s, _ in m:
            for ri in self.by_top.get(s, ()):
                lead = self.rules[ri][0]
                q = _mdiv_strict(m, lead)
                if q is not None:
                    return ri, q
        return None


def _mdiv_strict(m, t):
    """m / t requiring exponent(m) >= exponent(t) > 0 for every symbol of t (also for the
    invertible ones: keeps the rewriting terminating)"""
    d = dict(m)
    for s, e in t:
        have = d.get(s)
        if have is None or e <= 0 or not isinstance(have, int) and have < e:
            return None
        if have < e:
            return None
        ne = have - e
        if ne:
            d[s] = ne
        else:
            del d[s]
    return tuple(sorted(d.items()))


def reduce_nf(goal, rules, max_steps=300000):
    """normal form of `goal` under the rules; returns (nf Poly, used {(hyp index, quotient): coef})"""
    import heapq
    cur = dict(goal.t)
    heap = [(_neg(_okey(m)), m) for m in cur]
    heapq.heapify(heap)
    done = {}
    used = {}
    steps = 0
    while heap:
        _, m = heapq.heappop(heap)
        c = cur.pop(m, None)
        if c is None:
            continue
        hit = rules.find(m)
        if hit is None:
            done[m] = c
            continue
        ri, q = hit
        lead, lc, h, k = rules.rules[ri]
        f = Fraction(c) / lc
        f = f.numerator if f.denominator == 1 else f
        used[(k, q)] = used.get((k, q), 0) + f
        for hm, hc in h.t.items():
            if hm == lead:
                continue
            kk, mm = P._mmul(hm, q)
            old = cur.get(mm)
            v = (old or 0) - f * hc * kk
            if v:
                cur[mm] = v
                if old is None:
                    heapq.heappush(heap, (_neg(_okey(mm)), mm))
            else:
                cur.pop(mm, None)
        steps += 1
        if steps > max_steps:
            for mm, v in cur.items():
                done[mm] = done.get(mm, 0) + v
            break
    return P.Poly({m: c for m, c in done.items() if c}), used


class _neg:
    """reverse ordering wrapper for heapq (max-heap on the monomial order)"""
    __slots__ = ("k",)

    def __init__(self, k):
        self.k = k

    def __lt__(self, o):
        return self.k > o.k

    def __eq__(self, o):
        return self.k == o.k


def eliminate(hyps, goals, max_terms=60000, nopivot=0):
    """Solve hypotheses for symbols and substitute.  A hypothesis  c*m*x + rest = 0  with x
    occurring exactly once (linearly), m a monomial of invertible symbols and x not in
    `rest`, is equivalent to  x = -rest/(c*m)  (m != 0): substituting it into everything else
    removes both the hypothesis and the symbol.  Entries of isometric factors (Q, U, V) are
    never solved for, so what remains are the orthonormality relations.  Preference: leaf /
    older symbols first.  Returns (remaining hyps, substituted goals, number eliminated)."""
    nbase = len(hyps) - nopivot     # the last `nopivot` hypotheses are derived consequences
    goals = list(goals)
    hyps = list(hyps)
    inv = P.TAB.invertible
    con = P.TAB.constrained
    nel = 0
    progress = True
    dead = set()
    while progress:
        progress = False
        for hi, h in enumerate(hyps):
            if hi in dead or not h.t or hi >= nbase:
                continue
            # candidate symbols: appear in exactly one term, with exponent 1, cofactor invertible
            occ = {}
            for m in h.t:
                for s, e in m:
                    occ.setdefault(s, []).append((m, e))
            best = None
            for s, lst in occ.items():
                if s in con or s in inv or s == 0 or s in P.TAB.powrule or len(lst) != 1:
                    continue
                m, e = lst[0]
                if e != 1:
                    continue
                if any(x[0] != s and x[0] not in inv for x in m):
                    continue
                if best is None or s < best[0]:
                    best = (s, m)
            if best is None:
                continue
            s, m = best
            c = h.t[m]
            cof = P.Poly({tuple(x for x in m if x[0] != s): c})
            rest = P.Poly({mm: cc for mm, cc in h.t.items() if mm != m})
            expr = (-rest) * cof.inverse()
            if len(expr.t) > 400:
                continue
            dead.add(hi)
            cache = {}
            for hj in range(len(hyps)):
                if hj not in dead and hyps[hj].t:
                    if any(x[0] == s for mm in hyps[hj].t for x in mm):
                        hyps[hj] = hyps[hj].subs(s, expr, cache)
            for gi in range(len(goals)):
                g = goals[gi]
                if g.t and any(x[0] == s for mm in g.t for x in mm):
                    goals[gi] = g.subs(s, expr, cache)
                    if len(goals[gi].t) > max_terms:
                        raise _TooBig()
            nel += 1
            progress = True
    rem = []
    seen = set()
    for hi, h in enumerate(hyps):
        if hi in dead or not h.t:
            continue
        k = frozenset(h.t.items())
        if k not in seen:
            seen.add(k)
            rem.append(h)
    return rem, goals, nel


class _TooBig(Exception):
    pass


def clear_denominators(polys, max_terms=60000):
    """Every division by a non-monomial symbolic quantity p introduced a symbol w with the
    hypothesis w*p = 1 (p != 0 is the recorded assumption).  For each such w, newest first (p may
    contain older w's), every polynomial g(w) of degree k in w is replaced by p**k * g(1/p), a
    polynomial free of w; since p != 0, g == 0 iff the replacement == 0, and the defining hypothesis
    itself becomes 0 == 0.  Rational-function identities thereby become polynomial ones."""
    polys = list(polys)
    ncl = 0
    for w in sorted(P.DEF_INV, reverse=True):
        p = P.DEF_INV[w]
        pw = {0: P.ONE, 1: p}
        touched = []
        ok = True
        for idx, g in enumerate(polys):
            k = 0
            for m in g.t:
                for s, e in m:
                    if s == w:
                        if e < 0 or e != int(e):
                            ok = False
                        k = max(k, e)
            if k:
                touched.append((idx, int(k)))
        if not ok or not touched:
            continue
        for idx, k in touched:
            g = polys[idx]
            byexp = {}
            for m, c in g.t.items():
                e = 0
                rest = []
                for s, ee in m:
                    if s == w:
                        e = int(ee)
                    else:
                        rest.append((s, ee))
                byexp.setdefault(e, {})[tuple(rest)] = c
            acc = P.ZERO
            for e, terms in byexp.items():
                n = k - e
                if n not in pw:
                    q = pw[max(j for j in pw if j <= n)]
                    for j in range(max(j for j in pw if j <= n) + 1, n + 1):
                        q = q * p
                        pw[j] = q
                        if len(q.t) > max_terms:
                            raise _TooBig()
                acc = acc + P.Poly(terms) * pw[n]
                if len(acc.t) > max_terms:
                    raise _TooBig()
            polys[idx] = acc
        ncl += 1
    return polys, ncl


def q_cert(goals, hyps, stats, rounds=2, timeout_ms=120000, max_rows=120000, derived=()):
    """goals: list of Poly (to be shown == 0 modulo hyps).  Returns
    ('unsat'|'sat'|'unknown'|'vacuous', info).

    Stage 1: certificate *search* by polynomial reduction (hypotheses oriented as rewrite
    rules); the monomial multiples used are handed to z3 as rows and z3 *checks*
    rows => goal == 0 in QF_LRA.  Stage 2 (goals stage 1 cannot reduce to zero): blind
    term-quotient closure + QF_LRA as before."""
    goals = [g for g in goals]
    info_cd = {}
    if P.DEF_INV:
        # rational identities: clear the denominators introduced by divisions (w = 1/p, p != 0 assumed)
        try:
            allp, ncl = clear_denominators(list(goals) + list(hyps) + list(derived))
            ng, nh = len(goals), len(hyps)
            goals = allp[:ng]
            hyps = [h for h in allp[ng:ng + nh] if h.t]
            derived = [h for h in allp[ng + nh:] if h.t]
            info_cd = {"denominators_cleared": ncl}
        except _TooBig:
            info_cd = {"denominators_cleared": "aborted (too many terms)"}
    origidx = [i for i, g in enumerate(goals) if g.t]     # positions in the caller's goal list
    nz = [g for g in goals if g.t]
    if not nz:
        s = z3.SolverFor("QF_LRA")
        s.add(z3.BoolVal(False))
        return _check(s, stats, "Q-CERT/trivial"), dict(info_cd, rows=0)
    goals = list(nz)
    t0 = time.time()
    info0 = {}
    try:
        derived = [h for h in derived if len(h.t) <= 200]     # big consequences cost more than they help
        hyps, nz2, nel = eliminate(list(hyps) + list(derived), nz, nopivot=len(derived))
        info0 = dict(info_cd, eliminated=nel, hyps_left=len(hyps))
        goals = nz = [g for g in nz2]
        nz = [g for g in nz if g.t]
        if not nz:
            s = z3.SolverFor("QF_LRA")
            s.add(z3.BoolVal(False))
            return _check(s, stats, "Q-CERT/eliminated"), dict(info0, rows=0)
    except _TooBig:
        info0 = dict(info_cd, eliminated="aborted (too many terms)")
    rules = _Rules(hyps)
    rowkeys = {}
    left = []
    for g in nz:
        nf, used = reduce_nf(g, rules)
        rowkeys.update(used)
        if nf.t:
            left.append(nf)       # goal = (used multiples of hypotheses) + nf : continue with nf
    info = dict(info0, reduced_to_zero=len(nz) - len(left), not_reduced=len(left))
    atoms = _MonoAtoms()
    s = z3.SolverFor("QF_LRA")
    s.set("timeout", timeout_ms)
    rows = []
    for (k, q) in rowkeys:
        rows.append(hyps[k] * P.Poly({q: 1}) if q else hyps[k])
    allmon = set()
    capped = False
    if left:
        rows2, allmon, capped = build_rows(left, hyps, rounds=rounds, max_rows=max_rows)
        rows.extend(rows2)
    for r in rows:
        s.add(atoms.lin(r) == 0)
    stats.build_s += time.time() - t0
    stats.rows += len(rows)
    stats.monomials += len(atoms.v)
    info.update({"rows": len(rows), "monomials": len(atoms.v), "capped": capped, "rounds": rounds})
    # vacuity guard: the rows alone must be satisfiable (1 not in their span)
    r0 = _check(s, stats, "Q-CERT/consistency")
    if r0 != "sat":
        return ("vacuous" if r0 == "unsat" else "unknown"), info
    s.add(z3.Or([atoms.lin(g) != 0 for g in nz]))
    r = _check(s, stats, "Q-CERT/LRA")
    if r == "sat":
        m = s.model()
        info["uncertified"] = [origidx[i] for i, g in enumerate(goals)
                               if g.t and z3.is_true(m.eval(atoms.lin(g) != 0, model_completion=True))]
    return r, info


# ------------------------------------------------------------------------------ witnesses

def find_witness(diffs, rng, leaf_ids, tries=40):
    """Rational point (leaf symbols only) at which some diff is numerically non-zero.
    Returns env {sid: value} or None.  Used only to *replay* a sat verdict."""
    for _ in range(tries):
        env = random_env(rng, leaf_ids)
        for d in diffs:
            try:
                v = d.evaluate(env)
            except KeyError:
                continue
            if abs(v) > 1e-9:
                return env
    return None


def random_env(rng, ids):
    env = {0: 1j}
    for sid in ids:
        kind = P.TAB.kind[sid]
        if kind == "pos":
            env[sid] = rng.randint(2, 12) / 8
        elif kind == "unit":
            import cmath
            env[sid] = cmath.exp(1j * rng.randint(1, 40) / 7)
        elif kind == "alg":
            env[sid] = P.TAB.powrule[sid][1] ** 0.5
        elif kind == "real":
            if sid in P.TAB.positive or sid in P.TAB.nonneg:
                env[sid] = rng.randint(1, 12) / 8
            else:
                env[sid] = rng.choice([-1, 1]) * rng.randint(1, 12) / 8
        elif kind == "cplx":
            z = complex(rng.choice([-1, 1]) * rng.randint(1, 12) / 8, rng.choice([-1, 1]) * rng.randint(1, 12) / 8)
            env[sid] = z
            env[P.TAB.partner[sid]] = z.conjugate()
    return env
