"""Reference semantics, independent of quimb's algorithms (only reads .data / .inds of tensors).

Everything is written with explicit index arithmetic over Python loops so it works unchanged on
object arrays of symbolic scalars and on numeric arrays."""
from __future__ import annotations

import itertools

import numpy as np


def _zero_like(arrays):
    for a in arrays:
        a = np.asarray(a)
        if a.dtype == object:
            from . import poly as P
            return P.ZERO, object
    dt = np.result_type(*[np.asarray(a).dtype for a in arrays]) if arrays else float
    return dt.type(0), dt


def sum_of_products(terms, output_inds, sizes=None):
    """terms: list of (array, inds).  Sum over every label not in output_inds of the product of
    the entries; labels may repeat on one tensor (diagonal) or be shared by any number of tensors."""
    terms = [(np.asarray(a), tuple(ix)) for a, ix in terms]
    size = dict(sizes or {})
    for a, ix in terms:
        assert a.ndim == len(ix), (a.shape, ix)
        for d, i in zip(a.shape, ix):
            if size.setdefault(i, d) != d:
                raise ValueError(f"inconsistent size for label {i}")
    output_inds = tuple(output_inds)
    summed = [i for i in size if i not in output_inds]
    zero, dt = _zero_like([a for a, _ in terms])
    out = np.empty(tuple(size[i] for i in output_inds), dtype=dt)
    for oidx in itertools.product(*[range(size[i]) for i in output_inds]):
        env = dict(zip(output_inds, oidx))
        tot = zero
        for sidx in itertools.product(*[range(size[i]) for i in summed]):
            env.update(zip(summed, sidx))
            p = None
            for a, ix in terms:
                v = a[tuple(env[i] for i in ix)]
                p = v if p is None else p * v
            tot = tot + (p if p is not None else 1)
        out[oidx] = tot
    return out


def tn_terms(tn):
    """(array, inds) of every tensor of a quimb Tensor / TensorNetwork."""
    if hasattr(tn, "tensor_map"):
        return [(t.data, t.inds) for t in tn.tensor_map.values()]
    return [(tn.data, tn.inds)]


def tn_dense(tn, output_inds, with_exponent=True):
    """value of a network (sum of products) * 10**exponent, as an array over output_inds"""
    out = sum_of_products(tn_terms(tn), output_inds)
    e = getattr(tn, "exponent", 0.0)
    if with_exponent and not (isinstance(e, float) and e == 0.0):
        out = out * (10 ** e)
    return out


def kron(*ops):
    """explicit Kronecker product of 2D arrays"""
    ops = [np.asarray(o) for o in ops]
    zero, dt = _zero_like(ops)
    R = int(np.prod([o.shape[0] for o in ops]))
    C = int(np.prod([o.shape[1] for o in ops]))
    out = np.empty((R, C), dtype=dt)
    for ridx in itertools.product(*[range(o.shape[0]) for o in ops]):
        r = 0
        for o, i in zip(ops, ridx):
            r = r * o.shape[0] + i
        for cidx in itertools.product(*[range(o.shape[1]) for o in ops]):
            c = 0
            for o, j in zip(ops, cidx):
                c = c * o.shape[1] + j
            p = None
            for o, i, j in zip(ops, ridx, cidx):
                v = o[i, j]
                p = v if p is None else p * v
            out[r, c] = p
    return out


def eye(n, like=None):
    zero, dt = _zero_like([like] if like is not None else [])
    out = np.empty((n, n), dtype=dt)
    for i in range(n):
        for j in range(n):
            out[i, j] = zero + (1 if i == j else 0)
    return out


def matmul(a, b):
    a, b = np.asarray(a), np.asarray(b)
    zero, dt = _zero_like([a, b])
    if b.ndim == 1:
        return matmul(a, b.reshape(-1, 1)).reshape(-1)
    out = np.empty((a.shape[0], b.shape[1]), dtype=dt)
    for i in range(a.shape[0]):
        for j in range(b.shape[1]):
            tot = zero
            for k in range(a.shape[1]):
                tot = tot + a[i, k] * b[k, j]
            out[i, j] = tot
    return out


def dag(a):
    a = np.asarray(a)
    out = np.empty(a.shape[::-1], dtype=a.dtype)
    for idx in np.ndindex(*a.shape):
        v = a[idx]
        out[idx[::-1]] = v.conjugate() if hasattr(v, "conjugate") else v
    return out


def embed(op, dims, where):
    """operator `op` acting on subsystems `where` (in that order) of a system with `dims`,
    identity elsewhere; row-major (first subsystem most significant)."""
    op = np.asarray(op)
    where = tuple(where)
    n = len(dims)
    dw = [dims[w] for w in where]
    k = int(np.prod(dw))
    assert op.shape == (k, k), (op.shape, dw)
    D = int(np.prod(dims))
    zero, dt = _zero_like([op])
    out = np.empty((D, D), dtype=dt)
    strides = [int(np.prod(dims[i + 1:])) for i in range(n)]
    for ridx in itertools.product(*[range(d) for d in dims]):
        r = sum(i * s for i, s in zip(ridx, strides))
        ro = 0
        for w in where:
            ro = ro * dims[w] + ridx[w]
        for cidx in itertools.product(*[range(d) for d in dims]):
            c = sum(i * s for i, s in zip(cidx, strides))
            if any(ridx[i] != cidx[i] for i in range(n) if i not in where):
                out[r, c] = zero
                continue
            co = 0
            for w in where:
                co = co * dims[w] + cidx[w]
            out[r, c] = op[ro, co] + zero
    return out


def trace(a):
    a = np.asarray(a)
    zero, _ = _zero_like([a])
    tot = zero
    for i in range(a.shape[0]):
        tot = tot + a[i, i]
    return tot
