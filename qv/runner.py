"""Check driver: runs a property's obligations in parallel worker processes, applies the
known-findings protocol, writes the evidence file and replay files, sets the exit code.

Exit codes: 0 = every mandatory obligation discharged and no unlisted violation;
1 = reproduced violation not listed in known_findings.txt (prints VIOLATION line);
3 = harness error / inconclusive mandatory obligation (never reported as success).
"""
from __future__ import annotations

import importlib
import json
import multiprocessing as mp
import os
import sys
import time
import traceback

ROOT = os.path.dirname(os.path.dirname(os.path.abspath(__file__)))
_OUT = os.environ.get("QV_OUT") or ROOT
EVID = os.path.join(_OUT, "evidence")
REPLAYS = os.path.join(_OUT, "replays")
KNOWN = os.path.join(ROOT, "known_findings.txt")


def _env_setup():
    os.environ.setdefault("NUMBA_DISABLE_JIT", "1")
    os.environ.setdefault("QUIMB_NUMBA_CACHE", "off")
    os.environ.setdefault("QUIMB_VERIF", "1")
    # quimb reads its default number of worker threads from the first of QUIMB_NUM_THREAD_WORKERS / QUIMB_NUM_PROCS /
    # OMP_NUM_THREADS that is set: keep its parallel=True code paths threaded (4 workers) while BLAS stays single-threaded
    os.environ.setdefault("QUIMB_NUM_THREAD_WORKERS", "4")
    os.environ.setdefault("OMP_NUM_THREADS", "1")
    os.environ.setdefault("OPENBLAS_NUM_THREADS", "1")
    os.environ.setdefault("MKL_NUM_THREADS", "1")
    os.environ.setdefault("PYTHONHASHSEED", "0")


def load_known():
    known, fixed = [], []
    if os.path.exists(KNOWN):
        for line in open(KNOWN):
            line = line.strip()
            if not line or line.startswith("#"):
                continue
            head, _, rest = line.partition(" ")
            fields = {}
            toks = rest.split(" ")
            k = 0
            while k < len(toks) and "=" in toks[k] and toks[k].split("=")[0] in ("property", "key"):
                a, b = toks[k].split("=", 1)
                fields[a] = b
                k += 1
            text = " ".join(toks[k:])
            if head == "known:":
                known.append((fields.get("property"), fields.get("key"), text))
            elif head == "fixed:":
                fixed.append((fields.get("property"), text))
    return known, fixed


def _match_known(known, prop, obkey, label):
    """A known finding is identified by obligation-name prefix + substring of the label."""
    for kp, kkey, text in known:
        if kp != prop or not kkey:
            continue
        parts = kkey.split("::")
        ob_pat = parts[0]
        lab_pat = parts[1] if len(parts) > 1 else ""
        if obkey.startswith(prop + ":" + ob_pat) and lab_pat in label:
            return text
    return None


def _worker(modname, obname, seed, tier, conn):
    try:
        _env_setup()
        from . import stubs
        stubs.install()
        from . import harness as H
        importlib.import_module(modname)
        prop = modname.split(".")[-1].upper()
        ob = next(o for o in H.REGISTRY[prop] if o.name == obname)
        res = H.run_obligation(ob, seed, tier)
        res["stubs_used"] = dict(stubs.USED)
        try:
            import resource
            res["maxrss_mb"] = int(resource.getrusage(resource.RUSAGE_SELF).ru_maxrss / 1024)
        except Exception:
            pass
    except BaseException as e:  # noqa
        res = {"key": f"{modname}:{obname}", "name": obname, "verdict": "inconclusive", "mandatory": True,
               "inconclusive": ["worker crash: " + "".join(traceback.format_exception(type(e), e, e.__traceback__))[-2000:]],
               "violations": [], "paths": 0, "goals": 0, "nontrivial": 0, "checks": 0, "stats": {}, "samples": [],
               "encoded": {}, "notes": [], "assumed": [], "num_trials": 0, "procedure": [], "sx": {}, "wall_s": 0}
    try:
        conn.send(res)
    except Exception as e:
        conn.send({"key": obname, "name": obname, "verdict": "inconclusive", "mandatory": True,
                   "inconclusive": [f"result not serialisable: {e}"], "violations": []})
    conn.close()


def run_property(prop, tier, seed, only=None, jobs=None, verbose=False, list_only=False):
    _env_setup()
    t0 = time.time()
    modname = f"props.{prop.lower()}"
    sys.path.insert(0, ROOT)
    from . import stubs
    stubs.install()
    from . import harness as H
    mod = importlib.import_module(modname)
    obs = [o for o in H.REGISTRY.get(prop, []) if tier in o.tiers]
    if only:
        obs = [o for o in obs if any(s in o.name for s in only)]
    if list_only:
        for o in obs:
            print(o.name)
        return 0
    meta = getattr(mod, "META", {})
    jobs = jobs or min(16, os.cpu_count() or 4)
    default_to = meta.get("timeout_s", {}).get(tier, 240 if tier == "quick" else 900)
    ctx = mp.get_context("fork")
    pending = list(obs)
    running = {}
    results = []
    requeued = {}
    while pending or running:
        # memory guard: certificate searches of the largest cells need several GB each.  New workers are admitted only
        # while enough memory is available; if the machine runs short the youngest worker is stopped and re-queued
        # (its obligation is run again later, nothing is counted for the stopped attempt)
        avail = _mem_available_gb()
        if len(running) > 1 and avail < _MEM_KILL_GB:
            name = max(running, key=lambda n: running[n][2])
            p, pc, ts, ob = running.pop(name)
            p.kill()
            p.join(5)
            requeued[name] = requeued.get(name, 0) + 1
            pending.append(ob)
            time.sleep(1.0)
            continue
        while pending and len(running) < jobs and (not running or _mem_available_gb() > _MEM_ADMIT_GB):
            ob = pending.pop(0)
            pc, cc = ctx.Pipe(duplex=False)
            p = ctx.Process(target=_worker, args=(modname, ob.name, seed, tier, cc), daemon=True)
            p.start()
            cc.close()
            running[ob.name] = (p, pc, time.time(), ob)
        done = []
        for name, (p, pc, ts, ob) in running.items():
            to = ob.opts.get("timeout_s", default_to)
            if pc.poll(0.02):
                try:
                    res = pc.recv()
                except EOFError:
                    res = _crash(ob, "worker died without result")
                p.join(5)
                results.append(res)
                done.append(name)
            elif not p.is_alive():
                if pc.poll(0.1):
                    try:
                        res = pc.recv()
                    except EOFError:
                        res = _crash(ob, f"worker exit code {p.exitcode}")
                else:
                    res = _crash(ob, f"worker exit code {p.exitcode}")
                results.append(res)
                done.append(name)
            elif _cpu_s(p.pid, time.time() - ts) > to or time.time() - ts > 6 * to:
                # budget in CPU seconds of the worker (verdicts do not depend on machine load);
                # wall-clock safety net at 6x
                p.kill()
                p.join(5)
                results.append(_crash(ob, f"timeout after {to}s CPU (never counted as discharged)"))
                done.append(name)
        for n in done:
            running.pop(n)
            if verbose:
                r = next(x for x in reversed(results) if x.get("name") == n)
                print(f"  [{r['verdict']:12s}] {r.get('name')}  {r.get('wall_s', 0)}s", flush=True)
        if not done:
            time.sleep(0.05)
    return finish(prop, tier, seed, results, meta, time.time() - t0, verbose, partial=bool(only))


_CLK = os.sysconf("SC_CLK_TCK") if hasattr(os, "sysconf") else 100
_MEM_ADMIT_GB = float(os.environ.get("QV_MEM_ADMIT_GB", "10"))
_MEM_KILL_GB = float(os.environ.get("QV_MEM_KILL_GB", "3"))


def _mem_available_gb():
    try:
        with open("/proc/meminfo") as f:
            for line in f:
                if line.startswith("MemAvailable:"):
                    return int(line.split()[1]) / 1048576.0
    except Exception:
        pass
    return 1e9


def _cpu_s(pid, fallback):
    """user+system CPU seconds of a worker (and its reaped children) from /proc; wall time if unavailable"""
    try:
        with open(f"/proc/{pid}/stat") as f:
            parts = f.read().rsplit(")", 1)[1].split()
        return (int(parts[11]) + int(parts[12]) + int(parts[13]) + int(parts[14])) / _CLK
    except Exception:
        return fallback


def _crash(ob, why):
    return {"key": ob.key, "name": ob.name, "verdict": "inconclusive", "mandatory": ob.mandatory,
            "inconclusive": [why], "violations": [], "paths": 0, "goals": 0, "nontrivial": 0, "checks": 0,
            "stats": {}, "samples": [], "encoded": {}, "notes": [], "assumed": [], "num_trials": 0,
            "procedure": [], "sx": {}, "wall_s": 0}


def finish(prop, tier, seed, results, meta, wall, verbose, partial=False):
    known, fixed = load_known()
    # a run restricted with --only is a development run: its evidence goes to scratch/, never over the record of a full run
    evid_dir = os.path.join(_OUT, "scratch", "partial_evidence") if partial else EVID
    os.makedirs(evid_dir, exist_ok=True)
    results.sort(key=lambda r: r.get("name", ""))
    n_ob = len(results)
    disc = [r for r in results if r["verdict"] == "discharged"]
    inc = [r for r in results if r["verdict"] == "inconclusive"]
    vio = [r for r in results if r["verdict"] == "violated"]
    exit_code = 0
    new_violations = 0
    known_hits = []
    lines = []
    for r in vio:
        # every goal that failed on the real code is matched against the known findings on its own
        # (a listed finding never hides another failing goal of the same obligation); at most 4
        # unlisted goals per obligation get a replay file and a VIOLATION line
        seen_lab = set()
        unknown = []
        for v in r["violations"]:
            labs = [f[0] for f in v.get("failures", [])] or [v["label"]]
            for lab in labs:
                if lab in seen_lab:
                    continue
                seen_lab.add(lab)
                text = _match_known(known, prop, r["key"], lab)
                if text is not None:
                    known_hits.append((r["name"], lab, text))
                else:
                    unknown.append((lab, v))
        for k, (lab, v) in enumerate(unknown[:4]):
            os.makedirs(REPLAYS, exist_ok=True)
            fn = os.path.join(REPLAYS, f"{prop}_{_safe(r['name'])}_{k}.json")
            with open(fn, "w") as f:
                json.dump({"property": prop, "obligation": r["name"], "label": lab, "how": v["how"],
                           "env": v["env"], "failures": [x for x in v["failures"] if x[0] == lab][:3] or v["failures"][:3],
                           "seed": seed, "tier": tier}, f, indent=1, default=str)
            lines.append(f"VIOLATION property={prop} replay={fn}")
            print(f"  violated obligation {r['name']}: {lab[:300]} :: {[x[1] for x in v['failures'] if x[0] == lab][:1]}")
        new_violations += len(unknown)
    printed = set()
    for name, label, text in known_hits:
        if text not in printed:
            print(f"KNOWN-FINDING: property={prop} {text}")
            printed.add(text)
    for l in lines:
        print(l)
    if new_violations:
        exit_code = 1
    mand_inc = [r for r in inc if r.get("mandatory", True)]
    if mand_inc and exit_code == 0:
        exit_code = 3
    for r in inc:
        print(f"  INCONCLUSIVE{' (mandatory)' if r.get('mandatory', True) else ''} {r['name']}: "
              + " | ".join(x.splitlines()[0][:300] if not verbose else x for x in r.get("inconclusive", [])[:3]))

    # ---- evidence ----------------------------------------------------------------------
    encoded = {}
    stubs_used = {}
    assumed = []
    samples = []
    procs = {}
    q = 0
    solver_s = 0.0
    paths = 0
    goals = 0
    nontrivial = 0
    checks = 0
    rows = 0
    numtr = 0
    forks = 0
    for r in results:
        encoded.update(r.get("encoded", {}))
        for k, v in r.get("stubs_used", {}).items():
            stubs_used[k] = stubs_used.get(k, 0) + v
        for a in r.get("assumed", []):
            if a not in assumed and len(assumed) < 25:
                assumed.append(a)
        for s in r.get("samples", [])[:2]:
            if len(samples) < 12:
                samples.append({"obligation": r["name"], "case": s})
        d = r.get("stats", {}).get("decide", {})
        q += d.get("queries", 0) + r.get("sx", {}).get("queries", 0)
        solver_s += d.get("solver_s", 0.0) + r.get("sx", {}).get("solver_s", 0.0)
        rows += d.get("rows", 0)
        for k, v in d.get("by_procedure", {}).items():
            procs[k] = procs.get(k, 0) + v
        for k2, lab in (("second_solver_pruned_agree", "second-solver(cvc5) agrees on pruned SX branch"),
                        ("second_solver_pruned_noverdict", "second-solver(cvc5) no verdict on pruned SX branch")):
            if r.get("sx", {}).get(k2):
                procs[lab] = procs.get(lab, 0) + r["sx"][k2]
        if r.get("sx", {}).get("queries"):
            procs["SX/branch-feasibility"] = procs.get("SX/branch-feasibility", 0) + r["sx"]["queries"]
        paths += r.get("paths", 0)
        forks += r.get("sx", {}).get("forks", 0)
        goals += r.get("goals", 0)
        nontrivial += r.get("nontrivial", 0)
        checks += r.get("checks", 0)
        numtr += r.get("num_trials", 0)
    ev = {
        "property_id": prop,
        "tier": tier,
        "seed": int(seed),
        "level": "model_checking",
        "coverage": {
            "evaluations": int(goals + checks),
            "distinct_nontrivial": int(nontrivial + sum(1 for r in results if r.get("checks", 0) and r["verdict"] != "inconclusive" and not r.get("goals"))),
            "rule": "one evaluation = one scalar goal (an entry-wise polynomial identity lhs==rhs produced by running the real "
                    "functions on symbolic inputs) or one control-flow assertion reached on a symbolic path; a goal is non-trivial "
                    "when at least one side is a non-constant polynomial, distinct by (label, entry, hash of both sides); an "
                    "assertion-only obligation counts once",
            "samples": samples or [{"note": "no obligations selected"}],
            "obligations": n_ob,
            "discharged": len(disc),
            "inconclusive": len(inc),
            "violated": len(vio),
            "known_findings_hit": sorted({t for _, _, t in known_hits}),
            "symbolic_paths": int(paths),
            "forks": int(forks),
            "solver_queries": int(q),
            "solver_queries_by_procedure": procs,
            "solver_time_s": round(solver_s, 3),
            "certificate_rows": int(rows),
            "traces_validated_against_impl": int(numtr),
            "functions_encoded": encoded,
            "stubs_used": stubs_used,
            "bounds": meta.get("bounds", {}).get(tier, meta.get("bounds", {})),
            "outside_claim": meta.get("outside", []),
            "exhaustive": False,
            "per_obligation": [
                {"name": r["name"], "verdict": r["verdict"], "paths": r.get("paths", 0), "goals": r.get("goals", 0),
                 "checks": r.get("checks", 0), "procedure": r.get("procedure", []), "wall_s": r.get("wall_s", 0),
                 "hypotheses": r.get("hypotheses", 0), "maxrss_mb": r.get("maxrss_mb", 0),
                 **({"why": [x.splitlines()[0][:200] for x in r.get("inconclusive", [])[:2]]} if r["verdict"] == "inconclusive" else {})}
                for r in results
            ],
        },
        "assumptions": (meta.get("assumptions", []) + assumed)[:40],
        "wall_s": round(wall, 3),
        "violations": int(new_violations),
    }
    with open(os.path.join(evid_dir, f"{prop}.json"), "w") as f:
        json.dump(ev, f, indent=1, default=str)
    print(f"{prop} [{tier}] obligations={n_ob} discharged={len(disc)} inconclusive={len(inc)} "
          f"violated={len(vio)} (known={len(known_hits)}) goals={goals} paths={paths} queries={q} "
          f"solver={solver_s:.1f}s wall={wall:.1f}s exit={exit_code}")
    return exit_code


def _safe(s):
    return "".join(c if c.isalnum() or c in "-_." else "_" for c in s)[:80]


def replay(path):
    """Re-run one recorded counterexample on the real code (numeric mode)."""
    _env_setup()
    sys.path.insert(0, ROOT)
    from . import stubs
    stubs.install()
    from . import harness as H
    rec = json.load(open(path))
    prop = rec["property"]
    importlib.import_module(f"props.{prop.lower()}")
    ob = next(o for o in H.REGISTRY[prop] if o.name == rec["obligation"])
    fails, used, err = H._numeric_run(ob, rec["env"], rec.get("seed", 0))
    print(json.dumps({"obligation": ob.name, "inputs": used, "failures": fails, "error": err}, indent=1, default=str))
    if fails:
        print(f"VIOLATION property={prop} replay={path}")
        return 1
    return 0


def main(argv=None):
    import argparse
    ap = argparse.ArgumentParser()
    ap.add_argument("prop")
    ap.add_argument("--tier", default=os.environ.get("VERIF_TIER", "quick"))
    ap.add_argument("--seed", type=int, default=int(os.environ.get("VERIF_SEED", "0") or 0))
    ap.add_argument("--only", action="append")
    ap.add_argument("--jobs", type=int)
    ap.add_argument("--replay")
    ap.add_argument("--list", action="store_true")
    ap.add_argument("-v", "--verbose", action="store_true")
    a = ap.parse_args(argv)
    if a.replay:
        return replay(a.replay)
    # second-solver differential (qv/decide.py:_second_solver): small allowance per obligation in the quick tier,
    # larger queries and more time in the thorough tier
    os.environ.setdefault("QV_SOLVER2", "cvc5")
    os.environ.setdefault("QV_SOLVER2_ROWS", "600" if a.tier == "quick" else "6000")
    os.environ.setdefault("QV_SOLVER2_BUDGET_S", "4" if a.tier == "quick" else "40")
    return run_property(a.prop.upper(), a.tier, a.seed, a.only, a.jobs, a.verbose, a.list)
