"""Symbolic scalars for engine ST: sparse (Laurent) polynomials with rational coefficients.

A ``Poly`` is ``{monomial: coefficient}``; a monomial is a tuple of ``(symbol id, exponent)``
pairs sorted by id, a coefficient an ``int``/``Fraction``.  Complex numbers are handled
*formally*: symbol 0 is the imaginary unit ``I`` (``I**2 -> -1``) and a complex unknown is a
conj-pair of symbols ``(z, zbar)`` swapped by ``conjugate``.  Two polynomials in ``(z, zbar)``
agree on all of C^n iff they agree as formal polynomials, so identity queries over complex
tensors are queries over independent indeterminates.

Symbol kinds
  real / cplx / cplxbar : free unknowns, positive integer exponents only;
  pos   : strictly positive real, *invertible*: any rational exponent (10**(e/3) is g_e**(1/3));
  unit  : complex number of modulus one, invertible, conj(u**k) = u**-k  (exp(i a) phases);
  alg   : sqrt(n), with the rewrite v**2 -> n;
  def   : introduced by division / sqrt / log10 with its defining relation kept in ``HYP`` and
          used by the certificate procedure (decide.q_cert).

Objects of this class live inside numpy object arrays and are driven by the *real* quimb code;
numpy's object loops reach them through the Python operators and the
``conjugate/sqrt/exp/log10/...`` methods below.
"""
from __future__ import annotations

import math
from fractions import Fraction

import numpy as np


class Unsupported(Exception):
    """The real code asked a symbolic scalar for something the engine cannot model."""


# ------------------------------------------------------------------------------ symbols

class SymTab:
    def __init__(self):
        self.reset()

    def reset(self):
        self.names = ["I"]
        self.kind = ["I"]
        self.partner = [0]           # conjugation partner (cplx <-> cplxbar); self otherwise
        self.powrule = {0: (2, -1)}  # id -> (n, const): v**n -> const
        self.invertible = set()      # pos / unit symbols: any rational exponent allowed
        self.units = set()           # unit symbols (conj = inverse)
        self.positive = set()        # ids known > 0 (real)
        self.nonneg = set()
        self.byname = {"I": 0}
        self.origin = {}
        self.special = {0}           # ids with rewrite rules
        self.constrained = set()     # entries of isometric factors (Q, U, V): never solved for

    def new(self, name, kind, origin=None):
        if name in self.byname:
            k = 1
            while f"{name}~{k}" in self.byname:
                k += 1
            name = f"{name}~{k}"
        i = len(self.names)
        self.names.append(name)
        self.kind.append(kind)
        self.partner.append(i)
        self.byname[name] = i
        if origin:
            self.origin[i] = origin
        return i


TAB = SymTab()
HYP = []          # (label, Poly) : Poly == 0 hypotheses (stub contracts, defining relations)
HYP_DERIVED = []  # (label, Poly) : consequences of HYP (sound to add; never solved for, only used as rewrite rules)
ASSUMED = []      # free-text assumptions taken on this run (reported in evidence)
STATS = {"inexact_float_lifts": 0, "generic_branches": 0}
_ALG = {}
_DEF_CACHE = {}
DEF_INV = {}      # sid of w = 1/p  ->  p   (see decide.clear_denominators)
_GEN_CACHE = {}   # exp / exp10 generators keyed by the monomial of the exponent
_LOG_CACHE = {}
_LOG_INV = {}     # exponent symbol L (sid) -> the quantity p with L = log10(p)


def reset():
    TAB.reset()
    HYP.clear()
    HYP_DERIVED.clear()
    ASSUMED.clear()
    STATS["inexact_float_lifts"] = 0
    STATS["generic_branches"] = 0
    _ALG.clear()
    _DEF_CACHE.clear()
    DEF_INV.clear()
    _GEN_CACHE.clear()
    _LOG_CACHE.clear()
    _LOG_INV.clear()


def sid(p):
    """symbol id of a Poly that is a bare symbol"""
    (m, c), = p.t.items()
    assert c == 1 and len(m) == 1 and m[0][1] == 1, p
    return m[0][0]


def _mono(i, e=1):
    return Poly({((i, e),): 1})


def real(name, origin=None):
    return _mono(TAB.new(name, "real", origin))


def nonneg(name, origin=None):
    i = TAB.new(name, "real", origin)
    TAB.nonneg.add(i)
    return _mono(i)


def positive(name, origin=None):
    """strictly positive real; invertible (negative / rational powers stay monomials)"""
    i = TAB.new(name, "pos", origin)
    TAB.positive.add(i)
    TAB.nonneg.add(i)
    TAB.invertible.add(i)
    return _mono(i)


posunit = positive


def cplx(name, origin=None):
    i = TAB.new(name, "cplx", origin)
    j = TAB.new(name + "^*", "cplxbar", origin)
    TAB.partner[i] = j
    TAB.partner[j] = i
    return _mono(i)


def unit(name, origin=None):
    """complex number of modulus one: conj(u) = u**-1"""
    i = TAB.new(name, "unit", origin)
    TAB.invertible.add(i)
    TAB.units.add(i)
    TAB.special.add(i)
    return _mono(i)


def alg_sqrt(n):
    """sqrt(n): symbol S with S*S -> n, S > 0"""
    if n not in _ALG:
        i = TAB.new(f"sqrt{n}", "alg")
        TAB.powrule[i] = (2, n)
        TAB.special.add(i)
        TAB.positive.add(i)
        TAB.nonneg.add(i)
        _ALG[n] = i
    return _mono(_ALG[n])


# ------------------------------------------------------------------------------ lifting

_SQRTS = (2, 3, 5, 6)


def _as_small_rational(x, maxden=96):
    for q in range(1, maxden + 1):
        p = round(x * q)
        if p != 0 or x == 0.0:
            cand = p / q
            err = abs(cand - x)
            if err <= 4 * math.ulp(cand if cand != 0 else 1.0):
                return Fraction(p, q)
            if err <= 64 * math.ulp(cand if cand != 0 else 1.0):
                # a few more ulps off (output of a LAPACK factorisation of a constant gate): still
                # identified, but counted as an inexact lift (claims are "to floating point")
                STATS["inexact_float_lifts"] += 1
                return Fraction(p, q)
    return None


_LIFT_CACHE = {}


def lift_float(x):
    x = float(x)
    r = _LIFT_CACHE.get(x)
    if r is not None:
        kind, a = r
        return Poly.const(a) if kind == 0 else alg_sqrt(kind) * a
    if x != x or x in (math.inf, -math.inf):
        raise Unsupported(f"non-finite float {x!r} reached a symbolic scalar")
    if x == int(x) and abs(x) < 2**53:
        _LIFT_CACHE[x] = (0, int(x))
        return Poly.const(int(x))
    f = Fraction(x)
    if f.denominator <= 2**20:
        _LIFT_CACHE[x] = (0, f)
        return Poly.const(f)
    r = _as_small_rational(x)
    if r is not None:
        _LIFT_CACHE[x] = (0, r)
        return Poly.const(r)
    for n in _SQRTS:
        r = _as_small_rational(x / math.sqrt(n))
        if r is not None:
            _LIFT_CACHE[x] = (n, r)
            return alg_sqrt(n) * r
    STATS["inexact_float_lifts"] += 1
    return Poly.const(f)


def lift(x):
    if isinstance(x, Poly):
        return x
    if isinstance(x, (bool, np.bool_)):
        return Poly.const(int(x))
    if isinstance(x, (int, np.integer)):
        return Poly.const(int(x))
    if isinstance(x, Fraction):
        return Poly.const(x)
    if isinstance(x, (float, np.floating)):
        return lift_float(x)
    if isinstance(x, (complex, np.complexfloating)):
        re, im = lift_float(x.real), lift_float(x.imag)
        if not im.t:
            return re
        return re + I * im
    if isinstance(x, np.ndarray) and x.ndim == 0:
        return lift(x.item())
    if hasattr(x, "__poly__"):
        return x.__poly__()
    return NotImplemented


# ------------------------------------------------------------------------------ monomials

def _mmul(a, b):
    """product of two monomials -> (coef, monomial)"""
    if not a:
        return 1, b
    if not b:
        return 1, a
    out = []
    i = j = 0
    la, lb = len(a), len(b)
    coef = 1
    sp = TAB.special
    while i < la and j < lb:
        sa, ea = a[i]
        sb, eb = b[j]
        if sa < sb:
            out.append(a[i])
            i += 1
        elif sb < sa:
            out.append(b[j])
            j += 1
        else:
            e = ea + eb
            i += 1
            j += 1
            if sa in sp:
                pr = TAB.powrule.get(sa)
                if pr is not None:
                    n, k = pr
                    if e >= n:
                        q, e = divmod(e, n)
                        coef = coef * (k ** q)
            if e:
                out.append((sa, e))
    if i < la:
        out.extend(a[i:])
    elif j < lb:
        out.extend(b[j:])
    return coef, tuple(out)


def _mpow(m, k):
    """monomial ** rational k -> (coef, monomial)"""
    out = []
    coef = 1
    for s, e in m:
        e2 = e * k
        if isinstance(e2, Fraction) and e2.denominator == 1:
            e2 = e2.numerator
        pr = TAB.powrule.get(s)
        if pr is not None and isinstance(e2, int) and e2 >= pr[0]:
            q, e2 = divmod(e2, pr[0])
            coef = coef * pr[1] ** q
        if e2:
            out.append((s, e2))
    return coef, tuple(out)


def _cnorm(c):
    if isinstance(c, Fraction) and c.denominator == 1:
        return c.numerator
    return c


# ------------------------------------------------------------------------------ Poly

class Poly:
    __slots__ = ("t",)

    def __init__(self, t=None):
        self.t = t if t is not None else {}

    @staticmethod
    def const(c):
        c = _cnorm(c)
        return Poly({(): c} if c else {})

    # -- predicates
    def iszero(self):
        return not self.t

    def isconst(self):
        return not self.t or (len(self.t) == 1 and () in self.t)

    def constval(self):
        """complex/rational constant value, or None if not constant"""
        re, im = 0, 0
        for m, c in self.t.items():
            if m == ():
                re = c
            elif m == ((0, 1),):
                im = c
            else:
                return None
        if im == 0:
            return re
        return complex(re, im)

    def symbols(self):
        s = set()
        for m in self.t:
            for v, _ in m:
                s.add(v)
        return s

    def degree(self):
        return max((sum(abs(e) for _, e in m) for m in self.t), default=0)

    # -- arithmetic
    def __add__(self, o):
        o = lift(o)
        if o is NotImplemented:
            return NotImplemented
        ot = o.t
        if not ot:
            return self
        st = self.t
        if not st:
            return o
        a, b = (st, ot) if len(st) >= len(ot) else (ot, st)
        r = dict(a)
        for m, c in b.items():
            v = r.get(m)
            if v is None:
                r[m] = c
            else:
                v = v + c
                if v:
                    r[m] = v
                else:
                    del r[m]
        return Poly(r)

    __radd__ = __add__

    def __neg__(self):
        return Poly({m: -c for m, c in self.t.items()})

    def __pos__(self):
        return self

    def __sub__(self, o):
        o = lift(o)
        if o is NotImplemented:
            return NotImplemented
        ot = o.t
        if not ot:
            return self
        r = dict(self.t)
        for m, c in ot.items():
            v = r.get(m)
            if v is None:
                r[m] = -c
            else:
                v = v - c
                if v:
                    r[m] = v
                else:
                    del r[m]
        return Poly(r)

    def __rsub__(self, o):
        o = lift(o)
        if o is NotImplemented:
            return NotImplemented
        return o.__sub__(self)

    def __mul__(self, o):
        o = lift(o)
        if o is NotImplemented:
            return NotImplemented
        a, b = self.t, o.t
        if not a or not b:
            return Poly()
        if len(b) == 1:
            a, b = b, a
        if len(a) == 1:
            (m1, c1), = a.items()
            if not m1:
                if c1 == 1:
                    return Poly(dict(b))
                return Poly({m: c * c1 for m, c in b.items()})
        r = {}
        for m1, c1 in a.items():
            for m2, c2 in b.items():
                k, m = _mmul(m1, m2)
                c = c1 * c2
                if k != 1:
                    c = c * k
                v = r.get(m)
                if v is None:
                    r[m] = c
                else:
                    v = v + c
                    if v:
                        r[m] = v
                    else:
                        del r[m]
        return Poly(r)

    __rmul__ = __mul__

    def _as_exponent(self, n):
        if isinstance(n, Poly):
            cv = n.constval()
            if cv is None or isinstance(cv, complex):
                raise Unsupported("symbolic exponent")
            n = cv
        if isinstance(n, (bool, np.bool_, int, np.integer)):
            return int(n)
        if isinstance(n, Fraction):
            return _cnorm(n)
        if isinstance(n, (float, np.floating)):
            if float(n) == int(n):
                return int(n)
            f = Fraction(float(n)).limit_denominator(64)
            if abs(float(f) - float(n)) > 1e-12:
                raise Unsupported(f"power {n!r} of a symbolic scalar")
            return f
        raise Unsupported(f"power {n!r} of a symbolic scalar")

    def __pow__(self, n):
        n = self._as_exponent(n)
        if isinstance(n, int):
            if n < 0:
                return (self ** (-n)).inverse()
            if n == 0:
                return Poly.const(1)
            if len(self.t) == 1:
                (m, c), = self.t.items()
                k, mm = _mpow(m, n)
                return Poly({mm: c ** n * k})
            r = None
            b = self
            while n:
                if n & 1:
                    r = b if r is None else r * b
                n >>= 1
                if n:
                    b = b * b
            return r
        # rational power
        if len(self.t) == 1:
            (m, c), = self.t.items()
            if c == 1 and m and all(s_ in TAB.invertible for s_, _ in m):
                # generator of an exponential: g**(p/q) is the exponential of (p/q) * argument
                k, mm = _mpow(m, n)
                return Poly({mm: k})
        r = self._exact_root(n.denominator)
        if r is not None:
            return r ** n.numerator
        cv = self.constval()
        if cv is not None and not isinstance(cv, complex) and cv > 0 and n != Fraction(1, 2) and n != Fraction(-1, 2):
            STATS["inexact_float_lifts"] += 1
            return Poly.const(Fraction(float(cv) ** float(n)))
        if n == Fraction(1, 2):
            return _defined_sqrt(self)
        if n == Fraction(-1, 2):
            return _defined_sqrt(self).inverse()
        raise Unsupported(f"power {n!r} of a symbolic scalar")

    def __rpow__(self, base):
        cv = self.constval()
        if cv is not None and not isinstance(cv, complex):
            f = Fraction(cv)
            if f.denominator == 1:
                return lift(base) ** int(f)
            if f.denominator <= 64 and isinstance(base, (int, Fraction)):
                return lift(base) ** f
            # a constant to a non-integral constant power: a float constant (inexact)
            if isinstance(base, (int, float, Fraction, np.integer, np.floating)) and float(base) > 0:
                STATS["inexact_float_lifts"] += 1
                return Poly.const(Fraction(float(base) ** float(f)))
            return lift(base) ** f
        if base == 10 or base == 10.0:
            return exp10(self)
        raise Unsupported(f"{base!r} ** symbolic")

    def _exact_root(self, k):
        """k-th root when self is c * (monomial of non-negative symbols) with exact roots"""
        if not self.t:
            return self
        if len(self.t) != 1:
            return None
        (m, c), = self.t.items()
        c = Fraction(c)
        if c <= 0 or k > 64:
            return None

        def iroot(x):
            r = round(x ** (1.0 / k))
            for cand in (r - 1, r, r + 1):
                if cand >= 0 and cand ** k == x:
                    return cand
            return None

        rn, rd = iroot(c.numerator), iroot(c.denominator)
        croot = None
        if rn is not None and rd is not None:
            croot = Poly.const(Fraction(rn, rd))
        elif k == 2:
            for s in _SQRTS:
                g = c / s
                a, b = iroot(g.numerator), iroot(g.denominator)
                if a is not None and b is not None:
                    croot = alg_sqrt(s) * Fraction(a, b)
                    break
        if croot is None:
            return None
        out = []
        for s, e in m:
            if s not in TAB.nonneg:
                return None
            if s in TAB.invertible:
                out.append((s, _cnorm(Fraction(e) / k)))
            else:
                if s in TAB.powrule or not isinstance(e, int) or e % k:
                    return None
                out.append((s, e // k))
        return croot * Poly({tuple(out): 1})

    def inverse(self):
        if not self.t:
            raise ZeroDivisionError("division by symbolic zero")
        if len(self.t) == 1:
            (m, c), = self.t.items()
            cinv = Fraction(1) / c
            out = []
            k = 1
            ok = True
            for s, e in m:
                if s not in TAB.invertible and s in TAB.nonneg and s not in TAB.powrule:
                    # dividing by a non-negative quantity (norm, singular value, sqrt(...)):
                    # assumed strictly positive from here on, which makes it invertible
                    TAB.invertible.add(s)
                    TAB.positive.add(s)
                    if len(ASSUMED) < 60:
                        ASSUMED.append(f"division by {TAB.names[s]} ({TAB.origin.get(s, 'non-negative symbol')}): assumed > 0"[:200])
                if s in TAB.invertible:
                    out.append((s, -e))
                elif s in TAB.powrule:
                    n, kk = TAB.powrule[s]   # v**-e = v**(n-e) / k   (0 < e < n)
                    out.append((s, n - e))
                    k = k * Fraction(1, kk)
                else:
                    ok = False
                    break
            if ok:
                return Poly({tuple(out): _cnorm(cinv * k)})
        cv = self.constval()
        if cv is not None:  # complex constant
            cj = self.conjugate()
            den = (self * cj).constval()
            return cj * (Fraction(1) / Fraction(den))
        return _defined_inverse(self)

    def __truediv__(self, o):
        o = lift(o)
        if o is NotImplemented:
            return NotImplemented
        if not self.t:
            if not o.t:
                raise ZeroDivisionError("0/0 symbolic")
            return self
        if self.t == o.t:
            return Poly.const(1)
        q = _exact_monomial_quotient(self, o)
        if q is not None:
            return q
        return self * o.inverse()

    def __rtruediv__(self, o):
        o = lift(o)
        if o is NotImplemented:
            return NotImplemented
        return o.__truediv__(self)

    # -- complex structure
    def conjugate(self):
        part = TAB.partner
        units = TAB.units
        need = False
        for m in self.t:
            for v, _ in m:
                if v == 0 or part[v] != v or v in units:
                    need = True
                    break
            if need:
                break
        if not need:
            return self
        r = {}
        for m, c in self.t.items():
            mm = []
            for v, e in m:
                if v == 0:
                    c = -c
                    mm.append((0, e))
                elif v in units:
                    mm.append((v, -e))
                else:
                    mm.append((part[v], e))
            mm.sort()
            mm = tuple(mm)
            c2 = r.get(mm, 0) + c
            if c2:
                r[mm] = c2
            else:
                r.pop(mm, None)
        return Poly(r)

    conj = conjugate

    @property
    def real(self):
        return (self + self.conjugate()) * Fraction(1, 2)

    @property
    def imag(self):
        return (self - self.conjugate()) * (-I) * Fraction(1, 2)

    def is_real(self):
        c = self.conjugate()
        return c is self or c.t == self.t

    # -- transcendental hooks (called by numpy ufuncs on object arrays)
    def sqrt(self):
        r = self._exact_root(2)
        if r is not None:
            return r
        return _defined_sqrt(self)

    def exp(self):
        return _exp(self)

    def log10(self):
        return _log10(self)

    def log(self):
        raise Unsupported("log of symbolic scalar")

    def cos(self):
        u = _exp(self * I)
        return (u + u.conjugate()) * Fraction(1, 2)

    def sin(self):
        u = _exp(self * I)
        return (u - u.conjugate()) * (-I) * Fraction(1, 2)

    # -- comparisons : decided structurally when possible, else handed to the SX context
    def _cmp(self, o, op):
        o = lift(o)
        if o is NotImplemented:
            return NotImplemented
        return _decide_cmp(self - o, op)

    def __eq__(self, o):
        return self._cmp(o, "==")

    def __ne__(self, o):
        r = self._cmp(o, "==")
        if r is NotImplemented:
            return r
        return not r

    def __lt__(self, o):
        return self._cmp(o, "<")

    def __le__(self, o):
        return self._cmp(o, "<=")

    def __gt__(self, o):
        return self._cmp(o, ">")

    def __ge__(self, o):
        return self._cmp(o, ">=")

    def __hash__(self):
        return hash(frozenset(self.t.items()))

    def __bool__(self):
        return not _decide_cmp(self, "==")

    def __abs__(self):
        cv = self.constval()
        if cv is not None:
            if isinstance(cv, complex):
                return (self * self.conjugate()).sqrt()
            return Poly.const(abs(cv))
        sk = _sign_known(self)
        if sk == 1:
            return self
        if sk == -1:
            return -self
        return LazyAbs(self)

    def _abs_resolved(self):
        if not self.is_real():
            return (self * self.conjugate()).sqrt()
        if _decide_cmp(self, ">="):
            return self
        return -self

    def __float__(self):
        cv = self.constval()
        if cv is None or isinstance(cv, complex):
            raise Unsupported("float() of a symbolic scalar")
        return float(cv)

    def __complex__(self):
        cv = self.constval()
        if cv is None:
            raise Unsupported("complex() of a symbolic scalar")
        return complex(cv)

    def __int__(self):
        cv = self.constval()
        if cv is None or isinstance(cv, complex) or Fraction(cv).denominator != 1:
            raise Unsupported("int() of a symbolic scalar")
        return int(cv)

    def __round__(self, n=None):
        raise Unsupported("round() of a symbolic scalar")

    def __repr__(self):
        if not self.t:
            return "0"
        out = []
        for m, c in sorted(self.t.items(), key=lambda kv: (len(kv[0]), kv[0]))[:12]:
            names = "*".join(TAB.names[i] + (f"^{e}" if e != 1 else "") for i, e in m)
            out.append(f"{c}" + ("*" + names if names else ""))
        if len(self.t) > 12:
            out.append(f"...({len(self.t)} terms)")
        return " + ".join(out)

    # numpy hands back the bare element for 0-d object results; numpy float scalars carry the
    # ndarray API, so the real code may call these on a "scalar array"
    size = 1
    T = property(lambda self: self)

    @property
    def dtype(self):
        return np.dtype(object)

    @property
    def shape(self):
        return ()

    @property
    def ndim(self):
        return 0

    def item(self):
        return self

    def _arr0(self):
        a = np.empty((), dtype=object)
        a[()] = self
        return a

    def ravel(self, *a, **k):
        return self._arr0().ravel()

    flatten = ravel

    def reshape(self, *shape, **k):
        return self._arr0().reshape(*shape)

    def transpose(self, *axes):
        return self

    def squeeze(self, *a, **k):
        return self

    def copy(self, *a, **k):
        return self

    def astype(self, dtype, *a, **k):
        return self

    def sum(self, *a, **k):
        return self

    def __array__(self, dtype=None, copy=None):
        return self._arr0()

    def subs(self, sid_, repl, cache=None):
        """substitute symbol `sid_` (positive integer powers) by the Poly `repl`"""
        res = {}
        pw = cache if cache is not None else {}
        hit = False
        for m, c in self.t.items():
            e = 0
            for s_, e_ in m:
                if s_ == sid_:
                    e = e_
                    break
            if not e:
                v = res.get(m)
                if v is None:
                    res[m] = c
                else:
                    v = v + c
                    if v:
                        res[m] = v
                    else:
                        del res[m]
                continue
            hit = True
            if not isinstance(e, int) or e < 0:
                raise Unsupported("substitution into a negative / fractional power")
            rest = tuple(x for x in m if x[0] != sid_)
            rp = pw.get(e)
            if rp is None:
                rp = repl ** e
                pw[e] = rp
            for m2, c2 in rp.t.items():
                k, mm = _mmul(m2, rest)
                cc = c * c2
                if k != 1:
                    cc = cc * k
                v = res.get(mm)
                if v is None:
                    res[mm] = cc
                else:
                    v = v + cc
                    if v:
                        res[mm] = v
                    else:
                        del res[mm]
        if not hit:
            return self
        return Poly(res)

    # evaluation at a numeric point: env maps symbol id -> complex/float
    def evaluate(self, env):
        tot = 0
        for m, c in self.t.items():
            v = c if not isinstance(c, Fraction) else (c.numerator / c.denominator)
            for s, e in m:
                v = v * env[s] ** (e if isinstance(e, int) else float(e))
            tot = tot + v
        return tot


class LazyAbs(Poly):
    """|p| kept unevaluated: squaring it needs no sign decision (|p|**2 = p * conj(p)) and a
    max over such values is abstracted by an arbitrary positive factor (see stubs).  Any other
    use resolves it: sign fork for real p (engine SX), sqrt(p*conj p) defined symbol otherwise."""
    __slots__ = ("p", "_t")

    def __init__(self, p):
        self.p = p
        self._t = None

    @property
    def t(self):
        if self._t is None:
            self._t = self.p._abs_resolved().t
        return self._t

    @t.setter
    def t(self, v):
        self._t = v

    def __pow__(self, n):
        if self._t is None and isinstance(n, (int, float, np.integer, np.floating)) and float(n) == int(n) \
                and int(n) % 2 == 0 and int(n) > 0:
            return (self.p * self.p.conjugate()) ** (int(n) // 2)
        return Poly.__pow__(self, n)

    def __mul__(self, o):
        if o is self and self._t is None:
            return self.p * self.p.conjugate()
        return Poly.__mul__(self, o)

    def conjugate(self):
        return self

    conj = conjugate

    def __abs__(self):
        return self

    def __repr__(self):
        return f"|{self.p!r}|" if self._t is None else Poly.__repr__(self)


# autoray infers the backend of a bare scalar from its class' module: a Poly scalar must be
# handled by numpy (whose object-dtype ufuncs call the methods above), like a numpy float is.
Poly.__module__ = "numpy"
LazyAbs.__module__ = "numpy"

I = Poly({((0, 1),): 1})
ZERO = Poly()
ONE = Poly.const(1)


def _exact_monomial_quotient(a, b):
    """a / b when b is a single term c*m and m divides every monomial of a."""
    if len(b.t) != 1:
        return None
    (mb, cb), = b.t.items()
    for s, _ in mb:
        if s == 0 or s in TAB.powrule:
            return None
    r = {}
    inv = TAB.invertible
    for m, c in a.t.items():
        d = dict(m)
        for s, e in mb:
            if s in inv:
                ne = d.get(s, 0) - e
            else:
                have = d.get(s, 0)
                if have < e:
                    return None
                ne = have - e
            if ne:
                d[s] = ne
            else:
                d.pop(s, None)
        r[tuple(sorted(d.items()))] = _cnorm(Fraction(c) / cb) if cb not in (1, -1) else c * cb
    return Poly(r)


# ------------------------------------------------------------------------------ defined symbols

def _key(p):
    return frozenset(p.t.items())


def _defined_inverse(p):
    k = ("inv", _key(p))
    if k in _DEF_CACHE:
        return _DEF_CACHE[k]
    isreal = p.is_real()
    if isreal:
        i = TAB.new(f"inv{len(_DEF_CACHE)}", "def", origin=f"1/({p!r})")
    else:
        i = TAB.new(f"inv{len(_DEF_CACHE)}", "cplx", origin=f"1/({p!r})")
        j = TAB.new(TAB.names[i] + "^*", "cplxbar")
        TAB.partner[i] = j
        TAB.partner[j] = i
        HYP.append((f"def-inverse-conj:{TAB.names[i]}", _mono(j) * p.conjugate() - 1))
    w = _mono(i)
    HYP.append((f"def-inverse:{TAB.names[i]}", w * p - 1))
    DEF_INV[i] = p
    if not isreal:
        DEF_INV[TAB.partner[i]] = p.conjugate()
    if len(ASSUMED) < 60:
        ASSUMED.append(f"division by a symbolic quantity assumed non-zero: {p!r}"[:200])
    if _sign_known(p) == 1:
        TAB.positive.add(i)
        TAB.nonneg.add(i)
    _DEF_CACHE[k] = w
    return w


def _defined_sqrt(p):
    if not p.is_real():
        raise Unsupported(f"sqrt of a non-real symbolic scalar {p!r}")
    k = ("sqrt", _key(p))
    if k in _DEF_CACHE:
        return _DEF_CACHE[k]
    i = TAB.new(f"sqrt{len(_DEF_CACHE)}_", "def", origin=f"sqrt({p!r})")
    r = _mono(i)
    TAB.nonneg.add(i)
    if _sign_known(p) == 1:
        TAB.positive.add(i)
    HYP.append((f"def-sqrt:{TAB.names[i]}", r * r - p))
    _DEF_CACHE[k] = r
    return r


def _gen(kind, base):
    """generator symbol for exp(base) / exp(i*base) / 10**base, base a monomial of symbols"""
    k = (kind, base)
    g = _GEN_CACHE.get(k)
    if g is None:
        nm = "*".join(TAB.names[v] + (f"^{e}" if e != 1 else "") for v, e in base)
        if kind == "expi":
            g = unit(f"expi[{nm}]")
        elif kind == "exp":
            g = positive(f"exp[{nm}]")
        else:
            g = positive(f"10^[{nm}]")
        _GEN_CACHE[k] = g
    return g


def _exp(p):
    """exp of a linear form: exp(sum_m c_m m) = prod_m gen(m)**c_m  (rational exponents are
    exponents of the invertible generator, so the group law is structural)"""
    if not p.t:
        return Poly.const(1)
    out = Poly.const(1)
    for m, c in p.t.items():
        imag = bool(m) and m[0][0] == 0
        base = m[1:] if imag else m
        if not base:
            raise Unsupported(f"exp of a non-zero constant {c}{'*I' if imag else ''}")
        out = out * (_gen("expi" if imag else "exp", base) ** _cnorm(Fraction(c)))
    return out


def exp10(p):
    """10**p for a real linear form p (rational constants allowed when integral)"""
    out = Poly.const(1)
    for m, c in p.t.items():
        c = Fraction(c)
        if not m:
            if c.denominator != 1:
                raise Unsupported(f"10**{c}")
            out = out * (Poly.const(10) ** int(c) if c >= 0 else Poly.const(Fraction(1, 10 ** int(-c))))
            continue
        if m[0][0] == 0:
            raise Unsupported("10**(imaginary)")
        if len(m) == 1 and m[0][1] == 1 and m[0][0] in _LOG_INV:
            # 10**log10(p) is p itself
            out = out * (_LOG_INV[m[0][0]] ** _cnorm(c))
            continue
        out = out * (_gen("exp10", m) ** _cnorm(c))
    return out


def _log10(p):
    """log10 of a positive quantity.  A monomial in 10^[.] generators gives the linear form
    back; anything else becomes a fresh *exponent symbol* L with 10**L = p."""
    cv = p.constval()
    if cv is not None and not isinstance(cv, complex):
        f = Fraction(cv)
        k = 0
        g = f
        while g != 0 and g.denominator == 1 and g.numerator % 10 == 0:
            g = g / 10
            k += 1
        while g != 0 and g.numerator == 1 and g.denominator % 10 == 0:
            g = g * 10
            k -= 1
        if g == 1:
            return Poly.const(k)
    if len(p.t) == 1:
        (m, c), = p.t.items()
        gens = {next(iter(g.t))[0][0]: key[1] for key, g in _GEN_CACHE.items() if key[0] == "exp10"}
        if m and all(s in gens for s, _ in m):
            out = _log10(Poly.const(c)) if c != 1 else Poly.const(0)
            for s, e in m:
                out = out + Poly({gens[s]: e})
            return out
    k = ("log10", _key(p))
    if k not in _LOG_CACHE:
        L = real(f"log10_{len(_LOG_CACHE)}", origin=f"log10({p!r})"[:120])
        _LOG_CACHE[k] = L
        _LOG_INV[next(iter(L.t))[0][0]] = p
    return _LOG_CACHE[k]


# ------------------------------------------------------------------------------ comparisons

def _sign_known(p):
    """+1 / -1 if p is structurally positive/negative, 0 if structurally zero, else None."""
    if not p.t:
        return 0
    signs = set()
    pos = TAB.positive
    for m, c in p.t.items():
        if isinstance(c, complex):
            return None
        for v, e in m:
            if v not in pos:
                return None
        signs.add(1 if c > 0 else -1)
    if len(signs) == 1:
        return signs.pop()
    return None


CMP_HANDLER = [None]   # installed by qv.sx when an exploration context is active
OPTIONS = {"fork_eq": False}


def _decide_cmp(d, op):
    """Decide `d op 0`."""
    cv = d.constval()
    if cv is not None:
        if isinstance(cv, complex):
            if op == "==":
                return False
            raise Unsupported("ordering comparison of a complex constant")
        return {"==": cv == 0, "<": cv < 0, "<=": cv <= 0, ">": cv > 0, ">=": cv >= 0}[op]
    s = _sign_known(d)
    if s is not None:
        return {"==": s == 0, "<": s < 0, "<=": s <= 0, ">": s > 0, ">=": s >= 0}[op]
    h = CMP_HANDLER[0]
    if h is not None and (op != "==" or OPTIONS["fork_eq"]):
        return h(d, op)
    if op == "==":
        # generic position: a non-trivial polynomial vanishes only on a measure-zero set; the
        # `!= 0` branch is taken and the assumption is reported (harnesses that care about the
        # zero branch set OPTIONS['fork_eq'] and let the explorer fork)
        STATS["generic_branches"] += 1
        if len(ASSUMED) < 50:
            ASSUMED.append(f"generic position: {d!r} != 0"[:200])
        return False
    raise Unsupported(f"ordering comparison of symbolic scalar: {d!r} {op} 0")


# ------------------------------------------------------------------------------ array helpers

def symarray(name, shape, kind="real"):
    mk = {"real": real, "cplx": cplx, "pos": positive, "nonneg": nonneg}[kind]
    a = np.empty(shape, dtype=object)
    if shape == ():
        a[()] = mk(name)
        return a
    for idx in np.ndindex(*shape):
        a[idx] = mk(name + "_" + "".join(map(str, idx)))
    return a


def to_obj(x):
    """numeric array -> object array of exact Poly constants"""
    x = np.asarray(x)
    if x.dtype == object:
        return x
    out = np.empty(x.shape, dtype=object)
    for idx in np.ndindex(*x.shape):
        out[idx] = lift(x[idx].item())
    return out


def flat_polys(x):
    if isinstance(x, Poly):
        return [x]
    if hasattr(x, "data") and not isinstance(x, np.ndarray):
        x = x.data
    a = np.asarray(x)
    if a.dtype != object:
        a = to_obj(a)
    return [lift(v) for v in a.reshape(-1)]
