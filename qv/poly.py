"""Symbolic scalars for engine ST: sparse polynomials with rational coefficients.

A ``Poly`` is ``{monomial: coefficient}`` with ``monomial`` a sorted tuple of symbol ids
(repetition = power) and ``coefficient`` an ``int``/``Fraction``.  Complex numbers are
handled *formally*: symbol 0 is the imaginary unit ``I`` with the rewrite ``I*I -> -1`` and a
complex unknown is a conj-pair of symbols ``(z, zbar)`` swapped by ``conjugate``.  Two
polynomials in ``(z, zbar)`` agree on all of C^n iff they agree as formal polynomials, so
identity queries over complex tensors are queries over independent real indeterminates.

Other symbol kinds: ``unit`` pairs ``(u, ubar)`` with ``u*ubar -> 1`` (phases, positive scale
factors and their inverses), ``alg`` symbols with ``v**n -> const`` (sqrt(2), sqrt(3)), and
``def`` symbols introduced by division / sqrt with their defining relation stored as a
hypothesis (see ``HYP``), used by the certificate procedure in ``decide.py``.

Objects of this class live inside ``numpy`` object arrays and are driven by the *real* quimb
code; all numpy elementwise machinery reaches them through the Python operators and the
``conjugate/sqrt/exp/...`` methods defined below.
"""
from __future__ import annotations

import math
from fractions import Fraction

import numpy as np


class Unsupported(Exception):
    """The real code asked a symbolic scalar for something the engine cannot model."""


# ------------------------------------------------------------------------------ symbols

class SymTab:
    def __init__(self):
        self.reset()

    def reset(self):
        self.names = ["I"]
        self.kind = ["I"]          # I, real, cplx, cplxbar, unit, unitbar, pos, posinv, alg, def
        self.partner = [0]
        self.powrule = {0: (2, -1)}  # id -> (n, const) : v**n -> const
        self.invpair = {}            # id -> partner id with v*partner -> 1
        self.ruleset = {0}
        self.positive = set()        # ids known > 0 (real)
        self.nonneg = set()
        self.byname = {"I": 0}
        self.origin = {}             # id -> free text (which stub / leaf created it)

    def new(self, name, kind, origin=None):
        if name in self.byname:
            k = 1
            while f"{name}~{k}" in self.byname:
                k += 1
            name = f"{name}~{k}"
        i = len(self.names)
        self.names.append(name)
        self.kind.append(kind)
        self.partner.append(i)
        self.byname[name] = i
        if origin:
            self.origin[i] = origin
        return i


TAB = SymTab()
HYP = []          # list of (Poly == 0) hypotheses with a label: (label, poly)
INEQ = []         # list of (label, poly) meaning poly >= 0 / > 0 facts : (label, poly, strict)
ASSUMED = []      # free-text genericity assumptions taken on this run (reported in evidence)
STATS = {"inexact_float_lifts": 0, "generic_branches": 0}


def reset():
    TAB.reset()
    HYP.clear()
    INEQ.clear()
    ASSUMED.clear()
    STATS["inexact_float_lifts"] = 0
    STATS["generic_branches"] = 0
    _ALG.clear()


def _mono(i):
    return Poly({(i,): 1})


def real(name, origin=None):
    return _mono(TAB.new(name, "real", origin))


def positive(name, origin=None):
    i = TAB.new(name, "real", origin)
    TAB.positive.add(i)
    TAB.nonneg.add(i)
    return _mono(i)


def nonneg(name, origin=None):
    i = TAB.new(name, "real", origin)
    TAB.nonneg.add(i)
    return _mono(i)


def cplx(name, origin=None):
    i = TAB.new(name, "cplx", origin)
    j = TAB.new(name + "^*", "cplxbar", origin)
    TAB.partner[i] = j
    TAB.partner[j] = i
    return _mono(i)


def unit(name, origin=None):
    """A complex number of modulus one: u * conj(u) = 1."""
    i = TAB.new(name, "unit", origin)
    j = TAB.new(name + "^*", "unitbar", origin)
    TAB.partner[i] = j
    TAB.partner[j] = i
    TAB.invpair[i] = j
    TAB.invpair[j] = i
    TAB.ruleset.update((i, j))
    return _mono(i)


def posunit(name, origin=None):
    """A strictly positive real f together with its inverse: f * finv = 1."""
    i = TAB.new(name, "pos", origin)
    j = TAB.new(name + "^-1", "posinv", origin)
    TAB.invpair[i] = j
    TAB.invpair[j] = i
    TAB.ruleset.update((i, j))
    TAB.positive.update((i, j))
    TAB.nonneg.update((i, j))
    return _mono(i)


_ALG = {}


def alg_sqrt(n):
    """The algebraic number sqrt(n) for n in {2, 3, 5, ...}: symbol S with S*S -> n, S > 0."""
    if n not in _ALG:
        i = TAB.new(f"sqrt{n}", "alg")
        TAB.powrule[i] = (2, n)
        TAB.ruleset.add(i)
        TAB.positive.add(i)
        TAB.nonneg.add(i)
        _ALG[n] = i
    return _mono(_ALG[n])


# ------------------------------------------------------------------------------ lifting

_SQRTS = (2, 3, 5, 6)


def _as_small_rational(x, maxden=96):
    # x float; return Fraction if within 4 ulp of p/q with q <= maxden
    for q in range(1, maxden + 1):
        p = round(x * q)
        if p != 0 or x == 0.0:
            cand = p / q
            if abs(cand - x) <= 4 * math.ulp(x if x != 0 else 1.0):
                return Fraction(p, q)
    return None


def lift_float(x):
    x = float(x)
    if x != x or x in (math.inf, -math.inf):
        raise Unsupported(f"non-finite float {x!r} reached a symbolic scalar")
    if x == int(x) and abs(x) < 2**53:
        return Poly.const(int(x))
    f = Fraction(x)
    if f.denominator <= 2**20:
        return Poly.const(f)
    r = _as_small_rational(x)
    if r is not None:
        return Poly.const(r)
    for n in _SQRTS:
        r = _as_small_rational(x / math.sqrt(n))
        if r is not None:
            return alg_sqrt(n) * r
    STATS["inexact_float_lifts"] += 1
    return Poly.const(f)


def lift(x):
    if isinstance(x, Poly):
        return x
    if isinstance(x, (bool, np.bool_)):
        return Poly.const(int(x))
    if isinstance(x, (int, np.integer)):
        return Poly.const(int(x))
    if isinstance(x, Fraction):
        return Poly.const(x)
    if isinstance(x, (float, np.floating)):
        return lift_float(x)
    if isinstance(x, (complex, np.complexfloating)):
        re, im = lift_float(x.real), lift_float(x.imag)
        if not im.t:
            return re
        return re + I * im
    if isinstance(x, np.ndarray) and x.ndim == 0:
        return lift(x.item())
    if hasattr(x, "__poly__"):
        return x.__poly__()
    return NotImplemented


# ------------------------------------------------------------------------------ reduction

def _reduce(m):
    """Apply the rewrite rules to monomial m; return (coef, monomial)."""
    rs = TAB.ruleset
    hit = False
    for v in m:
        if v in rs:
            hit = True
            break
    if not hit:
        return 1, m
    cnt = {}
    for v in m:
        cnt[v] = cnt.get(v, 0) + 1
    coef = 1
    changed = False
    for v in list(cnt):
        c = cnt.get(v, 0)
        if not c:
            continue
        pr = TAB.powrule.get(v)
        if pr is not None and c >= pr[0]:
            n, k = pr
            q, r = divmod(c, n)
            coef = coef * (k ** q)
            cnt[v] = r
            changed = True
            continue
        p = TAB.invpair.get(v)
        if p is not None and cnt.get(p, 0):
            k = min(c, cnt[p])
            cnt[v] -= k
            cnt[p] -= k
            changed = True
    if not changed:
        return 1, m
    out = []
    for v in sorted(cnt):
        out.extend([v] * cnt[v])
    return coef, tuple(out)


def _merge(a, b):
    if not a:
        return b
    if not b:
        return a
    return tuple(sorted(a + b))


# ------------------------------------------------------------------------------ Poly

class Poly:
    __slots__ = ("t",)

    def __init__(self, t=None):
        self.t = t if t is not None else {}

    # -- constructors
    @staticmethod
    def const(c):
        if isinstance(c, Fraction) and c.denominator == 1:
            c = c.numerator
        return Poly({(): c} if c else {})

    # -- predicates
    def iszero(self):
        return not self.t

    def isconst(self):
        return not self.t or (len(self.t) == 1 and () in self.t)

    def constval(self):
        """Return the complex/rational constant value or None if not constant."""
        re, im = 0, 0
        for m, c in self.t.items():
            if m == ():
                re = c
            elif m == (0,):
                im = c
            else:
                return None
        if im == 0:
            return re
        return complex(re, im)

    def symbols(self):
        s = set()
        for m in self.t:
            s.update(m)
        return s

    def degree(self):
        return max((len(m) for m in self.t), default=0)

    # -- arithmetic
    def __add__(self, o):
        o = lift(o)
        if o is NotImplemented:
            return NotImplemented
        if not o.t:
            return self
        if not self.t:
            return o
        a, b = (self.t, o.t) if len(self.t) >= len(o.t) else (o.t, self.t)
        r = dict(a)
        for m, c in b.items():
            v = r.get(m)
            if v is None:
                r[m] = c
            else:
                v = v + c
                if v:
                    r[m] = v
                else:
                    del r[m]
        return Poly(r)

    __radd__ = __add__

    def __neg__(self):
        return Poly({m: -c for m, c in self.t.items()})

    def __pos__(self):
        return self

    def __sub__(self, o):
        o = lift(o)
        if o is NotImplemented:
            return NotImplemented
        if not o.t:
            return self
        r = dict(self.t)
        for m, c in o.t.items():
            v = r.get(m)
            if v is None:
                r[m] = -c
            else:
                v = v - c
                if v:
                    r[m] = v
                else:
                    del r[m]
        return Poly(r)

    def __rsub__(self, o):
        o = lift(o)
        if o is NotImplemented:
            return NotImplemented
        return o.__sub__(self)

    def __mul__(self, o):
        o = lift(o)
        if o is NotImplemented:
            return NotImplemented
        if not self.t or not o.t:
            return Poly()
        a, b = self.t, o.t
        if len(b) == 1:
            a, b = b, a
        r = {}
        rs = TAB.ruleset
        if len(a) == 1:
            (m1, c1), = a.items()
            if not m1:
                if c1 == 1:
                    return Poly(dict(b))
                return Poly({m: c * c1 for m, c in b.items()})
        for m1, c1 in a.items():
            for m2, c2 in b.items():
                if not m1:
                    m = m2
                elif not m2:
                    m = m1
                else:
                    m = tuple(sorted(m1 + m2))
                c = c1 * c2
                # rules only matter if some rule symbol is present in *both* or with power
                if rs and m1 and m2:
                    k, m = _reduce(m)
                    if k != 1:
                        c = c * k
                v = r.get(m)
                if v is None:
                    r[m] = c
                else:
                    v = v + c
                    if v:
                        r[m] = v
                    else:
                        del r[m]
        return Poly(r)

    __rmul__ = __mul__

    def __pow__(self, n):
        if isinstance(n, Poly):
            cv = n.constval()
            if cv is None:
                raise Unsupported("symbolic exponent")
            n = cv
        if isinstance(n, (float, np.floating)) and float(n) == int(n):
            n = int(n)
        if isinstance(n, Fraction) and n.denominator == 1:
            n = int(n)
        if isinstance(n, (int, np.integer)):
            n = int(n)
            if n < 0:
                return (self ** (-n)).inverse()
            r = Poly.const(1)
            b = self
            while n:
                if n & 1:
                    r = r * b
                n >>= 1
                if n:
                    b = b * b
            return r
        if isinstance(n, (float, Fraction)) and Fraction(n) == Fraction(1, 2):
            return self.sqrt()
        if isinstance(n, (float, Fraction)) and Fraction(n) == Fraction(-1, 2):
            return self.sqrt().inverse()
        raise Unsupported(f"power {n!r} of a symbolic scalar")

    def __rpow__(self, base):
        # base ** self : only 10**e style with the exponent machinery (see exp10)
        cv = self.constval()
        if cv is not None and not isinstance(cv, complex):
            if Fraction(cv).denominator == 1:
                return lift(base) ** int(cv)
            if Fraction(cv) == Fraction(1, 2):
                return lift(base).sqrt()
        if base == 10 or base == 10.0:
            return exp10(self)
        raise Unsupported(f"{base!r} ** symbolic")

    def inverse(self):
        if not self.t:
            raise ZeroDivisionError("division by symbolic zero")
        if len(self.t) == 1:
            (m, c), = self.t.items()
            # monomial: invertible if every symbol has an inverse partner / is I / alg
            out = Poly.const(Fraction(1) / c if not isinstance(c, int) or c not in (1, -1) else c)
            ok = True
            for v in m:
                if v in TAB.invpair:
                    out = out * _mono(TAB.invpair[v])
                elif v in TAB.powrule:
                    n, k = TAB.powrule[v]
                    # v**-1 = v**(n-1) / k
                    out = out * (_mono(v) ** (n - 1)) * Fraction(1, k)
                else:
                    ok = False
                    break
            if ok:
                return out
        cv = self.constval()
        if cv is not None:  # complex constant
            cj = self.conjugate()
            den = (self * cj).constval()
            return cj * (Fraction(1) / Fraction(den))
        return _defined_inverse(self)

    def __truediv__(self, o):
        o = lift(o)
        if o is NotImplemented:
            return NotImplemented
        if not self.t:
            if not o.t:
                raise ZeroDivisionError("0/0 symbolic")
            return self
        if self.t == o.t:
            return Poly.const(1)
        q = _exact_monomial_quotient(self, o)
        if q is not None:
            return q
        return self * o.inverse()

    def __rtruediv__(self, o):
        o = lift(o)
        if o is NotImplemented:
            return NotImplemented
        return o.__truediv__(self)

    # -- complex structure
    def conjugate(self):
        need = False
        for m in self.t:
            for v in m:
                if TAB.partner[v] != v or v == 0:
                    need = True
                    break
            if need:
                break
        if not need:
            return self
        r = {}
        part = TAB.partner
        for m, c in self.t.items():
            sign = 1
            mm = []
            for v in m:
                if v == 0:
                    sign = -sign
                    mm.append(0)
                else:
                    mm.append(part[v])
            mm = tuple(sorted(mm))
            r[mm] = r.get(mm, 0) + sign * c
        return Poly({m: c for m, c in r.items() if c})

    conj = conjugate

    @property
    def real(self):
        return (self + self.conjugate()) * Fraction(1, 2)

    @property
    def imag(self):
        return (self - self.conjugate()) * (-I) * Fraction(1, 2)

    def is_real(self):
        return (self - self.conjugate()).iszero()

    # -- transcendental hooks (called by numpy ufuncs on object arrays)
    def sqrt(self):
        cv = self.constval()
        if cv is not None and not isinstance(cv, complex):
            f = Fraction(cv)
            if f >= 0:
                n, d = f.numerator, f.denominator
                rn, rd = math.isqrt(n), math.isqrt(d)
                if rn * rn == n and rd * rd == d:
                    return Poly.const(Fraction(rn, rd))
                for k in _SQRTS:
                    g = f / k
                    rn, rd = math.isqrt(g.numerator), math.isqrt(g.denominator)
                    if rn * rn == g.numerator and rd * rd == g.denominator:
                        return alg_sqrt(k) * Fraction(rn, rd)
        # perfect square monomial of positive symbols
        if len(self.t) == 1:
            (m, c), = self.t.items()
            if isinstance(c, (int, Fraction)) and c > 0 and len(m) % 2 == 0 and all(
                m[i] == m[i + 1] for i in range(0, len(m), 2)
            ) and all(v in TAB.nonneg for v in m):
                cr = Poly.const(c).sqrt()
                return cr * Poly({tuple(m[::2]): 1})
        return _defined_sqrt(self)

    def exp(self):
        return _exp(self)

    def log10(self):
        return _log10(self)

    def log(self):
        raise Unsupported("log of symbolic scalar")

    def cos(self):
        u = _exp(self * I)
        return (u + u.conjugate()) * Fraction(1, 2)

    def sin(self):
        u = _exp(self * I)
        return (u - u.conjugate()) * (-I) * Fraction(1, 2)

    # -- comparisons : decided structurally when possible, else handed to the SX context
    def _cmp(self, o, op):
        o = lift(o)
        if o is NotImplemented:
            return NotImplemented
        d = self - o
        return _decide_cmp(d, op)

    def __eq__(self, o):
        return self._cmp(o, "==")

    def __ne__(self, o):
        r = self._cmp(o, "==")
        if r is NotImplemented:
            return r
        return not r

    def __lt__(self, o):
        return self._cmp(o, "<")

    def __le__(self, o):
        return self._cmp(o, "<=")

    def __gt__(self, o):
        return self._cmp(o, ">")

    def __ge__(self, o):
        return self._cmp(o, ">=")

    def __hash__(self):
        return hash(frozenset(self.t.items()))

    def __bool__(self):
        return not _decide_cmp(self, "==")

    def __abs__(self):
        cv = self.constval()
        if cv is not None:
            if isinstance(cv, complex):
                return (self * self.conjugate()).sqrt()
            return Poly.const(abs(cv))
        if _sign_known(self) == 1:
            return self
        if _sign_known(self) == -1:
            return -self
        if not self.is_real():
            return (self * self.conjugate()).sqrt()
        if _decide_cmp(self, ">="):
            return self
        return -self

    def __float__(self):
        cv = self.constval()
        if cv is None or isinstance(cv, complex):
            raise Unsupported("float() of a symbolic scalar")
        return float(cv)

    def __complex__(self):
        cv = self.constval()
        if cv is None:
            raise Unsupported("complex() of a symbolic scalar")
        return complex(cv)

    def __int__(self):
        cv = self.constval()
        if cv is None or isinstance(cv, complex) or Fraction(cv).denominator != 1:
            raise Unsupported("int() of a symbolic scalar")
        return int(cv)

    def __round__(self, n=None):
        raise Unsupported("round() of a symbolic scalar")

    def __repr__(self):
        if not self.t:
            return "0"
        out = []
        for m, c in sorted(self.t.items(), key=lambda kv: (len(kv[0]), kv[0]))[:12]:
            names = "*".join(TAB.names[i] for i in m)
            out.append(f"{c}" + ("*" + names if names else ""))
        if len(self.t) > 12:
            out.append(f"...({len(self.t)} terms)")
        return " + ".join(out)

    # numpy object arrays need these to behave like numbers
    @property
    def dtype(self):
        return np.dtype(object)

    @property
    def shape(self):
        return ()

    @property
    def ndim(self):
        return 0

    def item(self):
        return self

    # evaluation at a numeric point: env maps symbol id -> complex/float/Fraction
    def evaluate(self, env):
        tot = 0
        for m, c in self.t.items():
            v = c if not isinstance(c, Fraction) else (c.numerator / c.denominator)
            for s in m:
                v = v * env[s]
            tot = tot + v
        return tot


I = Poly({(0,): 1})
ZERO = Poly()
ONE = Poly.const(1)


def _exact_monomial_quotient(a, b):
    """a / b when b is a single term c*m and m divides every monomial of a."""
    if len(b.t) != 1:
        return None
    (mb, cb), = b.t.items()
    if 0 in mb:
        return None
    r = {}
    for m, c in a.t.items():
        mm = list(m)
        for v in mb:
            try:
                mm.remove(v)
            except ValueError:
                return None
        r[tuple(mm)] = Fraction(c) / cb if (cb not in (1, -1)) else c * cb
    return Poly({m: (c.numerator if isinstance(c, Fraction) and c.denominator == 1 else c)
                 for m, c in r.items()})


# ------------------------------------------------------------------------------ defined symbols

_DEF_CACHE = {}


def _key(p):
    return frozenset(p.t.items())


def _defined_inverse(p):
    k = ("inv", _key(p))
    if k in _DEF_CACHE:
        return _DEF_CACHE[k]
    i = TAB.new(f"inv{len(_DEF_CACHE)}", "def", origin=f"1/({p!r})")
    w = _mono(i)
    if p.is_real():
        pass
    else:
        j = TAB.new(TAB.names[i] + "^*", "defbar")
        TAB.partner[i] = j
        TAB.partner[j] = i
        HYP.append((f"def-inverse-conj:{TAB.names[i]}", _mono(j) * p.conjugate() - 1))
    HYP.append((f"def-inverse:{TAB.names[i]}", w * p - 1))
    ASSUMED.append(f"division by a symbolic quantity assumed non-zero: {p!r}")
    if _sign_known(p) == 1:
        TAB.positive.add(i)
        TAB.nonneg.add(i)
    _DEF_CACHE[k] = w
    return w


def _defined_sqrt(p):
    if not p.is_real():
        raise Unsupported(f"sqrt of a non-real symbolic scalar {p!r}")
    k = ("sqrt", _key(p))
    if k in _DEF_CACHE:
        return _DEF_CACHE[k]
    i = TAB.new(f"sqrt{len(_DEF_CACHE)}_", "def", origin=f"sqrt({p!r})")
    r = _mono(i)
    TAB.nonneg.add(i)
    if _sign_known(p) == 1:
        TAB.positive.add(i)
    HYP.append((f"def-sqrt:{TAB.names[i]}", r * r - p))
    _DEF_CACHE[k] = r
    return r


_EXP_CACHE = {}


def _split_rational_const(p):
    """p = const + rest."""
    c = p.t.get((), 0)
    ci = p.t.get((0,), 0)
    rest = Poly({m: v for m, v in p.t.items() if m not in ((), (0,))})
    return c, ci, rest


def _exp(p):
    """exp of a linear form.  exp(I*a) for real a -> product of unit symbols; exp(a) for real a
    -> product of positive symbols.  Homomorphism is structural: each *term* of the linear form
    gets its own generator raised to an integer power (terms are split over a common
    denominator recorded per monomial)."""
    if not p.t:
        return Poly.const(1)
    out = Poly.const(1)
    for m, c in p.t.items():
        imag = 0 in m
        base = tuple(v for v in m if v != 0)
        if not base:
            if imag:
                out = out * _exp_const_imag(Fraction(c))
                continue
            raise Unsupported(f"exp of a non-zero real constant {c}")
        if m.count(0) > 1:
            raise Unsupported("exp: unreduced I")
        out = out * _exp_gen(base, imag, Fraction(c))
    return out


_EXP_DEN = 8  # generators represent exp(x/8) so that x/2, x/4 are integer powers


def _exp_gen(base, imag, c):
    k = ("exp", base, imag)
    if k not in _EXP_CACHE:
        name = ("expi[" if imag else "exp[") + "*".join(TAB.names[v] for v in base) + f"/{_EXP_DEN}]"
        _EXP_CACHE[k] = unit(name) if imag else posunit(name)
    g = _EXP_CACHE[k]
    n = c * _EXP_DEN
    if n.denominator != 1:
        raise Unsupported(f"exp: coefficient {c} is not a multiple of 1/{_EXP_DEN}")
    n = int(n)
    if n >= 0:
        return g ** n
    ginv = _mono(TAB.invpair[next(iter(g.t))[0]])
    return ginv ** (-n)


def _exp_const_imag(c):
    # exp(I*c) for rational c: only c == 0 is algebraic over Q (pi multiples come as floats)
    if c == 0:
        return Poly.const(1)
    raise Unsupported(f"exp(I*{c}) with a rational constant")


_LOG_CACHE = {}


def exp10(p):
    """10**p for a real linear form p in *exponent symbols* (and rational constants)."""
    out = Poly.const(1)
    for m, c in p.t.items():
        c = Fraction(c)
        if not m:
            if c.denominator != 1:
                raise Unsupported(f"10**{c}")
            out = out * (Poly.const(10) ** int(c) if c >= 0 else Poly.const(Fraction(1, 10 ** int(-c))))
            continue
        k = ("exp10", m)
        if k not in _EXP_CACHE:
            _EXP_CACHE[k] = posunit("10^[" + "*".join(TAB.names[v] for v in m) + f"/{_EXP_DEN}]")
        g = _EXP_CACHE[k]
        n = c * _EXP_DEN
        if n.denominator != 1:
            raise Unsupported(f"10**: coefficient {c} not a multiple of 1/{_EXP_DEN}")
        n = int(n)
        out = out * (g ** n if n >= 0 else _mono(TAB.invpair[next(iter(g.t))[0]]) ** (-n))
    return out


def _log10(p):
    """log10 of a positive quantity.  log10 of a product of 10^[e] generators is the linear
    form back; of anything else it is a fresh *exponent symbol* L with 10**L = p."""
    cv = p.constval()
    if cv is not None and not isinstance(cv, complex):
        f = Fraction(cv)
        if f == 1:
            return Poly.const(0)
        k = 0
        g = f
        while g.denominator == 1 and g.numerator % 10 == 0 and g != 0:
            g = g / 10
            k += 1
        while g != 0 and g.numerator == 1 and g.denominator % 10 == 0:
            g = g * 10
            k -= 1
        if g == 1:
            return Poly.const(k)
    if len(p.t) == 1:
        (m, c), = p.t.items()
        out = _log10(Poly.const(c)) if c != 1 else Poly.const(0)
        ok = True
        for v in m:
            hit = None
            for key, g in _EXP_CACHE.items():
                if key[0] == "exp10":
                    gid = next(iter(g.t))[0]
                    if v == gid:
                        hit = (key[1], Fraction(1, _EXP_DEN))
                    elif v == TAB.invpair[gid]:
                        hit = (key[1], Fraction(-1, _EXP_DEN))
            if hit is None:
                ok = False
                break
            out = out + Poly({hit[0]: hit[1]})
        if ok:
            return out
    k = ("log10", _key(p))
    if k not in _LOG_CACHE:
        L = real(f"log10_{len(_LOG_CACHE)}", origin=f"log10({p!r})")
        _LOG_CACHE[k] = L
        # tie 10**L to p : the generator for L's monomial, to the power _EXP_DEN, equals p
        g = exp10(L)  # = gen**_EXP_DEN
        HYP.append((f"def-log10:{L!r}", g - p))
    return _LOG_CACHE[k]


# ------------------------------------------------------------------------------ comparisons

def _sign_known(p):
    """+1 / -1 if p is structurally a positive/negative quantity, 0 if structurally zero, else None."""
    if not p.t:
        return 0
    signs = set()
    for m, c in p.t.items():
        if 0 in m:
            return None
        if isinstance(c, complex):
            return None
        strict = all(v in TAB.positive for v in m)
        if not strict:
            # even powers of real symbols are non-negative but not strictly positive
            return None
        signs.add(1 if c > 0 else -1)
    if len(signs) == 1:
        return signs.pop()
    return None


CMP_HANDLER = [None]   # installed by qv.sx when an exploration context is active


def _decide_cmp(d, op):
    """Decide `d op 0`."""
    cv = d.constval()
    if cv is not None:
        if isinstance(cv, complex):
            if op == "==":
                return False
            raise Unsupported("ordering comparison of a complex constant")
        return {"==": cv == 0, "<": cv < 0, "<=": cv <= 0, ">": cv > 0, ">=": cv >= 0}[op]
    s = _sign_known(d)
    if s is not None:
        return {"==": s == 0, "<": s < 0, "<=": s <= 0, ">": s > 0, ">=": s >= 0}[op]
    h = CMP_HANDLER[0]
    if h is not None:
        return h(d, op)
    if op == "==":
        # generic position: a non-trivial polynomial is non-zero for generic inputs
        STATS["generic_branches"] += 1
        if len(ASSUMED) < 50:
            ASSUMED.append(f"generic position: {d!r} != 0")
        return False
    raise Unsupported(f"ordering comparison of symbolic scalar: {d!r} {op} 0")


# ------------------------------------------------------------------------------ array helpers

def symarray(name, shape, kind="real"):
    mk = {"real": real, "cplx": cplx, "pos": positive, "nonneg": nonneg}[kind]
    a = np.empty(shape, dtype=object)
    if shape == ():
        a[()] = mk(name)
        return a
    for idx in np.ndindex(*shape):
        a[idx] = mk(name + "_" + "".join(map(str, idx)))
    return a


def to_obj(x):
    """Convert a numeric array (or nested list) to an object array of exact Poly constants."""
    x = np.asarray(x)
    if x.dtype == object:
        return x
    out = np.empty(x.shape, dtype=object)
    for idx in np.ndindex(*x.shape):
        out[idx] = lift(x[idx].item())
    return out


def flat_polys(x):
    if isinstance(x, Poly):
        return [x]
    if hasattr(x, "data") and not isinstance(x, np.ndarray):
        x = x.data
    a = np.asarray(x)
    if a.dtype != object:
        a = to_obj(a)
    return [lift(v) for v in a.reshape(-1)]
