#!/usr/bin/env python3
"""tools/seedkeep.py <src seeded dir> <id> '<json with verif fields>' : copy a confirmed seeded change into /verif/seeded/<id>/"""
import json, os, shutil, sys
src, sid, extra = sys.argv[1], sys.argv[2], json.loads(sys.argv[3])
dst = os.path.join(os.path.dirname(os.path.dirname(os.path.abspath(__file__))), "seeded", sid)
os.makedirs(dst, exist_ok=True)
for f in ("patch.diff", "demo.py"):
    shutil.copy(os.path.join(src, f), os.path.join(dst, f))
meta = {}
mp = os.path.join(src, "meta.json")
if os.path.exists(mp):
    try:
        meta = json.load(open(mp))
    except Exception:
        meta = {"raw": open(mp).read()}
meta["id"] = sid
meta["verif"] = extra
json.dump(meta, open(os.path.join(dst, "meta.json"), "w"), indent=1)
print("kept", dst)
