#!/bin/sh
# tools/seed3_prop.sh <PROP> : run tools/seed3.sh for every delivered change of <PROP> (third round), in sequence
for k in 1 2; do [ -f "/tmp/seed3/out_$1/$k/meta.json" ] && [ ! -f "/tmp/seed3/res_$1_${k}_quick.txt" ] && "$(dirname "$0")/seed3.sh" "$1" "$k"; done
