#!/usr/bin/env python3
"""tools/seed3_keep.py <PROP> <k> <newid> [initially_missed] [note] : keep a confirmed third-round seeded change.
Reads /tmp/seed3/res_<PROP>_<k>_quick.txt (written by tools/seed3.sh): demo exits must be 0 clean / 1 patched; the
catching obligations are taken from the VIOLATION lines."""
import json, os, re, subprocess, sys
P, k, sid = sys.argv[1:4]
missed = len(sys.argv) > 4 and sys.argv[4] in ("1", "missed", "true")
note = sys.argv[5] if len(sys.argv) > 5 else ""
V = os.path.dirname(os.path.dirname(os.path.abspath(__file__)))
res = open(f"/tmp/seed3/res_{P}_{k}_quick.txt").read()
assert "demo clean exit=0" in res and "demo patched exit=1" in res, res[:300]
obs = sorted(set(re.sub(r"__\d+$", "", m) for m in re.findall(rf"replays/{P}_(\S+?)\.json", res)))
assert obs, "not caught: " + res[-400:]
extra = {"confirmed": "patch applies to /repo HEAD in a scratch worktree; demo exits 0 clean / 1 patched (tools/seedtest.sh); tests: tools/seedconfirm.py",
         "caught_by": [f"{P} quick: {o}" for o in obs[:6]] + ([f"... and {len(obs) - 6} more"] if len(obs) > 6 else []),
         "initially_missed": missed, "round": 3}
if note:
    extra["strengthened"] = note
subprocess.run([sys.executable, f"{V}/tools/seedkeep.py", f"/tmp/seed3/out_{P}/{k}", sid, json.dumps(extra)], check=True)
