#!/bin/bash
# tools/seedpytest.sh <seeded id> <test paths...> : confirm that the existing tests named still pass with the
# seeded patch applied (scratch worktree under /tmp, removed afterwards); compares the failure list with the clean tree's
ID="$1"; shift
V="$(cd "$(dirname "$0")/.." && pwd)"
W="/tmp/wt_seedpy_$$"
git -C /repo worktree add --detach "$W" HEAD -q || exit 9
trap 'git -C /repo worktree remove --force "$W"' EXIT
cd "$W"
run() { QUIMB_NUM_PROCS=2 QUIMB_NUM_THREAD_WORKERS=2 OMP_NUM_THREADS=1 OPENBLAS_NUM_THREADS=1 MKL_NUM_THREADS=1 NUMBA_NUM_THREADS=2 PYTHONPATH="$W" timeout 5000 /venv/bin/python -m pytest "$@" -q -n 3 -p no:cacheprovider 2>&1 | grep "^FAILED\|^ERROR\| passed\| failed" | sed 's/ - .*//' | sort; }
run "$@" > /tmp/seedpy_clean_$$.txt
git apply "$V/seeded/$ID/patch.diff" || { echo "PATCH DOES NOT APPLY"; exit 8; }
run "$@" > /tmp/seedpy_patched_$$.txt
echo "clean:   $(grep ' passed\| failed' /tmp/seedpy_clean_$$.txt | tail -1)"
echo "patched: $(grep ' passed\| failed' /tmp/seedpy_patched_$$.txt | tail -1)"
if diff <(grep "^FAILED\|^ERROR" /tmp/seedpy_clean_$$.txt) <(grep "^FAILED\|^ERROR" /tmp/seedpy_patched_$$.txt) > /tmp/seedpy_diff_$$.txt; then echo "SAME FAILURE LIST"; else echo "FAILURE LISTS DIFFER:"; cat /tmp/seedpy_diff_$$.txt | head; fi
rm -f /tmp/seedpy_*_$$.txt
