#!/bin/sh
# tools/seedtest.sh <seeded-dir> <PROP> [tier]   -- development aid, not a registered command.
# Applies <seeded-dir>/patch.diff to a scratch worktree of /repo's HEAD (so /repo itself stays usable by
# other running jobs), confirms the demonstration (exit 0 clean / 1 patched) and runs ./check <PROP>
# against the patched worktree.  tools/seedrun_repo.sh does the same on /repo itself (apply, run, undo).
set -u
S="$(cd "$1" && pwd)"; P="$2"; T="${3:-quick}"; shift; shift; [ $# -gt 0 ] && shift
V="$(cd "$(dirname "$0")/.." && pwd)"
W="${SEED_WT:-/tmp/wt_seedtest_$$}"
git -C /repo worktree add --detach "$W" HEAD -q || exit 9
trap 'git -C /repo worktree remove --force "$W"; rm -rf "/tmp/qvout_$$"' EXIT
cd "$W"
[ -n "${SKIP_DEMO:-}" ] || { PYTHONPATH="$W" timeout 900 /venv/bin/python "$S/demo.py" >/dev/null 2>&1; echo "demo clean exit=$?"; }
git apply "$S/patch.diff" || { echo "PATCH DOES NOT APPLY"; exit 8; }
[ -n "${SKIP_DEMO:-}" ] || { PYTHONPATH="$W" timeout 900 /venv/bin/python "$S/demo.py" >/dev/null 2>&1; echo "demo patched exit=$?"; }
cd "$V"
QV_REPO="$W" QV_OUT="/tmp/qvout_$$" ./check "$P" --tier "$T" "$@" 2>&1 | grep "^VIOLATION\|^KNOWN\|^$P \[" | cut -c1-300 | sort | uniq -c | sort -rn | head -8
