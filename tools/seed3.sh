#!/bin/sh
# tools/seed3.sh <PROP> <k> [tier] : third-round aid — run seedtest on /tmp/seed3/out_<PROP>/<k> and keep the summary
P="$1"; K="$2"; T="${3:-quick}"
V="$(cd "$(dirname "$0")/.." && pwd)"
S="/tmp/seed3/out_$P/$K"
[ -f "$S/patch.diff" ] || { echo "no patch in $S"; exit 2; }
SEED_WT="/tmp/seed3/st_${P}_$K" "$V/tools/seedtest.sh" "$S" "$P" "$T" > "/tmp/seed3/res_${P}_${K}_$T.txt" 2>&1
echo "== $P/$K ($T)"; cat "/tmp/seed3/res_${P}_${K}_$T.txt"
