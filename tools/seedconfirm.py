#!/usr/bin/env python3
"""tools/seedconfirm.py [ids...] : own confirmation of kept seeded changes in a scratch worktree of /repo HEAD:
demo exits 0 on the clean tree and 1 on the patched tree; the test files named in meta['tests_run'] have the same
failure list before and after.  Results are written into seeded/<id>/meta.json under verif.own_confirmation."""
import glob, json, os, re, subprocess, sys, time
V = os.path.dirname(os.path.dirname(os.path.abspath(__file__)))
ids = sys.argv[1:] or sorted(os.path.basename(os.path.dirname(p)) for p in glob.glob(f"{V}/seeded/*/meta.json"))
ENV = dict(os.environ, QUIMB_NUM_PROCS="2", QUIMB_NUM_THREAD_WORKERS="2", OMP_NUM_THREADS="1", OPENBLAS_NUM_THREADS="1", MKL_NUM_THREADS="1")


def run(cmd, cwd, timeout, env=None):
    try:
        p = subprocess.run(cmd, cwd=cwd, env=env or ENV, capture_output=True, text=True, timeout=timeout)
        return p.returncode, p.stdout + p.stderr
    except subprocess.TimeoutExpired:
        return 124, "timeout"


def pytest_fail_list(W, paths):
    rc, out = run(["/venv/bin/python", "-m", "pytest", *paths, "-q", "-n", "3", "-p", "no:cacheprovider"], W, 3000, dict(ENV, PYTHONPATH=W))
    fails = sorted(set(l.split(" - ")[0] for l in out.splitlines() if l.startswith(("FAILED", "ERROR"))))
    tail = [l for l in out.splitlines() if " passed" in l or " failed" in l]
    return fails, (tail[-1] if tail else f"rc={rc}")


for sid in ids:
    d = f"{V}/seeded/{sid}"
    meta = json.load(open(f"{d}/meta.json"))
    v = meta.setdefault("verif", {})
    if v.get("own_confirmation", {}).get("done"):
        continue
    W = f"/tmp/wt_confirm_{os.getpid()}"
    subprocess.run(["git", "-C", "/repo", "worktree", "add", "--detach", W, "HEAD", "-q"], check=True)
    res = {"repo_head": subprocess.run(["git", "-C", "/repo", "rev-parse", "--short", "HEAD"], capture_output=True, text=True).stdout.strip()}
    try:
        e = dict(ENV, PYTHONPATH=W)
        res["demo_clean_exit"] = run(["/venv/bin/python", f"{d}/demo.py"], W, 900, e)[0]
        paths = []
        for m in re.findall(r"tests/[\w/\.]+", str(meta.get("tests_run", ""))):
            m = m.rstrip(".")
            if os.path.exists(os.path.join(W, m)) and m not in paths:
                paths.append(m)
        paths = paths[:3]
        before = pytest_fail_list(W, paths) if paths else ([], "no test paths in meta")
        rc, out = run(["git", "apply", f"{d}/patch.diff"], W, 60)
        res["patch_applies"] = rc == 0
        if rc == 0:
            res["demo_patched_exit"] = run(["/venv/bin/python", f"{d}/demo.py"], W, 900, e)[0]
            after = pytest_fail_list(W, paths) if paths else ([], "no test paths in meta")
            res["tests"] = {"paths": paths, "before": before[1], "after": after[1], "same_failure_list": before[0] == after[0],
                            "new_failures_after": sorted(set(after[0]) - set(before[0]))[:20]}
        res["done"] = True
    finally:
        subprocess.run(["git", "-C", "/repo", "worktree", "remove", "--force", W])
    v["own_confirmation"] = res
    json.dump(meta, open(f"{d}/meta.json", "w"), indent=1)
    print(sid, json.dumps(res), flush=True)
