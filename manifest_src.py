"""Source of MANIFEST.json (python3 manifest_src.py > MANIFEST.json)."""
import json

ALL = [f"C{i:02d}" for i in range(1, 21)]

CHECKS = {
    "C16": dict(
        technique="concolic symbolic execution (z3, QF_LIA) of the real partition functions + symbolic-data kernel runs with write recorders, polynomial identity queries (z3 QF_LRA/NRA)",
        text="Bounded symbolic model checking of the real Python source of the threaded kernels: the partition arithmetic is explored "
             "path-by-path with N and target_block_size unbounded symbolic integers for each concrete thread count; each kernel is run once "
             "per thread rank on symbolic data and the union of the (write-once) outputs is proved equal to the serial result; the world_rank / world_size striding of the term-operator "
             "matvec and COO kernels (symmetries None / Z2 / U1 / U1U1, every sector) adds up to the serial result on a symbolic vector. "
             "A solver counterexample is replayed on the JIT-compiled code with real threads before it is reported.",
        note="Trusted: z3, the home-made concolic executor (qv/sx.py) and polynomial normaliser (qv/poly.py), numba compiling the kernels "
             "faithfully to their Python source. Outside: OS scheduling (replaced by write-disjointness), thread counts above the bound, RNG streams.",
        design="3/C16",
    ),
}

CHECKS["C01"] = dict(
    technique="symbolic tensor execution of the real contraction routes (polynomial entries, symbolic exponent) + z3 identity queries (QF_LRA over monomials, QF_NRA cross-check) against a sum-of-products reference",
    text="Bounded symbolic model checking: every contraction entry point of the real library is executed on networks (<= 4 tensors, dims in {1,2,3}, "
         "hyper-indices, disconnected parts, scalar tensors, MPS) whose entries and stored exponent are symbols; each returned value is proved equal, "
         "for all real/complex entry values and all exponents at once, to an independent sum-of-products reference; norm / overlap with every subset of "
         "outer labels as explicit output_inds, and every derivation word of length <= 3 over {H, T, conj} of a TNLinearOperator (dense form, action, rmatvec, trace). "
         "Counterexamples are replayed numerically on the un-stubbed code.",
    note="Trusted: z3, qv/poly.py normaliser (validated per run by numeric cross-runs of the same harness), cotengra executing the same path on object arrays as on "
         "float arrays. Abstracted: max-abs factor of exponent stripping = arbitrary positive factor. Outside: rounding, > 4 tensors, slicing, other backends.",
    design="3/C01",
)

CHECKS["C05"] = dict(
    technique="symbolic tensor execution of the real split routines with LAPACK contract stubs + linear Nullstellensatz certificates (z3 QF_LRA); concolic execution (z3 QF_NRA path conditions) of the generic and numba truncation kernels on symbolic singular values",
    text="Bounded symbolic model checking. (a) Tensor.split / tensor_split / array_split run on symbolic rank-2/3 tensors for the method x absorb x get table with "
         "LAPACK replaced by contract stubs (real tall / wide / dim-1, complex wide and strictly tall); reconstruction, label bookkeeping and every isometry flag are certified modulo the stub contracts for all entry values. "
         "(b) both truncation implementations run path-by-path on symbolic ordered singular values with a symbolic cutoff, or none (static truncation), for all cutoff modes, caps and renorm powers; "
         "the kept count is proved minimal by the documented rule, the kept values are the leading prefix, the reported error equals the discarded weight and the two "
         "implementations agree on every path. (c) the memoised option parsers give the same answer in every call order of equal-hashing spellings.",
    note="Trusted: z3, qv engines, LAPACK meeting its contracts (stubs), Eckart-Young (cited). Abstracted: machine-eps regularisation = 0, QR stub has positive diagonal, "
         "singular values strictly positive in family (a). Outside: rounding/precision, randomized and iterative drivers, n > 5 singular values.",
    design="3/C05",
)

CHECKS["C15"] = dict(
    technique="symbolic execution of the real kron/ikron/pkron/permute/partial_trace/itrace/partial_transpose on conj-pair complex symbols + z3 identity queries against index-arithmetic references; concolic execution (z3 QF_LIA) of the ownership / mixed-radix slicing arithmetic with symbolic row ranges",
    text="Bounded symbolic model checking. For dimension lists over {1,2,3} (length <= 3, some of length 4) and every index subset in every order the dense routines agree entry-wise, "
         "for arbitrary complex entries, with explicit references: embedding == Kronecker product with identities (overlay, cyclic placement, nested coordinates), pkron == embedding on "
         "reordered sites, permute o embed == embed on permuted sites, partial trace == explicit partial sum with ket == projector, Tr[embed(A) rho] == Tr[A ptr rho], partial transpose an "
         "involution. kron/ikron with ownership deliver exactly rows [ri, rf) with ri, rf symbolic (recorder operands: unbounded; symbolic entries: D <= 27, ranges enumerated by the solver); "
         "dim_map / dim_compress on symbolic coordinates / dims. Sparse formats and Hamiltonian builders run on exactly representable entries with solver-enumerated ranges.",
    note="Trusted: z3, qv engines. Symbolic entries never reach scipy.sparse kernels (FFI): sparse checks use concrete dyadic entries plus numeric cross-runs. Two dtype shims (common_type, "
         "qarray.astype) act on object arrays only. Outside: partial_trace of bras, D == 1, numba compilation, parallel=True (C16). Known findings (8 families) are listed in known_findings.txt.",
    design="3/C15",
)

CHECKS["C08"] = dict(
    technique="symbolic tensor execution of the real MPS routines threading one canonical-form record, LAPACK contract stubs; certificates found by hypothesis elimination + polynomial reduction and checked by z3 (QF_LRA)",
    text="Bounded symbolic model checking. (i) Histories of <= 3 operations (canonicalize, swaps, swap_site_to, one/two-site gates incl. swap+split / nonlocal / sub-MPO, compress_site, "
         "measure, canonical queries) are run on a symbolic MPS (L <= 4, D = d = 2); after every operation the state equals the reference and every claim of the outgoing record "
         "(left/right isometry of each site outside the range, every left_inds flag) is certified modulo the stub contracts. (ii) One inductive step: on an arbitrary state that "
         "satisfies an arbitrary record (lo, hi), lo <= hi, by hypothesis, canonicalize(where) for every window (both site orders) preserves the state and leaves a true record inside the "
         "window, and every consumer (Schmidt values, canonical expectation and reduced density matrix on ascending and descending site tuples, magnetization, measurement with/without "
         "removal, one-site gates, compress_site with / without canonize) equals the dense definition and leaves a sound record.",
    note="Trusted: z3, qv engines (Poly normaliser, elimination/reduction = certificate search; z3 checks the certificate), LAPACK contracts (stubs), 'isometric conjugation "
         "preserves the non-zero spectrum' (Schmidt values). Outside: count_canonized/calc_current_orthog_center (allclose detector), cyclic MPS, truncation, RNG, complex symbolic "
         "entries (np.real on object arrays), L > 4.",
    design="3/C08",
)
CHECKS["C19"] = dict(
    technique="concolic execution (z3 bit-vectors / integers) of the real rank/unrank kernels and HilbertSpace API on a symbolic rank; symbolic-bit execution of the coupling kernel; symbolic-coefficient execution of term rewrites and MPO builders with z3 identity queries",
    text="Bounded symbolic model checking. Ranking is proved an order-preserving bijection of the right size for every sector (no symmetry / Z2 up to n = 62 as 64-bit bit-vectors on one "
         "path; mixed radix; U1 up to n = 10; U1xU1 up to (4,4)), also through HilbertSpace with arbitrary labels, orderings, species. The coupling kernel runs on symbolic basis bits and is "
         "compared with an independent operator-string reference; 19 matrix representations, all symmetry sectors, Jordan-Wigner and Pauli rewrites (symbolic complex coefficients) and the "
         "predefined models denote the operator of the raw term list; spin-chain MPO builders equal the textbook Hamiltonians for symbolic couplings and agree with the matrix generators (L <= 4).",
    note="Trusted: z3, qv engines. Substitutions: uint8 configuration buffers -> unbounded buffers (digit <= 255 side goal), complex work array of the MPO builder -> object array. "
         "Coefficient universality of numeric-only APIs rests on linearity (one-term builders + two coefficient vectors). Outside: numba compilation, scipy.sparse internals, PEPO/2D/3D, "
         "local dimension > 255. Three known findings (build_local_terms on constants, build_matrix_ikron of zero, sectors of non-conserving operators).",
    design="3/C19",
)

CHECKS["C18"] = dict(
    technique="symbolic execution of the real quimb.evo code on symbolic Hermitian Hamiltonians, states and times (unit symbols exp(i w t)); z3 identity queries; eigh contract stub with formally differentiated states and explicit certificates; recorders for expm_multiply and the ODE stepper",
    text="Bounded symbolic model checking for d <= 3 (4 thorough): the right-hand-side builders equal -iH psi, -i[H,rho] and the Lindbladian (vectorised == matrix form); the 'solve' "
         "method returns exp(-iH(t-t0)) applied to the state (two-sided for density operators) for symbolic update sequences incl. repeated and non-monotonic times, independent of "
         "history; for a dense Hamiltonian the reported state satisfies the Schroedinger / von Neumann equation and initial condition modulo the eigh contract; 'expm' applies the "
         "exponential of -iH dt to the previous state, two-sided for density operators or rejects; 'integrate' hands the right RHS / initial value / time to the stepper; "
         "unsupported combinations raise; callbacks see exactly the reported states and times.",
    note="Trusted: z3, qv engines, LAPACK eigh contract. expm_multiply is an uninterpreted exponential per generator (group law not needed); the ODE stepper, expm_multiply values and sparse "
         "Hamiltonians are numeric cross-run only. Environment stubs (object dtype acts like complex128 in common_type/qarray, explt -> exp of a symbol) listed in the evidence.",
    design="3/C18",
)
CHECKS["C20"] = dict(
    technique="symbolic execution of quimb.calc on symbolic kets / density operators / observables with z3 identity queries against loop-written definitions; recorders in place of spectral primitives (eigvalsh, trace norm, sqrtm, log2) so that the operator handed to the primitive and the combining formula are decided",
    text="Bounded symbolic model checking for dims over {2,3}, <= 3 subsystems, every subsystem choice incl. non-contiguous and reordered: kraus_op, dephase, pure-state fidelity / trace "
         "distance / concurrence, correlation, pauli_decomp, partial_transpose, measure/projector, qid and ent_cross_matrix equal their definitions for all entry values; the entropy, "
         "mutual information, negativity / logneg, Schmidt gap, tr_sqrt, trace distance, fidelity, concurrence and discord code paths (exact and subsystem-shortcut) hand the reference "
         "reduced operator / partial transpose (or one with equal power traces) to the spectral primitive and combine the returned spectrum by the defining formula.",
    note="Trusted: z3, qv engines. Spectral values and inequalities that are theorems about spectra, sparse inputs, purify, RNG-driven paths and the discord optimiser are numeric cross-run only "
         "or outside. Environment stubs (abs/max/sqrt/log2 as module globals, qarray.astype no-op on object dtype) listed in the evidence.",
    design="3/C20",
)

CHECKS["C02"] = dict(
    technique="concolic execution with symbolic labels: index/tag labels are str objects whose equality is a z3 decision (constant hash), so the real dict/oset bookkeeping forks on every label comparison and each scenario runs once per consistent aliasing pattern",
    text="Bounded symbolic model checking of the bookkeeping: scenario programs of <= 4 public operations (add/pop/replace tensors, rename labels and tags at tensor and network level, "
         "modify, copies and virtual views, select, partition, combination with | and &, pickling, dropping views + gc, contract_ind, isel, fuse_multibonds) over <= 3 tensors run with <= 6 "
         "symbolic index labels and <= 3 symbolic tags; after every step, on every aliasing pattern, ind_map/tag_map equal a fresh scan, inner/outer equal the library's fresh constructor, "
         "selection returns exactly the carriers, owner registries point to exactly the live holders, tn.check() passes, and combination neither merges distinct bonds nor renames outer labels.",
    note="Trusted: z3, qv/sx.py, CPython dict semantics (equal hash => ==). Symbolic labels never alias concrete strings; tensor data are constants. Outside: histories > 4, structured subclasses, "
         "labels processed as strings (site tags). One known finding: label repeated on ONE tensor created/removed by modify/reindex.",
    design="3/C02",
)

CHECKS["C10"] = dict(
    technique="symbolic tensor execution of the real DMRG code (energy network, moving environments, local updates, sweeps) with the local eigensolver and LAPACK replaced by contract stubs; z3 identity queries and certificates",
    text="Bounded symbolic model checking: (1) for general complex symbolic MPOs and MPSs (L <= 3) the energy network of a DMRG object equals <k|H k> computed by the library's own ham.apply "
         "and by an independent dense reference; (2) every position of the moving environment contracts to the value of the whole; (3) with the eigensolver replaced by its contract "
         "(H_eff v = lambda v, v^dag v = 1), after every local update of a DMRG1/DMRG2 sweep in either direction the reported local and total energies equal <psi|H psi> of the updated, "
         "normalised state and dmrg.state reproduces the reported energy through ham.apply (L = 2 mandatory; L = 3, 4 thorough); (4) the bond cap holds after 2-site updates; "
         "(1b) the local operator handed to the eigensolver, dense or matrix-free, is the effective Hamiltonian of the block (bilinear identity z^dag A x == <k[z]|H k>, complex non-symmetric H); "
         "(5) the real solve() driver with the sweep replaced by symbolic energies: sweep j runs with the j-th scheduled bond cap / cutoff / direction (also across two solve() calls), "
         "`energy` is the energy of the last sweep, the convergence flag is |E_n - E_{n-1}| < tol and stops the loop. "
         "A numeric cross-run solves random complex Hermitian MPOs and compares with exact diagonalisation.",
    note="Trusted: z3, qv engines, eigensolver and LAPACK contracts. Outside: convergence, monotone decrease (inequality contract of the eigensolver), periodic boundaries, DMRGX, truncation.",
    design="3/C10",
)

CHECKS["C11"] = dict(
    technique="symbolic execution of LocalHam1D/LocalHamGen on symbolic terms (z3 identity queries); concolic execution (z3 QF_LRA) of the real TEBD.update_to/step/sweep/at_times on symbolic t0, dt, T with recorders for MPS and gate cache; real sweeps with an uninterpreted matrix exponential and LAPACK stubs (certificates)",
    text="Bounded symbolic model checking. (a) For L <= 5, open/periodic, dict / single / flipped-key / default-plus-override (either key orientation) inputs the stored terms sum to the supplied one- and two-site terms for all entry values, "
         "get_gate(where) has its factors in the order of where, get_gate_expm exponentiates x * that term. (b) For symbolic t0, dt, T1 <= T2 with (T - t0) <= 3 dt (4 dt thorough), orders 1, 2, 4, "
         "L = 3..6: t == T exactly at return, queue drained, step sizes dt,...,dt,remainder, the recorded sweeps (adjacent equal layers merged) are the documented palindromic formula per step, "
         "per bond the exponents sum to T - t0, every bond lies in exactly one layer, layers consist of disjoint bonds (except odd periodic chains, as documented); the same holds at every state yielded by at_times, and in imaginary time the renormalised site is the tracked orthogonality centre. (c) One step through the real "
         "sweeps (L = 3, 4; order 1, 2; open and periodic) equals the reference product of the requested exponentials applied to the initial state, with generators -i dt frac * term(bond). "
         "(d) Arbitrary-geometry TEBDGen sweeps (chain, triangle, star; every ordering kind; with / without second_order_reflect; three successive sweeps): one exponential per term per sweep in the "
         "requested ordering (mirrored with halved steps when reflecting), generators -(tau/factor) * term, the caller's ordering object unmodified.",
    note="Trusted: z3, qv engines, LAPACK contracts. (b) replaces MPS and gate cache by recorders; (c) treats expm as uninterpreted per generator (real scipy expm in the numeric cross-run). "
         "Outside: convergence-rate measurements, err estimate, truncation, 2D/3D simple update beyond the Hamiltonian object.",
    design="3/C11",
)
CHECKS["C17"] = dict(
    technique="concolic symbolic execution (z3) of the real selection / sorting / windowing / dispatch / block-finding code of quimb.linalg on symbolic spectra; LAPACK and scipy iterative solvers replaced by contract stubs or recorders; certificates for norm / sqrtm / expm identities",
    text="Bounded symbolic model checking of the wrapper logic around the eigen/singular solvers: for symbolic spectra (n <= 5, ties included), symbolic targets and window parameters, every "
         "documented selection rule, k, sort and vector option, the real code returns exactly an extremal k-subset of the solver's spectrum in the documented order with each vector paired to "
         "its value; backend choice is proved against its rule for all sizes d and k (symbolic integers), argument forwarding and fallback for every backend name; block shortcuts return the union of "
         "per-block spectra with embedded vectors; the block finder is checked exhaustively up to d = 5; norm / sqrtm(herm) / expm(herm) identities modulo the eigh/svd contracts.",
    note="Trusted: z3, qv engines, contract stubs (eigh ascending/orthonormal, svd, general eig, generalised eigh), recorders in quimb's solver tables. Outside (FFI): whether LAPACK/ARPACK/LOBPCG/SLEPc "
         "return genuine eigenpairs (sampled numerically at n = 6 only), shift-invert inside scipy, rounding/convergence, randomized estimators, ordering of complex eigenvalues, SLEPc/MPI paths.",
    design="3/C17",
)

CHECKS["C06"] = dict(
    technique="symbolic tensor execution of the real gating routines on symbolic states and symbolic non-unitary complex gates; z3 identity queries for lazy/eager modes, LAPACK contract stubs + certificates for split modes",
    text="Bounded symbolic model checking: for MPS (L = 3, open and periodic), a 4-node graph state, a 2x2 PEPS and an MPO, one-, two- and three-site symbolic gates (matrix and tensor form, mixed "
         "physical dimensions) on every ordered target tuple incl. reversed and non-adjacent, in every contract mode the geometry accepts (False, True, split, reduce-split, split-gate, "
         "swap-split-gate, auto-split-gate, swap+split, auto-mps, gate_split, gate_with_auto_swap; nonlocal / sub-MPO in the thorough tier), with transpose / dagger and upper / lower / sandwich "
         "application to operators, the dense result equals (gate embedded on the targets in the given order) times the dense input for all entry values; outer labels, site tags and MPS form "
         "are preserved; tag propagation follows the documented options; Tensor.gate and gate_inds_with_tn likewise.",
    note="Trusted: z3, qv engines, LAPACK contracts (split modes; real entries there). Numeric cross-run only (certificate search gave no verdict within 400 CPU s): split / reduce-split of a "
         "pair on the 4-node graph, nonlocal / gate_nonlocal / gate_with_submpo on MPS, PEPS D = 2 split modes, non-adjacent gate_simple pairs. Outside: truncating calls, PTensor gates, block-sparse arrays, 3D, simple-update gauges beyond value preservation.",
    design="3/C06",
)

CHECKS["C07"] = dict(
    technique="symbolic tensor execution of the real gate builders and circuit simulators with symbolic gate parameters (cos/sin/exp generators) and symbolic raw gates; z3 identity queries; LAPACK contract stubs + certificates for the MPS simulators",
    text="Bounded symbolic model checking: every registered constant and parametrized gate builder is unitary for all parameter values (symbolic half-angle generators) and satisfies its defining "
         "relations; on 3 qubits, ten gate programs (constant, parametrized, reversed / distant two-qubit, SWAP / IDEN specials, idle wires, controlled and multi-controlled, raw symbolic matrices) "
         "run through Circuit in every gate_contract mode and CircuitDense, and through CircuitMPS / CircuitPermMPS with cutoff 0: to_dense, amplitudes, unitary, partial traces (site order), "
         "local expectations (light cones), marginals equal the reference U_n...U_1|0> for all parameter and matrix values, or the gate is rejected by raising; histories interleaving "
         "queries with further gates and parameter updates give the same answers as a fresh circuit (no stale caches). Samplers are cross-run numerically only.",
    note="Trusted: z3, qv engines, LAPACK contracts (MPS simulators; real entries there), float constants of numeric gate splitting identified up to 64 ulp. Outside: truncation, PEPS/PEPO simulators, "
         "simplification passes inside queries (C04), sample statistics, more than 3 qubits, gate_contract=True unitary extraction (rejected by the library by raising).",
    design="3/C07",
)

CHECKS["C13"] = dict(
    technique="symbolic tensor execution of every local-expectation / reduced-density-matrix / norm route on symbolic complex tensor entries; z3 identity queries on cross-multiplied ratios; LAPACK contract stubs + certificates for canonical and boundary routes",
    text="Bounded symbolic model checking: on path, ring, star and hyper-index networks (3-4 sites, bond 2, mixed physical dimensions), MPS L=3 (4 thorough), PEPS 2x2 / 3x2, PEPS3D 2x2x2, MPO and PEPO "
         "operators, every route (exact, cluster with spanning clusters, generalized / simple loop expansions spanning the ring, MPS environments and canonical-form shortcuts with the recorded "
         "centre, PEPS boundary modes without truncation) returns <psi|G|psi>/<psi|psi> (or the documented un-normalized / separate pair) and the reduced density matrix of the dense state, "
         "for all tensor entries, full non-symmetric complex operators, single sites and adjacent / non-adjacent / reversed pairs.",
    note="Trusted: z3, qv engines, LAPACK contracts. Outside: truncating bond caps and cutoffs, clusters / loops that do not span the network, random sampling routes, rounding. One known finding (global loop normalization).",
    design="3/C13",
)

CHECKS["C09"] = dict(
    technique="symbolic tensor execution of the real MPS/MPO constructors, conversions, arithmetic and 1D compression drivers on symbolic entries; z3 identity queries; LAPACK contract stubs (qr/svd/eigh) + hypothesis-elimination certificates checked in QF_LRA",
    text="Bounded symbolic model checking: for chains of L = 2-4 (5 for generators) with bond 1-2 and site-dependent physical dimensions, open and periodic, in every array layout: "
         "constructors (incl. site subsets), from_dense / to_dense, sums, products, apply / gate_with_mpo, identity and product builders, fill_empty_sites, partial_trace_to_mpo and Schmidt / "
         "entropy routines denote the dense objects they document for all entry values; direct, dm and zipup compression (both sweep directions, MPS / sum / two-layer / MPO inputs) is exact "
         "when the cap is not binding, respects a binding cap, and the reported truncation error equals the norm of what was discarded; options incl. normalize with sweep_reverse; "
         "partial_trace_to_dense_canonical / local_expectation_canonical on ascending and non-ascending site tuples equal the dense partial trace in the requested site order.",
    note="Trusted: z3, qv engines, LAPACK contracts. Outside: iterative / randomised compression methods (numeric cross-run only), rounding, Hamiltonian builders, other backends, L = 1.",
    design="3/C09",
)

CHECKS["C03"] = dict(
    technique="reflection over the real class hierarchy for (f, f_) partialmethod pairs and binary operators; symbolic tensor execution of each method on object arrays of polynomial entries with before/after deep fingerprints; z3 identity queries and certificates (LAPACK stubs memoised as functions)",
    text="Bounded symbolic model checking: for all 147 reflected (f, f_) pairs and 5 inherited pairs whose spellings resolve to different functions (107 on symbolic entries, 40 iterative / "
         "truncating / RNG / dtype methods on concrete data), on rank-3 tensors, 3-tensor loop / chain / multibond / hyper-index networks, 3-site MPS / MPO, 2x2 PEPS / PEPO, small 2D / 3D "
         "lattices: the plain spelling leaves receiver, earlier copies and arguments unchanged (structure, array identity and content), returns what f_ returns on a copy, and every stored-axis "
         "permutation of the tensors involved (all 5 on tensors; reversal / rolls on networks) gives the same labelled result; binary operators align by label.",
    note="Trusted: z3, qv engines, LAPACK contracts. Outside: argument values beyond the 1-3 tuples per method in the table, larger receivers, rounding. One known finding (isometrize column order).",
    design="3/C03",
)

CHECKS["C14"] = dict(
    technique="symbolic tensor execution of the real belief-propagation classes and entry points on symbolic positive / real / complex entries; every normalising division is a defined inverse whose denominators the decision procedure clears (rational-function identities); sign forks (SX) for abs() on real data; eigh/svd contract stubs + certificates for BP gauging and compression",
    text="Bounded symbolic model checking: on acyclic networks (paths of 3-4, star of 4, forests incl. isolated sites and scalar tensors, open legs for the hyper flavours, a label on 3 tensors, lazy sites with inner tensors, states with physical legs; bond 2, 3 for the "
         "1-norm dense / hyper flavours; <= 5 tensors), after diameter + 1 rounds every flavour's contract() / contract_*bp equals the exact value or <psi|psi>, every converged message is "
         "proportional to the exact cavity contraction, index / tensor marginals and BP reduced density matrices times the exact normaliser equal the exact unnormalised marginals, for all "
         "entry values; results are independent of update order, local_convergence, normalisation and (symbolic) initial messages, damping leaves a fixed point fixed and every flavour calls the damping function as (old, new); untruncated BP gauging "
         "and compression leave the dense state unchanged; tree region counting numbers combined by combine_local_contractions reproduce the value.",
    note="Trusted: z3, qv engines, eigh/svd contracts, the square-matrix inverse lemma (Pr Pl = I => Pl Pr = I). Symbolic runs use the documented callable distance=, smudge_factor=0 and dict "
         "messages; library defaults run numerically. Numeric only: contract() on real signed data beyond ~5 regions, signed / complex 2-norm states, D2BP on 4 connected tensors, "
         "contract_gloop_expand. Outside: loopy graphs, sampling, diis, get_gauged_tn, convergence speed, rounding.",
    design="3/C14",
)

CHECKS["C04"] = dict(
    technique="symbolic tensor execution of every gauging / canonization / simplification rewrite on object arrays of polynomial entries; dense tensor over the same outer labels (independent sum-of-products reference times 10**exponent) compared before and after by z3 (QF_LRA identities with denominators of 1/det and 1/norm cleared); QR/SVD/eigh-based rewrites by linear Nullstellensatz certificates modulo LAPACK contract stubs; structured tensors with literal zeros make the array_ops structure finders fire under plain Python",
    text="Bounded symbolic model checking: on small networks (<= 5 tensors, dims <= 3; chains, a triangle, rings, multibonds, size-1 dimensions, hyper-indices, a symbolic stored exponent; exactly "
         "diagonal / anti-diagonal / single-column / COPY tensors) gauge insertion and removal, canonization of bonds and regions, untruncated compression, fusing, squeezing, exponent and norm "
         "equalization, hyper-index resolution, every simplification pass and 294 ordered pairs / 23 longer compositions of them keep the denoted tensor over the same outer labels for all entry "
         "values; tensors flagged through left_inds are isometries, canonical regions are isometric towards the centre, requested norms are met.",
    note="Trusted: z3, qv engines, LAPACK contracts (positive singular values, positive R diagonal), non-zero norms and determinants, finder-inspected entries bounded away from atol. "
         "Numeric-only supplements (labelled): 65 heavy (geometry, option) cells, balance_bonds on generic tensors, gauge_all_random, low-rank split_simplify. Outside: truncating calls, "
         "effectiveness of the passes, belief-propagation gauging (C14), contract_compressed (C12). Three known findings (squeeze default, hyper index + pairwise sweeps, canonize_around through a hyper index).",
    design="3/C04",
)

CHECKS["C12"] = dict(
    technique="symbolic tensor execution of the real boundary / compressed contraction schemes on symbolic lattices with QR / SVD / eigh contract stubs; exactness by linear Nullstellensatz certificates (hypothesis elimination + polynomial reduction, checked by z3 QF_LRA) against an independent sum-of-products value; bond-cap goals on shapes with contract-free stubs; environments by sandwich identities",
    text="Bounded symbolic model checking: on flat 2D lattices 3x2 ... 4x3 (3x3 every bond 2, 4x4 numerically), layered <psi|psi> networks, 3x2x2 3D lattices, periodic 4x3 lattices and "
         "small arbitrary graphs (every connected contraction path of a 4-ring), with the bond cap at or above the exact bond and cutoff 0, every boundary contraction side / sequence / mode / "
         "canonize / equalize option, the direction wrappers, HOTRG / CTMRG on product-cut instances, contract_compressed, contract_around and the arbitrary-geometry compressors return the "
         "exact contraction value for all entry values; every stored row / column / plaquette environment combined with the part it excludes contracts to the whole; with a cap below the "
         "exact bond every compressed bond is within the cap after every step and in the network handed over by final_contract=False.",
    note="Trusted: z3, qv engines, LAPACK contracts (positive singular values / Gram spectra), max-abs factor = arbitrary positive factor. Numeric cross-run only: projector-type schemes on "
         "instances whose compressed cuts carry bond 2 (their building blocks are certified symbolically), schemes iterating to a tolerance, contract_compressed where a compression meets a "
         "rank-2 bond. Outside: non-zero cutoffs, quality of truncated results, hyper-indexed networks, lattices beyond 4x4 / 4x2x2, bond > 2.",
    design="3/C12",
)

NA = {}

# third round: what was added per property (appended to the level note; obligations labelled numeric-only are supplements on
# the real code with float data and are NOT part of the symbolic claim)
ROUND3 = {
    "C01": "degenerate networks (single tensor, lone scalar, outer product); 'network untouched / repeated evaluation' goals",
    "C03": "network sums with the stored axes of either operand permuted independently and with stored exponents on either operand",
    "C04": "one step from an arbitrary flagged isometry under every tensor-level method (symbolic); graded singular values against default cutoffs (numeric-only)",
    "C06": "every MPS gate entry point on mixed-dimension chains for every ordered site tuple; gate_with_mpo / submpo / nonlocal x transpose x method x inplace (symbolic for contract False/True and lazy, numeric-only for factorising entries)",
    "C07": "PEPS / PEPO simple-update circuit classes on tree geometries (numeric-only)",
    "C08": "consumer family on complex canonical states (symbolic); all-pairs swaps, nonlocal-gate option grid, circuit copy independence and dtype= queries (numeric-only)",
    "C09": "SpinHam1D term lists and named Hamiltonian generators against an independent dense sum (tables compared by evaluation)",
    "C10": "DMRG2 bond_compress_method x sweep sequence x cap grid (numeric-only)",
    "C11": "LocalHam2D / LocalHam3D term assembly (symbolic); histories of evolve / read / assign state on one simple-update driver incl. update='parallel' (numeric-only)",
    "C12": "around= targets on unequal-sided 2D / 3D lattices (structure symbolic, values numeric-only); rank-deficient bonds x mode x canonize (numeric-only)",
    "C13": "normalize() of 2D vector networks with extra tensors; canonical routes without a record on states canonical up to scalars (numeric-only)",
    "C14": "normalize_tensors then reads from the same D1BP object (symbolic, sign forks); sequences of value reads from one D1BP / D2BP / HD1BP object incl. hyper regions and stored exponents (numeric-only)",
    "C17": "every history of <= 3 scalings of a Lazy operator with symbolic factors",
}
SECOND_SOLVER = "; every deciding linear query (identity, certificate, certificate consistency) and the first pruned branches of every concolic exploration are re-decided by a second solver (cvc5) from the SMT-LIB text z3 exports, disagreement = inconclusive"


def main():
    checks = []
    for pid in ALL:
        if pid not in CHECKS:
            continue
        c = CHECKS[pid]
        checks.append({
            "property_id": pid,
            "quick_cmd": f"./check {pid} --tier quick",
            "thorough_cmd": f"./check {pid} --tier thorough",
            "evidence_file": f"/verif/evidence/{pid}.json",
            "replay_cmd_template": f"./check {pid} --replay {{path}}",
            "engine": "qv",
            "level_claimed": {"category": "model_checking", "text": c["text"], "design_ref": c["design"]},
            "level_note": c["note"] + (" Third-round additions: " + ROUND3[pid] + "." if pid in ROUND3 else ""),
            "technique": c["technique"] + SECOND_SOLVER,
        })
    na = [{"property_id": p, "reason": NA.get(p, "check not built yet in this round (planned, see DESIGN.md section 3)")}
          for p in ALL if p not in CHECKS]
    m = {
        "version": 1,
        "setup_cmd": "./setup.sh",
        "hooks": {
            "guard": "QUIMB_VERIF",
            "enable": "no source hooks are needed: checks import /repo live with NUMBA_DISABLE_JIT=1 (set by ./check) so @njit kernels run as their Python source",
            "baseline_off_cmd": "cd /repo && /venv/bin/python -m pytest -ra -q -p no:cacheprovider --timeout=900 --continue-on-collection-errors",
            "source_commits": [],
            "add_only": True,
        },
        "engines": [
            {"name": "qv", "path": "/verif/qv", "serves_properties": [c["property_id"] for c in checks],
             "kind_free_text": "SX: concolic executor over z3 (SymInt/SymRat/SymReal/SymBV, forking __bool__, DFS by re-execution); "
                               "ST: symbolic tensor algebra (polynomial scalars in numpy object arrays driven through the real quimb code, "
                               "LAPACK calls replaced by contract stubs) decided by z3 (QF_LRA identity over monomial atoms, QF_NRA cross-check, "
                               "linear Nullstellensatz certificates under stub contracts); counterexamples replayed numerically on the un-stubbed code"},
        ],
        "checks": checks,
        "not_applicable": na,
        "notes": "Exit codes of ./check: 0 pass, 1 reproduced violation (VIOLATION line), 3 harness error / inconclusive mandatory obligation. "
                 "Known findings: /verif/known_findings.txt.",
    }
    print(json.dumps(m, indent=1))


if __name__ == "__main__":
    main()
