"""C15 - Kronecker, embedding, permutation and partial-trace routines obey their algebra.

Value level (engine ST): every matrix / ket entry is a symbol (conj-pair complex); the REAL
``kron / ikron / pkron / permute / partial_trace / itrace / partial_transpose`` are executed on
object arrays of such symbols and compared, entry by entry as polynomial identities decided by
z3 (Q-ID), with explicit index-arithmetic references (``qv.ref`` and the loops below).

Integer level (engine SX): the row-ownership arithmetic of ``kron(..., ownership=(ri, rf))``
(``dynal``, ``gen_matching_dynal``, ``gen_ops_maybe_sliced``, the ``ri_got/rf_got/di/df``
correction) is executed on *symbolic* ``ri, rf``; ``dim_map`` on symbolic coordinates,
``dim_compress`` on symbolic subsystem dimensions.

Sparse inputs / Hamiltonian builders: scipy.sparse cannot hold symbolic scalars, so these run
on concrete exactly-representable (dyadic) entries while the *structural* inputs (ownership
range) stay solver-enumerated; the numeric cross-run repeats them on random entries.
"""
import itertools

import numpy as np
import scipy.sparse as sp

import quimb.core as qc
import quimb.calc as qcalc
import quimb.gen.operators as qops

from qv import poly as P
from qv import ref
from qv.harness import obligation

PROP = "C15"
META = {
    "bounds": {
        "quick": {
            "dims (value level)": "12 lists over {1,2,3} of length <= 3 (+ (2,1,3,2) for ikron), D <= 24; every index subset in every order",
            "entries": "all matrix / ket / bra entries symbolic (conj-pair complex)",
            "kron operands": "<= 3 factors, shapes over {1,2,3} incl. kets, bras, rectangular",
            "ownership (symbolic entries)": "ri, rf symbolic, every range 0 <= ri < rf <= D, D <= 12 (kron), D <= 12 (ikron)",
            "ownership arithmetic (recorder operands)": "ri, rf symbolic and NOT enumerated; 10 factor-dimension lists up to (13,2,7,3,10) and (2,)*6",
            "dim_map": "dims arrays of shape (3), (2,2), (3,2), (1,3), (2,2,2), (2,3,2); 2 coordinate tuples of unbounded symbolic integers; strict / cyclic / trim / cyclic+trim",
            "dim_compress": "n <= 3 subsystems, symbolic dims 2..6 (1..3 with a size-1 subsystem), every index subset",
            "sparse": "csr, csc, coo, bsr; fixed dyadic entries in symbolic mode (scipy.sparse cannot hold symbols), random entries in the numeric run; D <= 16",
            "hamiltonians": "ham_heis (+field, cyclic), ham_ising, ham_XY, ham_XXZ, ham_j1j2 (+cyclic), ham_mbl with n=3 (n=2 for one), ham_heis_2D 2x2 and 1x3: every range of rows",
        },
        "thorough": {
            "dims (value level)": "all 39 lists over {1,2,3} of length <= 3 plus (2,1,3,2), (2,2,2,2), (1,3,2,2); D <= 27; every index subset in every order",
            "kron operands": "<= 4 factors, D <= 27",
            "ownership (symbolic entries)": "every range, D <= 27 (kron), D <= 24 (ikron)",
            "ownership arithmetic (recorder operands)": "19 factor-dimension lists up to (2,)*10, ri, rf not enumerated",
            "dim_map": "adds shapes (5), (2,3), (2,1,2), (2,2,2,2)",
            "dim_compress": "n <= 4 for dims 2..6; n <= 3 with size-1 subsystems",
            "sparse": "adds 4-factor products (D = 16), (2,2,2,2) partial traces",
            "hamiltonians": "n = 4 for every builder, n = 5 for ham_heis with field and cyclic ham_j1j2, ham_heis_2D 2x2 cyclic",
        },
    },
    "outside": [
        "floating point rounding (identities are exact polynomial identities; sparse / Hamiltonian runs use exactly representable entries)",
        "scipy.sparse kernels on symbolic entries (object dtype unsupported): sparse inputs are checked on concrete entries only",
        "numba compilation of _kron_dense_numba (the Python source is what is executed); parallel=True reductions (C16)",
        "partial_transpose of sparse inputs (not supported by quimb: dense only)",
        "partial_trace of bras (documented domain: ket or density operator); the shape of permute(bra) (values checked only)",
        "ikron with one operator spread over NON-adjacent subsystems (not supported by ikron; pkron is checked instead); "
        "several multi-subsystem operators in one ikron call",
        "negative ('auto-place') dimensions in dim_compress; total dimension D = 1 for partial_trace / partial_transpose "
        "(a 1x1 array is both a ket and an operator)",
        "Hermiticity is required of sparse density operators (quimb's sparse partial trace fills the lower triangle by conjugation)",
        "correctness of the full Hamiltonians themselves (C19); here only rows-of-the-full-object",
    ],
    "assumptions": [
        "dtype shims (object arrays only): common_type(...) of symbolic arrays is `object`; qarray.astype(float/complex dtype) is the "
        "identity on exact symbolic scalars",
        "realify_scalar (dropping a numerically negligible imaginary part) is the identity on exact scalars (qv/stubs.py)",
        "partial_trace ignores the order of `keep` (subsystems stay in ascending order): quimb's own test "
        "test_partial_trace_order_doesnt_matter; ikron likewise sorts its indices",
        "a 1x1 operator given with several size-1 target subsystems is read by ikron as cyclic placement, not as an overlay",
        "symbolic ri, rf are concretised where the real code slices with them (solver-driven enumeration of every feasible range); "
        "lru_cache'd Hamiltonian builders need hashable ints, so ri, rf are concretised before the call",
    ],
}

# ---------------------------------------------------------------------- dtype shims
# quimb picks output dtypes by *name* (common_type) and casts with ``astype(complex)``; an object
# array of exact symbolic scalars has no such dtype.  The two shims below only trigger on
# ``dtype == object`` (like qv/stubs.py); numeric calls reach the genuine code unchanged.

_real_common_type = qc.common_type


def _common_type(*arrays):
    if any(getattr(a, "dtype", None) == object for a in arrays):
        return object
    return _real_common_type(*arrays)


def _qarray_astype(self, dtype, *a, **k):
    if self.dtype == object and np.dtype(dtype) != object:
        return self.copy()
    return np.ndarray.astype(self, dtype, *a, **k)


qc.common_type = _common_type
qc.qarray.astype = _qarray_astype


# ---------------------------------------------------------------------- references

def _same(mk, label, a, b):
    """structural equality stated through mk.check, so that a failure on a symbolic path carries
    the path's model (ri, rf, dims ...) into the replay"""
    ok = a == b
    mk.check(bool(ok), label if ok else f"{label}: {a!r} != {b!r}"[:300])


def prod(xs):
    r = 1
    for x in xs:
        r *= x
    return r


def _empty(shape, like):
    return np.empty(shape, dtype=object if np.asarray(like).dtype == object else np.asarray(like).dtype)


def _zero(like):
    return P.ZERO if np.asarray(like).dtype == object else np.asarray(like).dtype.type(0)


def flat(idx, dims):
    r = 0
    for i, d in zip(idx, dims):
        r = r * d + i
    return r


def multis(dims):
    return list(itertools.product(*[range(d) for d in dims]))


def proj(psi):
    """|psi><psi| of a ket given as (D,1) / (D,) array"""
    v = np.asarray(psi).reshape(-1)
    out = _empty((v.size, v.size), v)
    for i in range(v.size):
        for j in range(v.size):
            out[i, j] = v[i] * v[j].conjugate()
    return out


def ref_ptr(rho, dims, keep):
    """reduced operator on the subsystems in `keep` (a set; kept in ascending order)"""
    rho = np.asarray(rho)
    n = len(dims)
    keep = sorted(set(keep))
    lose = [i for i in range(n) if i not in keep]
    kd = [dims[i] for i in keep]
    ld = [dims[i] for i in lose]
    dk = prod(kd)
    out = _empty((dk, dk), rho)

    def full(kidx, lidx):
        idx = [0] * n
        for i, v in zip(keep, kidx):
            idx[i] = v
        for i, v in zip(lose, lidx):
            idx[i] = v
        return flat(idx, dims)

    for a in multis(kd):
        for b in multis(kd):
            tot = _zero(rho)
            for l in multis(ld):
                tot = tot + rho[full(a, l), full(b, l)]
            out[flat(a, kd), flat(b, kd)] = tot
    return out


def ref_permute(p, dims, perm):
    """new subsystem k is old subsystem perm[k]"""
    p = np.asarray(p)
    nd = [dims[k] for k in perm]
    D = prod(dims)
    mp = {}
    for i in multis(dims):
        mp[flat(i, dims)] = flat([i[k] for k in perm], nd)
    if p.ndim == 2 and p.shape == (D, D) and D > 1:
        out = _empty((D, D), p)
        for r in range(D):
            for c in range(D):
                out[mp[r], mp[c]] = p[r, c]
        return out
    v = p.reshape(-1)
    out = _empty((D,), p)
    for r in range(D):
        out[mp[r]] = v[r]
    return out


def ref_ptranspose(rho, dims, sysa):
    rho = np.asarray(rho)
    D = prod(dims)
    sysa = set(sysa)
    out = _empty((D, D), rho)
    for r in multis(dims):
        for c in multis(dims):
            R = [c[i] if i in sysa else r[i] for i in range(len(dims))]
            C = [r[i] if i in sysa else c[i] for i in range(len(dims))]
            out[flat(R, dims), flat(C, dims)] = rho[flat(r, dims), flat(c, dims)]
    return out


def ordered_subsets(n, rmin=1, rmax=None):
    rmax = n if rmax is None else rmax
    for r in range(rmin, rmax + 1):
        for s in itertools.permutations(range(n), r):
            yield s


# ---------------------------------------------------------------------- configurations

_ALL3 = [d for n in (1, 2, 3) for d in itertools.product((1, 2, 3), repeat=n)]
_QUICK_DIMS = [(2,), (3,), (2, 2), (2, 3), (3, 2), (1, 2), (2, 1), (2, 2, 2), (2, 3, 2), (3, 1, 2), (1, 2, 3), (2, 2, 3)]
_LEN4 = (2, 1, 3, 2)
_LEN4_MORE = [(2, 2, 2, 2), (1, 3, 2, 2)]


def _dims_params(extra_quick=(), skip=lambda d: False, len4_quick=False):
    out = []
    for d in _ALL3 + [_LEN4] + _LEN4_MORE:
        if skip(d):
            continue
        q = d in _QUICK_DIMS or d in extra_quick or (len4_quick and d == _LEN4)
        out.append({"dims": d, "_tiers": ("quick", "thorough") if q else ("thorough",)})
    return out


def _site_ops(mk, dims, name="A"):
    return [mk.array(f"{name}{s}", (d, d), "cplx") for s, d in enumerate(dims)]


# ---------------------------------------------------------------------- kron

_KRON_SHAPES = {
    "op2x3": [(2, 2), (3, 3)],
    "op3x2": [(3, 3), (2, 2)],
    "op222": [(2, 2), (2, 2), (2, 2)],
    "op213": [(2, 2), (1, 1), (3, 3)],
    "op1": [(3, 3)],
    "kets23": [(2, 1), (3, 1)],
    "kets322": [(3, 1), (2, 1), (2, 1)],
    "bras23": [(1, 2), (1, 3)],
    "rect": [(2, 3), (3, 2)],
    "rect3": [(1, 2), (2, 1), (2, 2)],
    "ketop": [(2, 1), (2, 2)],
    "op2132": [(2, 2), (1, 1), (3, 3), (2, 2)],
    "op333": [(3, 3), (3, 3), (3, 3)],
}
_KRON_QUICK = ("op2x3", "op222", "op213", "op1", "kets23", "bras23", "rect", "rect3", "ketop")


@obligation(PROP, params=[{"shapes": k, "_tiers": ("quick", "thorough") if k in _KRON_QUICK else ("thorough",)}
                          for k in _KRON_SHAPES], exc_is_violation=True)
def kron_explicit(mk, shapes):
    """kron(*ops) / a & b / kronpow == explicit Kronecker product (operators, kets, bras, rectangular)"""
    mk.encodes(qc.kron, qc._kron_core, qc.kron_dispatch, qc.kron_dense, qc._kron_dense_numba, qc.kronpow)
    ops = [mk.array(f"K{i}", s, "cplx") for i, s in enumerate(_KRON_SHAPES[shapes])]
    want = ref.kron(*ops)
    got = qc.kron(*ops)
    _same(mk, "shape", tuple(got.shape), tuple(want.shape))
    mk.eq("kron(*ops)", got, want)
    if len(ops) >= 2:
        acc = qc.qarray(ops[0])
        for o in ops[1:]:
            acc = acc & qc.qarray(o)
        mk.eq("a & b & ...", acc, want)
        # associativity with the pairwise kernel, both bracketings
        mk.eq("kron(a, kron(rest))", qc.kron(ops[0], qc.kron(*ops[1:])), want)
        mk.eq("kron(kron(init), z)", qc.kron(qc.kron(*ops[:-1]), ops[-1]), want)
        # the parallel= option (pairwise tree reduction over a thread pool; the reduction itself is C16's subject) must not
        # change the product, whatever the number of factors (odd counts leave an unpaired factor at some level)
        for par in (True, 2, 3):
            mk.eq(f"kron(*ops, parallel={par}) == kron(*ops)", qc.kron(*ops, parallel=par), want)
    mk.eq("kronpow(a, 2)", qc.kronpow(ops[0], 2), ref.kron(ops[0], ops[0]))
    if prod(ops[0].shape) <= 4:
        mk.eq("kronpow(a, 3)", qc.kronpow(ops[0], 3), ref.kron(ops[0], ops[0], ops[0]))


# ---------------------------------------------------------------------- ikron

def _ikron_want(dims, placed, like):
    mats = [placed.get(s, None) for s in range(len(dims))]
    mats = [m if m is not None else ref.eye(dims[s], like=like) for s, m in enumerate(mats)]
    return ref.kron(*mats)


@obligation(PROP, params=_dims_params(len4_quick=True), exc_is_violation=True)
def ikron_sites(mk, dims):
    """ikron(ops, dims, inds): one operator per index, inds in every order; a bare operator with
    an integer index; fewer operators than indices (cyclic placement)"""
    mk.encodes(qc.ikron, qc.kron, qc.identity, qc._identity_dense, qc.kron_dense)
    n = len(dims)
    A = _site_ops(mk, dims)
    for s in range(n):
        want = _ikron_want(dims, {s: A[s]}, A[s])
        mk.eq(f"ikron(A{s}, {dims}, {s})", qc.ikron(A[s], dims, s), want)
        mk.eq(f"ikron([A{s}], {dims}, [{s}])", qc.ikron([A[s]], list(dims), [s]), want)
    for inds in ordered_subsets(n, 2):
        ops = [A[s] for s in inds]
        want = _ikron_want(dims, dict(zip(inds, ops)), A[0])
        mk.eq(f"ikron(ops, {dims}, {inds})", qc.ikron(ops, dims, inds), want)
        # cyclic placement of m < len(inds) operators: index j receives ops[j % m]
        for m in range(1, len(inds)):
            if all(dims[inds[j]] == dims[inds[j % m]] for j in range(len(inds))):
                placed = {inds[j]: ops[j % m] for j in range(len(inds))}
                want = _ikron_want(dims, placed, A[0])
                arg = ops[0] if m == 1 else ops[:m]
                mk.eq(f"ikron cyclic m={m} {dims} {inds}", qc.ikron(arg, dims, inds), want)


def _blocks(n):
    for i in range(n):
        for j in range(i + 1, n):
            yield tuple(range(i, j + 1))


@obligation(PROP, params=_dims_params(len4_quick=True, skip=lambda d: len(d) < 2), exc_is_violation=True)
def ikron_overlay(mk, dims):
    """one operator overlaid on several adjacent subsystems (indices in any order), and `-1`
    auto-sized placement"""
    mk.encodes(qc.ikron, qc.kron)
    n = len(dims)
    ops = {}
    for blk in _blocks(n):
        k = prod(dims[s] for s in blk)
        if k == 1:
            # a 1x1 operator on several size-1 subsystems also fits every single one of them: ikron
            # reads that as cyclic placement (checked in ikron_sites), not as an overlay
            continue
        if k not in ops:
            ops[k] = mk.array(f"O{k}", (k, k), "cplx")
        want = ref.embed(ops[k], dims, blk)
        perms = list(itertools.permutations(blk))
        if len(perms) > 6:
            perms = perms[::5]
        for inds in perms:
            mk.eq(f"overlay {dims} {inds}", qc.ikron(ops[k], dims, list(inds)), want)
    # auto-size: a -1 dimension takes whatever size the operator has
    for s in range(n):
        k = dims[s] + 1
        B = mk.array(f"B{k}", (k, k), "cplx")
        d2 = list(dims)
        d2[s] = -1
        d3 = list(dims)
        d3[s] = k
        mk.eq(f"autosize {d2} at {s}", qc.ikron(B, d2, s), ref.embed(B, d3, (s,)))


# ---------------------------------------------------------------------- pkron

@obligation(PROP, params=_dims_params(len4_quick=False), exc_is_violation=True)
def pkron_embed(mk, dims):
    """pkron(op, dims, inds) == op acting on dims[inds] in that order (any order, non-adjacent)"""
    mk.encodes(qc.pkron, qc.ikron, qc.permute, qc._permute_dense)
    n = len(dims)
    ops = {}
    for inds in ordered_subsets(n):
        k = prod(dims[s] for s in inds)
        if k not in ops:
            ops[k] = mk.array(f"Q{k}", (k, k), "cplx")
        mk.eq(f"pkron {dims} {inds}", qc.pkron(ops[k], dims, inds), ref.embed(ops[k], dims, inds))
        mk.eq(f"pkron {dims} {inds} (lists)", qc.pkron(ops[k], list(dims), list(inds)), ref.embed(ops[k], dims, inds))


# ---------------------------------------------------------------------- permute

@obligation(PROP, params=_dims_params(len4_quick=False, skip=lambda d: len(d) < 2), exc_is_violation=True)
def permute_explicit(mk, dims):
    """permute(p, dims, perm) for operators, kets, bras == explicit index permutation;
    permute o ikron == ikron on the permuted subsystems; ket vs projector"""
    mk.encodes(qc.permute, qc._permute_dense, qc.ikron)
    n = len(dims)
    D = prod(dims)
    M = mk.array("M", (D, D), "cplx")
    psi = mk.array("psi", (D, 1), "cplx")
    bra = mk.array("phi", (1, D), "cplx")
    A = _site_ops(mk, dims)
    for perm in itertools.permutations(range(n)):
        nd = tuple(dims[k] for k in perm)
        got = qc.permute(M, dims, perm)
        _same(mk, f"op shape {perm}", tuple(got.shape), (D, D))
        mk.eq(f"permute(op, {dims}, {perm})", got, ref_permute(M, dims, perm))
        gk = qc.permute(psi, dims, list(perm))
        _same(mk, f"ket shape {perm}", tuple(gk.shape), (D, 1))
        mk.eq(f"permute(ket, {dims}, {perm})", gk, ref_permute(psi, dims, perm))
        mk.eq(f"permute(bra, {dims}, {perm}) values", qc.permute(bra, dims, perm), ref_permute(bra, dims, perm))
        if D > 1:
            mk.eq(f"permute(|psi><psi|) == |permute psi><..| {perm}", qc.permute(proj(psi), dims, perm), proj(gk))
        # inverse permutation undoes it
        inv = tuple(perm.index(k) for k in range(n))
        mk.eq(f"permute(permute(op, perm), inv) {perm}", qc.permute(got, nd, inv), M)
        if D > 1:
            for s in range(n):
                E = qc.ikron(A[s], dims, s)
                mk.eq(f"permute(ikron(A{s})) {perm}", qc.permute(E, dims, perm), qc.ikron(A[s], nd, perm.index(s)))
                mk.eq(f"permute(ikron(A{s})) {perm} vs embed", qc.permute(E, dims, perm), ref.embed(A[s], nd, (perm.index(s),)))
            if n >= 2:
                E = qc.ikron([A[0], A[n - 1]], dims, [0, n - 1])
                mk.eq(f"permute(ikron([A0,A{n - 1}])) {perm}", qc.permute(E, dims, perm),
                      qc.ikron([A[0], A[n - 1]], nd, [perm.index(0), perm.index(n - 1)]))


# ---------------------------------------------------------------------- partial trace

def _keeps(n):
    yield ()
    for s in ordered_subsets(n):
        yield s


@obligation(PROP, params=_dims_params(len4_quick=False, skip=lambda d: prod(d) == 1), exc_is_violation=True)
def partial_trace_explicit(mk, dims):
    """partial_trace(p, dims, keep) for density operators and kets, keep subsets in any order"""
    mk.encodes(qc.partial_trace, qc._partial_trace_dense, qc.itrace, qc.ind_complement)
    n = len(dims)
    D = prod(dims)
    rho = mk.array("rho", (D, D), "cplx")
    psi = mk.array("psi", (D, 1), "cplx")
    pp = proj(psi)
    for keep in _keeps(n):
        want = ref_ptr(rho, dims, keep)
        got = qc.partial_trace(rho, dims, list(keep))
        _same(mk, f"shape keep={keep}", tuple(got.shape), tuple(want.shape))
        mk.eq(f"ptr(rho, {dims}, {keep})", got, want)
        wk = ref_ptr(pp, dims, keep)
        mk.eq(f"ptr(ket, {dims}, {keep}) == ptr(projector)", qc.partial_trace(psi, dims, keep), wk)
        mk.eq(f"ptr(projector, {dims}, {keep})", qc.partial_trace(pp, list(dims), keep), wk)
        if len(keep) == 1:
            mk.eq(f"ptr(rho, {dims}, {keep[0]}) int keep", qc.partial_trace(rho, dims, keep[0]), want)
            mk.eq(f"qarray.ptr int keep {keep[0]}", qc.qarray(psi).ptr(dims, keep[0]), wk)
    mk.eq("ptr(1-D ket)", qc.partial_trace(psi.reshape(-1), dims, 0), ref_ptr(pp, dims, (0,)))


@obligation(PROP, params=_dims_params(len4_quick=False, skip=lambda d: prod(d) == 1), exc_is_violation=True)
def ptr_adjoint_of_embedding(mk, dims):
    """Tr[embed(A, keep) rho] == Tr[A ptr(rho, keep)] for symbolic A, rho; <psi|embed(A)|psi> for kets"""
    mk.encodes(qc.partial_trace, qc.pkron, qc.ikron, qc.expectation, qc.trace, qc._trace_dense)
    n = len(dims)
    D = prod(dims)
    rho = mk.array("rho", (D, D), "cplx")
    psi = mk.array("psi", (D, 1), "cplx")
    ops = {}
    for r in range(1, n + 1):
        for keep in itertools.combinations(range(n), r):
            k = prod(dims[s] for s in keep)
            if k not in ops:
                ops[k] = mk.array(f"A{k}", (k, k), "cplx")
            A = ops[k]
            red = qc.partial_trace(rho, dims, keep)
            rhs = ref.trace(ref.matmul(A, red))
            E = qc.pkron(A, dims, keep)
            mk.eq(f"Tr[pkron(A,{keep}) rho] == Tr[A ptr(rho,{keep})]", ref.trace(ref.matmul(E, rho)), rhs)
            mk.eq(f"expec(pkron(A,{keep}), rho)", qc.expectation(E, rho), rhs)
            contiguous = list(keep) == list(range(keep[0], keep[-1] + 1))
            if contiguous and (k > 1 or len(keep) == 1):   # (1x1 on several size-1 sites = cyclic placement)
                E2 = qc.ikron(A, dims, list(keep))
                mk.eq(f"Tr[ikron(A,{keep}) rho] == Tr[A ptr(rho,{keep})]", qc.trace(E2 @ rho), rhs)
            # reversed keep: same reduced state (set semantics), same identity
            red2 = qc.partial_trace(rho, dims, keep[::-1])
            mk.eq(f"Tr[A ptr(rho, reversed {keep})]", ref.trace(ref.matmul(A, red2)), rhs)
            redk = qc.partial_trace(psi, dims, keep)
            want_k = ref.matmul(ref.dag(psi), ref.matmul(E, psi))
            mk.eq(f"<psi|pkron(A,{keep})|psi> == Tr[A ptr(psi)]", ref.trace(ref.matmul(A, redk)), want_k)
            mk.eq(f"expec(psi, pkron(A,{keep}))", qc.expectation(psi, E), want_k)


# ---------------------------------------------------------------------- nested dims + coordinates

_C2D = {
    "2x2a": [[2, 1], [3, 2]],
    "2x2b": [[2, 3], [2, 2]],
    "np2x2": np.array([[2, 2], [2, 2]]),
    "3x2": [[2, 1], [1, 2], [2, 1]],
    "3d": [[[2, 1], [2, 1]], [[1, 2], [1, 3]]],
}


@obligation(PROP, params=[{"case": c, "_tiers": ("quick", "thorough") if c in ("2x2a", "np2x2", "3x2") else ("thorough",)} for c in _C2D],
            exc_is_violation=True)
def nested_dims_coordinates(mk, case):
    """ikron / partial_trace with multi-dimensional `dims` and coordinate tuples == the flat
    (row-major) subsystem list"""
    mk.encodes(qc.ikron, qc.partial_trace, qc.dim_map, qc._dim_map_2d, qc._dim_map_nd, qc._find_shape_of_nested_int_array)
    dims = _C2D[case]
    arr = np.asarray(dims)
    shape = arr.shape
    fd = tuple(int(x) for x in arr.reshape(-1))
    D = prod(fd)
    coords = list(itertools.product(*[range(s) for s in shape]))
    A = _site_ops(mk, fd)
    rho = mk.array("rho", (D, D), "cplx")
    psi = mk.array("psi", (D, 1), "cplx")
    pp = proj(psi)
    for c in coords:
        f = flat(c, shape)
        mk.eq(f"ikron(A, nested, [{c}])", qc.ikron(A[f], dims, [c]), _ikron_want(fd, {f: A[f]}, A[f]))
        mk.eq(f"ptr(rho, nested, [{c}])", qc.partial_trace(rho, dims, [c]), ref_ptr(rho, fd, (f,)))
    pairs = list(itertools.permutations(coords, 2))
    if len(pairs) > 12:
        pairs = pairs[::5]
    for c1, c2 in pairs:
        f1, f2 = flat(c1, shape), flat(c2, shape)
        mk.eq(f"ikron([A,B], nested, [{c1},{c2}])", qc.ikron([A[f1], A[f2]], dims, [c1, c2]),
              _ikron_want(fd, {f1: A[f1], f2: A[f2]}, A[f1]))
        mk.eq(f"ptr(rho, nested, [{c1},{c2}])", qc.partial_trace(rho, dims, [c1, c2]), ref_ptr(rho, fd, (f1, f2)))
        mk.eq(f"ptr(ket, nested, [{c1},{c2}])", qc.partial_trace(psi, dims, [c1, c2]), ref_ptr(pp, fd, (f1, f2)))


# ---------------------------------------------------------------------- itrace

_ITRACE = {
    "pair": ((2, 3, 2), (0, 2)),
    "pair_rev": ((2, 3, 2), (2, 0)),
    "pair4": ((2, 3, 3, 2), (1, 2)),
    "list1": ((3, 2, 3), ([0], [2])),
    "multi": ((2, 3, 2, 3), ([0, 1], [2, 3])),
    "multi_rev": ((2, 3, 2, 3), ([1, 0], [3, 2])),
    "multi_cross": ((2, 3, 3, 2), ([0, 1], [3, 2])),
    "multi_mixed": ((2, 3, 2, 2, 3), ([4, 0], [1, 2])),
    "multi_keep": ((2, 2, 3, 2, 2, 3), ([0, 2], [3, 5])),
    "multi_keep2": ((2, 2, 3, 2, 2, 3), ([4, 0], [1, 3])),
    "triple": ((2, 1, 3, 2, 1, 3), ([2, 0, 1], [5, 3, 4])),
    "second_before_first": ((2, 3, 2, 3, 2), ([3, 2], [1, 0])),
}


@obligation(PROP, params=[{"case": k} for k in _ITRACE], exc_is_violation=True)
def itrace_explicit(mk, case):
    """itrace(a, axes) == explicit sum over the paired axes, remaining axes in order"""
    mk.encodes(qc.itrace)
    shape, axes = _ITRACE[case]
    T = mk.array("T", shape, "cplx")
    if isinstance(axes[0], int):
        pairs = [(axes[0], axes[1])]
    else:
        pairs = list(zip(*axes))
    labels = [f"k{i}" for i in range(len(shape))]
    for q, (a, b) in enumerate(pairs):
        labels[a] = labels[b] = f"t{q}"
    out = tuple(l for l in labels if l.startswith("k"))
    want = ref.sum_of_products([(T, tuple(labels))], out)
    got = qc.itrace(T, axes)
    _same(mk, "shape", tuple(np.shape(got)), tuple(want.shape))
    mk.eq(f"itrace({shape}, {axes})", got, want)


# ---------------------------------------------------------------------- partial transpose

@obligation(PROP, params=_dims_params(len4_quick=False, skip=lambda d: prod(d) == 1), exc_is_violation=True)
def partial_transpose_explicit(mk, dims):
    """partial_transpose(rho, dims, sysa) == explicit index transposition; involution; kets"""
    mk.encodes(qcalc.partial_transpose, qc.quimbify)
    n = len(dims)
    D = prod(dims)
    rho = mk.array("rho", (D, D), "cplx")
    psi = mk.array("psi", (D, 1), "cplx")
    pp = proj(psi)
    mk.eq("sysa=() is the identity", qcalc.partial_transpose(rho, dims, ()), rho)
    for sysa in ordered_subsets(n):
        want = ref_ptranspose(rho, dims, sysa)
        got = qcalc.partial_transpose(rho, dims, sysa)
        mk.eq(f"pT(rho, {dims}, {sysa})", got, want)
        mk.eq(f"pT(pT(rho)) == rho {sysa}", qcalc.partial_transpose(got, dims, list(sysa)), rho)
        if len(sysa) == 1:
            mk.eq(f"pT int sysa={sysa[0]}", qcalc.partial_transpose(rho, dims, sysa[0]), want)
        if len(sysa) == n:
            mk.eq("pT over every subsystem == transpose", got, np.asarray(rho).T)
        if sysa == tuple(sorted(sysa)):
            mk.eq(f"pT(ket) == pT(projector) {sysa}", qcalc.partial_transpose(psi, dims, sysa), ref_ptranspose(pp, dims, sysa))
            comp = tuple(i for i in range(n) if i not in sysa)
            mk.eq(f"pT over complement == transpose of pT {sysa}", qcalc.partial_transpose(rho, dims, comp), np.asarray(want).T)


# ====================================================================== integer level (SX)

def _draw_range(mk, D):
    """symbolic ownership range 0 <= ri < rf <= D (numeric mode: a random valid range)"""
    ri = mk.int("ri", 0, D - 1)
    rf = mk.int("rf", 1, D)
    if not mk.sym and not ri < rf:
        ri, rf = rf - 1, ri + 1
    mk.assume(ri < rf)
    return ri, rf


_DIGIT_DIMS = [(2,), (5,), (2, 2), (2, 3), (3, 2), (1, 3), (3, 1), (2, 2, 2), (2, 3, 2), (3, 1, 2), (1, 1, 2), (4, 3, 5),
               (2, 2, 2, 2), (2, 1, 3, 2), (13, 2, 7, 3, 10), (3, 3, 3, 3), (2,) * 6, (7, 1, 1, 5), (2,) * 10]
_DIGIT_QUICK = [(2,), (2, 3), (3, 1), (2, 2, 2), (2, 3, 2), (3, 1, 2), (1, 1, 2), (2, 1, 3, 2), (13, 2, 7, 3, 10), (2,) * 6]


def _tier_params(key, allv, quick):
    return [{key: v, "_tiers": ("quick", "thorough") if v in quick else ("thorough",)} for v in allv]


@obligation(PROP, params=_tier_params("dims", _DIGIT_DIMS, _DIGIT_QUICK), exc_is_violation=True)
def dynal_digits(mk, dims):
    """dynal(x, dims) are the mixed-radix digits of x: 0 <= digit_i < dims_i, sum digit_i*stride_i == x
    (x a symbolic integer, no enumeration); gen_matching_dynal returns the common digit prefix of
    two symbolic numbers plus the first differing pair"""
    mk.encodes(qc.dynal, qc.gen_matching_dynal)
    D = prod(dims)
    n = len(dims)
    strides = [prod(dims[i + 1:]) for i in range(n)]
    x = mk.int("x", 0, D - 1)
    dig = list(qc.dynal(x, dims))
    _same(mk, "one digit per base", len(dig), n)
    tot = 0
    for i, (d, b) in enumerate(zip(dig, dims)):
        mk.check(d >= 0, f"digit {i} >= 0")
        mk.check(d < b, f"digit {i} < base {b}")
        tot = tot + d * strides[i]
    mk.check(tot == x, "digits recompose x")
    y = mk.int("y", 0, D - 1)
    if not mk.sym and y < x:
        x, y = y, x
    mk.assume(x <= y)
    dx, dy = list(qc.dynal(x, dims)), list(qc.dynal(y, dims))
    pairs = list(qc.gen_matching_dynal(x, y, dims))
    m = len(pairs)
    mk.check(1 <= m <= n, "between 1 and n pairs")
    for k, (a, b) in enumerate(pairs):
        mk.check((a == dx[k]) & (b == dy[k]), f"pair {k} holds digit {k} of both numbers")
        if k < m - 1:
            mk.check(a == b, f"pair {k} (not last) matches")
    a, b = pairs[-1]
    if m < n:
        mk.check(a < b, "generation stops early only at a differing pair (first differing digit of x <= y is smaller)")
    else:
        mk.check(a <= b, "last digit ordered")


class _SpanOp:
    """stand-in kron operand that records the row slice the real code asks for"""

    def __init__(self, d, lo=None, hi=None, sliced=False):
        self.d = d
        self.shape = (d, d)
        self.lo, self.hi, self.sliced = lo, hi, sliced

    def __getitem__(self, idx):
        rs, cs = idx
        assert isinstance(rs, slice) and rs.step is None and cs == slice(None)
        assert not self.sliced
        return _SpanOp(self.d, rs.start, rs.stop, True)


class _SpanProd:
    def __init__(self, ops):
        self.ops = ops
        self.final = None

    def __getitem__(self, idx):
        rs, cs = idx
        assert isinstance(rs, slice) and rs.step is None and cs == slice(None)
        assert self.final is None
        out = _SpanProd(self.ops)
        out.final = (rs.start, rs.stop)
        return out


_SPAN_DIMS = _DIGIT_DIMS


@obligation(PROP, params=_tier_params("dims", _SPAN_DIMS, _DIGIT_QUICK), exc_is_violation=True, max_paths=4000)
def ownership_row_spans(mk, dims):
    """the REAL kron(..., ownership=(ri, rf)) on symbolic ri, rf (no enumeration of the range) with
    operands that record the row slices requested and a recording product: the slices are valid,
    select a contiguous block of product rows, and the final correction slice cuts it to exactly
    rows [ri, rf)"""
    mk.encodes(qc.kron, qc.dynal, qc.gen_matching_dynal, qc.gen_ops_maybe_sliced)
    D = prod(dims)
    n = len(dims)
    strides = [prod(dims[i + 1:]) for i in range(n)]
    ri, rf = _draw_range(mk, D)
    ops = [_SpanOp(d) for d in dims]
    real_core = qc._kron_core
    qc._kron_core = lambda *o, **kw: _SpanProd(o)
    try:
        X = qc.kron(*ops, ownership=(ri, rf))
    finally:
        qc._kron_core = real_core
    _same(mk, "one (possibly sliced) operand per factor", len(X.ops), n)
    m = sum(1 for o in X.ops if o.sliced)
    _same(mk, "sliced operands form a prefix", [o.sliced for o in X.ops], [True] * m + [False] * (n - m))
    start = 0
    stop = 0
    for k in range(m):
        o = X.ops[k]
        mk.check((0 <= o.lo) & (o.lo < o.hi) & (o.hi <= dims[k]), f"row slice of factor {k} is valid and non-empty")
        if k < m - 1:
            mk.check(o.hi == o.lo + 1, f"factor {k} (not the last sliced one) keeps a single row -> rows stay contiguous")
            start = start + o.lo * strides[k]
            stop = stop + o.lo * strides[k]
        else:
            start = start + o.lo * strides[k]
            stop = stop + o.hi * strides[k]
    if m == 0:
        start, stop = 0, D
    nrows = stop - start
    if X.final is None:
        lo, hi = start, stop
    else:
        di, df = X.final
        # python slicing semantics of X[di:df]
        if di is None:
            di = 0
        mk.check((0 <= di) & (di <= nrows), "correction start within the produced rows (no wrap-around)")
        if df is None:
            hi = stop
        elif df < 0:
            mk.check(df >= -nrows, "negative stop within the produced rows")
            hi = stop + df
        else:
            mk.check(df <= nrows, "stop within the produced rows")
            hi = start + df
        lo = start + di
    mk.check(lo == ri, "first row delivered is ri")
    mk.check(hi == rf, "one past the last row delivered is rf")


_OWN_SHAPES = {
    "op22": [(2, 2), (2, 2)],
    "op23": [(2, 2), (3, 3)],
    "op32": [(3, 3), (2, 2)],
    "op13": [(1, 1), (3, 3)],
    "op31": [(3, 3), (1, 1)],
    "op4": [(4, 4)],
    "op222": [(2, 2), (2, 2), (2, 2)],
    "op232": [(2, 2), (3, 3), (2, 2)],
    "op312": [(3, 3), (1, 1), (2, 2)],
    "kets23": [(2, 1), (3, 1)],
    "kets222": [(2, 1), (2, 1), (2, 1)],
    "rect": [(2, 3), (3, 1), (2, 2)],
    "op223": [(2, 2), (2, 2), (3, 3)],
    "op2222": [(2, 2), (2, 2), (2, 2), (2, 2)],
    "op2132": [(2, 2), (1, 1), (3, 3), (2, 2)],
    "op332": [(3, 3), (3, 3), (2, 2)],
    "op44": [(4, 4), (4, 4)],
    "op234": [(2, 2), (3, 3), (4, 4)],
    "op333": [(3, 3), (3, 3), (3, 3)],
    "op1221": [(1, 1), (2, 2), (2, 2), (1, 1)],
    "kets2222": [(2, 1), (2, 1), (2, 1), (2, 1)],
}
_OWN_QUICK = ("op22", "op23", "op32", "op13", "op31", "op4", "op222", "op232", "op312", "kets23", "kets222", "rect")


@obligation(PROP, params=_tier_params("shapes", list(_OWN_SHAPES), _OWN_QUICK), exc_is_violation=True,
            max_paths=6000, wall_s=600, timeout_s=900)
def kron_ownership_rows(mk, shapes):
    """kron(*ops, ownership=(ri, rf)) == rows [ri, rf) of the explicit product: symbolic entries,
    symbolic ri, rf driven through the real digit / slicing code (which concretises them where it
    slices: solver-driven enumeration of every feasible range)"""
    mk.encodes(qc.kron, qc.dynal, qc.gen_matching_dynal, qc.gen_ops_maybe_sliced, qc._kron_core, qc.kron_dense)
    ops = [mk.array(f"K{i}", s, "cplx") for i, s in enumerate(_OWN_SHAPES[shapes])]
    full = ref.kron(*ops)
    D = full.shape[0]
    ri, rf = _draw_range(mk, D)
    got = qc.kron(*ops, ownership=(ri, rf))
    a, b = int(ri), int(rf)
    _eqs(mk, f"kron(ownership=({a},{b})) == full[{a}:{b}]", got, full[a:b, :])


@obligation(PROP, params=[{"shapes": k} for k in ("op23", "op222", "kets23")], exc_is_violation=True)
def kron_ownership_rejects(mk, shapes):
    """ranges outside 0 <= ri < D, 0 < rf <= D are rejected"""
    mk.encodes(qc.kron)
    ops = [mk.array(f"K{i}", s, "cplx") for i, s in enumerate(_OWN_SHAPES[shapes])]
    D = prod(s[0] for s in _OWN_SHAPES[shapes])
    for own in ((D, D), (-1, 2), (0, 0), (0, D + 1), (D, D + 1)):
        mk.raises(f"ownership={own} of D={D}", lambda own=own: qc.kron(*ops, ownership=own), (ValueError,))


_IOWN = {
    "d222_i1": ((2, 2, 2), (1,)),
    "d222_i02": ((2, 2, 2), (0, 2)),
    "d222_i20": ((2, 2, 2), (2, 0)),
    "d232_i1": ((2, 3, 2), (1,)),
    "d322_i0": ((3, 2, 2), (0,)),
    "d223_i2": ((2, 2, 3), (2,)),
    "d23_i01": ((2, 3), (0, 1)),
    "d213_i1": ((2, 1, 3), (1,)),
    "d2222_i12": ((2, 2, 2, 2), (1, 2)),
    "d2222_i03": ((2, 2, 2, 2), (0, 3)),
    "d2322_i2": ((2, 3, 2, 2), (2,)),
}
_IOWN_QUICK = ("d222_i1", "d222_i02", "d222_i20", "d232_i1", "d322_i0", "d223_i2", "d23_i01", "d213_i1")


@obligation(PROP, params=_tier_params("case", list(_IOWN), _IOWN_QUICK), exc_is_violation=True,
            max_paths=6000, wall_s=600, timeout_s=900)
def ikron_ownership_rows(mk, case):
    """ikron(ops, dims, inds, ownership=(ri, rf)) == rows [ri, rf) of the explicit embedding
    (identities are merged by ikron, so the digit bases differ from `dims`)"""
    mk.encodes(qc.ikron, qc.kron, qc.gen_matching_dynal, qc.gen_ops_maybe_sliced)
    dims, inds = _IOWN[case]
    A = _site_ops(mk, dims)
    ops = [A[s] for s in inds]
    full = _ikron_want(dims, dict(zip(inds, ops)), A[0])
    D = prod(dims)
    ri, rf = _draw_range(mk, D)
    got = qc.ikron(ops, dims, inds, ownership=(ri, rf))
    a, b = int(ri), int(rf)
    _eqs(mk, f"ikron(ownership=({a},{b})) == full[{a}:{b}]", got, full[a:b, :])


# ---------------------------------------------------------------------- dim_map

def _nested(shape, vals):
    """nested list of the given shape filled from the iterator vals"""
    if len(shape) == 1:
        return [next(vals) for _ in range(shape[0])]
    return [_nested(shape[1:], vals) for _ in range(shape[0])]


_DM_SHAPES = [(3,), (5,), (2, 2), (3, 2), (2, 3), (2, 2, 2), (2, 3, 2), (1, 3), (2, 1, 2), (2, 2, 2, 2)]
_DM_QUICK = [(3,), (2, 2), (3, 2), (2, 2, 2), (1, 3), (2, 3, 2)]
_DM_PARAMS = [{"shape": s, "mode": m, "_tiers": ("quick", "thorough") if s in _DM_QUICK else ("thorough",)}
              for s in _DM_SHAPES for m in ("strict", "cyclic", "trim", "cyclic+trim") if not (len(s) == 1 and m == "cyclic+trim")]


@obligation(PROP, params=[{"shape": s, "mode": "cyclic+trim"} for s in _DM_SHAPES if len(s) == 1], exc_is_violation=True)
def dim_map_1d_cyclic_overrides_trim(mk, shape, mode):
    """1-D dims with cyclic=True and trim=True: documented as "trim ... overridden by cyclic"."""
    dim_map_coordinates(mk, shape, mode)


@obligation(PROP, params=_DM_PARAMS, exc_is_violation=True, max_paths=4000)
def dim_map_coordinates(mk, shape, mode):
    """dim_map(dims, coos, cyclic, trim) with symbolic (unbounded) coordinates == sum (c mod s)*stride
    (cyclic), drops exactly the out-of-range coordinates (trim), rejects them (strict);
    cyclic overrides trim (documented)"""
    mk.encodes(qc.dim_map, qc._dim_map_1d, qc._dim_map_1dtrim, qc._dim_map_1dcyclic, qc._dim_map_2d, qc._dim_map_2dtrim,
               qc._dim_map_2dcyclic, qc._dim_map_nd, qc._find_shape_of_nested_int_array)
    nd = len(shape)
    nsites = prod(shape)
    cyc = itertools.cycle((2, 3, 1, 2, 2, 3))
    vals = [next(cyc) for _ in range(nsites)]
    dims = _nested(shape, iter(vals))
    ncoo = 2 if nd <= 2 else 1 if nd >= 4 else 2
    coos = [tuple(mk.int(f"c{k}{a}", None, None) for a in range(nd)) for k in range(ncoo)]
    strides = [prod(shape[a + 1:]) for a in range(nd)]
    cyclic = mode.startswith("cyclic")
    trim = mode.endswith("trim")
    try:
        fd, inds = qc.dim_map(dims, coos, cyclic=cyclic, trim=trim)
        raised = False
    except ValueError:
        raised = True
    inr = [all(bool((0 <= c) & (c < s)) for c, s in zip(coo, shape)) for coo in coos]
    if raised:
        _same(mk, "rejected only in strict mode", mode, "strict")
        _same(mk, "rejected only when a coordinate is out of range", all(inr), False)
        return
    _same(mk, "flattened dims", tuple(fd), tuple(vals))
    if cyclic:
        want = [sum((c % s) * m for c, s, m in zip(coo, shape, strides)) for coo in coos]
    elif trim:
        want = [sum(c * m for c, m in zip(coo, strides)) for coo, ok in zip(coos, inr) if ok]
    else:
        _same(mk, "strict mode accepted only in-range coordinates", all(inr), True)
        want = [sum(c * m for c, m in zip(coo, strides)) for coo in coos]
    _same(mk, "number of indices", len(inds), len(want))
    for k, (g, w) in enumerate(zip(inds, want)):
        mk.check(g == w, f"index {k} == sum (c mod s)*stride")
        mk.check((0 <= g) & (g < nsites), f"index {k} addresses a subsystem")


# ---------------------------------------------------------------------- dim_compress

def _dc_params():
    out = []
    for n in (1, 2, 3, 4):
        for r in range(0, n + 1):
            for inds in itertools.combinations(range(n), r):
                out.append({"n": n, "inds": inds, "_tiers": ("quick", "thorough") if n <= 3 else ("thorough",)})
    return out


def _dim_compress_goals(mk, dims, inds, arg, alternate):
    nd, ni = qc.dim_compress(dims, arg)
    # reference: products over maximal runs of targeted / untargeted subsystems; size-1 runs vanish
    runs = []
    for i, d in enumerate(dims):
        f = i in inds
        if runs and runs[-1][1] == f:
            runs[-1][0] = runs[-1][0] * d
        else:
            runs.append([d, f])
    runs = [(p, f) for p, f in runs if bool(p != 1)]
    tot = 1
    for d in dims:
        tot = tot * d
    tgt = 1
    for i in inds:
        tgt = tgt * dims[i]
    gt = 1
    for d in nd:
        gt = gt * d
    gm = 1
    for i in ni:
        gm = gm * nd[i]
    tag = f"inds={tuple(inds)}"
    mk.check(gt == tot, f"product of compressed dims == product of dims ({tag})")
    mk.check(gm == tgt, f"product of marked compressed dims == product of targeted dims ({tag})")
    if runs:
        _same(mk, f"number of compressed blocks ({tag})", len(nd), len(runs))
        _same(mk, f"marked blocks ({tag})", tuple(ni), tuple(k for k, (p, f) in enumerate(runs) if f))
        for k, (g, (p, f)) in enumerate(zip(nd, runs)):
            mk.check(g == p, f"block {k} is the product over run {k} ({tag})")
    if alternate:
        _same(mk, f"marks alternate (documented guarantee) ({tag})", all(b - a == 2 for a, b in zip(ni, ni[1:])), True)


@obligation(PROP, params=_dc_params(), exc_is_violation=True, max_paths=4000)
def dim_compress_products(mk, n, inds):
    """dim_compress(dims, inds) on symbolic subsystem dimensions 2 <= d <= 6: the compressed dims are
    the products over maximal runs of targeted / untargeted subsystems, so the total product and
    the targeted product are preserved, the marks are exact and alternate"""
    mk.encodes(qc.dim_compress, qc._dim_compressor)
    dims = [mk.int(f"d{i}", 2, 6) for i in range(n)]
    _dim_compress_goals(mk, dims, inds, inds if len(inds) != 1 or n % 2 else inds[0], True)


@obligation(PROP, params=[{"n": 1}, {"n": 2}, {"n": 3}], exc_is_violation=True, max_paths=8000)
def dim_compress_unit_dims(mk, n):
    """same with size-1 subsystems allowed (1 <= d <= 3, at least one d == 1), every index subset"""
    mk.encodes(qc.dim_compress, qc._dim_compressor)
    dims = [mk.int(f"d{i}", 1, 3) for i in range(n)]
    some_one = dims[0] == 1
    for d in dims[1:]:
        some_one = some_one | (d == 1)
    if mk.sym:
        mk.assume(some_one)
    elif not some_one:
        dims[-1] = 1
    subsets = [s for r in range(n + 1) for s in itertools.combinations(range(n), r)]
    inds = mk.choice("subset", subsets)
    _dim_compress_goals(mk, dims, inds, inds, False)


# ====================================================================== sparse inputs
# scipy.sparse cannot hold symbolic scalars.  In symbolic mode the entries are therefore fixed
# dyadic rationals (all arithmetic exact in binary floating point, goals compared exactly) and
# only the structural inputs (ownership range) are symbolic; the numeric cross-run repeats the
# harness with random entries.

_FMTS = ("csr", "csc", "coo", "bsr")


def _cvals(mk, name, shape, kind="cplx", herm=False):
    import random
    import zlib
    rng = random.Random(zlib.crc32(name.encode()))
    shape = tuple(shape)
    if mk.sym:
        q = lambda: rng.choice([-1, 1]) * rng.randint(1, 12) / 8
        a = np.empty(shape, dtype=complex)
        for idx in np.ndindex(*shape):
            a[idx] = complex(q(), q() if kind == "cplx" else 0.0)
    else:
        a = np.asarray(mk.array(name, shape, kind), dtype=complex)
        for idx in np.ndindex(*shape):
            rng.random(), rng.random()
    # fixed sparsity pattern (same in both modes)
    for idx in np.ndindex(*shape):
        if rng.random() < 0.3:
            a[idx] = 0.0
    if herm:
        a = (a + a.conj().T) / 2
    if not a.any():
        a[(0,) * a.ndim] = 1.0
    return a


def _sp(a, fmt):
    return qc.sparse_matrix(a, stype=fmt)


def _dense(x):
    return x.toarray() if sp.issparse(x) else np.asarray(x)


@obligation(PROP, params=[{"fmt": f} for f in _FMTS], exc_is_violation=True)
def sparse_kron_formats(mk, fmt):
    """kron of sparse operands (every input format, every requested output format, coo_build,
    mixed dense/sparse, kets) == explicit product of the dense operands"""
    mk.encodes(qc.kron, qc.kron_sparse, qc.kron_dispatch, qc._kron_core, qc.sparse_matrix)
    for shapes in ([(2, 2), (3, 3)], [(2, 2), (2, 2), (3, 3)], [(2, 1), (3, 1)], [(2, 3), (3, 2)]):
        ops = [_cvals(mk, f"S{i}{s[0]}{s[1]}", s) for i, s in enumerate(shapes)]
        want = ref.kron(*ops)
        sops = [_sp(o, fmt) for o in ops]
        got = qc.kron(*sops)
        _same(mk, f"sparse in -> sparse out {shapes}", sp.issparse(got), True)
        mk.eq(f"kron(*{fmt}) {shapes}", _dense(got), want)
        for out in _FMTS:
            g = qc.kron(*sops, stype=out)
            _same(mk, f"stype={out} honoured {shapes}", g.format, out)
            mk.eq(f"kron(*{fmt}, stype={out}) {shapes}", _dense(g), want)
        g = qc.kron(*sops, coo_build=True)
        _same(mk, f"coo_build returns csr {shapes}", g.format, "csr")
        mk.eq(f"kron(*{fmt}, coo_build=True) {shapes}", _dense(g), want)
        mk.eq(f"kron(sparse, dense...) {shapes}", _dense(qc.kron(sops[0], *ops[1:])), want)
        mk.eq(f"kron(dense, sparse...) {shapes}", _dense(qc.kron(ops[0], *sops[1:])), want)
        acc = sops[0]
        for o in sops[1:]:
            acc = acc & o
        mk.eq(f"a & b {shapes}", _dense(acc), want)


def _eqs(mk, label, got, want):
    """shape goal, then entry-wise goal when the sizes agree (a wrong shape must not hide later goals)"""
    got, want = _dense(got), np.asarray(want)
    _same(mk, f"shape: {label}", tuple(np.shape(got)), tuple(want.shape))
    if np.size(got) == want.size:
        mk.eq(label, got, want)


_SOWN = {
    "sp23": ([(2, 2), (3, 3)], "ss"),
    "sp32": ([(3, 3), (2, 2)], "ss"),
    "sp222": ([(2, 2), (2, 2), (2, 2)], "sss"),
    "ds23": ([(2, 2), (3, 3)], "ds"),
    "dss": ([(2, 2), (2, 2), (2, 2)], "dss"),
    "kets": ([(2, 1), (3, 1)], "ss"),
    "sp232": ([(2, 2), (3, 3), (2, 2)], "sss"),
    "sp2222": ([(2, 2), (2, 2), (2, 2), (2, 2)], "ssss"),
    # sparse (x) dense: the intermediate product is built in 'bsr' format
    "sd23": ([(2, 2), (3, 3)], "sd"),
    "ssd": ([(2, 2), (2, 2), (2, 2)], "ssd"),
    "sds": ([(2, 2), (2, 2), (2, 2)], "sds"),
}
_SOWN_QUICK = ("sp23", "sp222", "ds23", "kets", "sd23", "ssd")
_SOWN_BSR_MID = ("sd23", "ssd", "sds")


def _sparse_kron_ownership(mk, fmt, case):
    shapes, kinds = _SOWN[case]
    ops = [_cvals(mk, f"S{i}{s[0]}{s[1]}", s) for i, s in enumerate(shapes)]
    full = ref.kron(*ops)
    D = full.shape[0]
    sops = [_sp(o, fmt) if k == "s" else o for o, k in zip(ops, kinds)]
    ri, rf = _draw_range(mk, D)
    got = qc.kron(*sops, ownership=(ri, rf))
    a, b = int(ri), int(rf)
    _eqs(mk, f"kron({kinds}:{fmt}, ownership=({a},{b}))", got, full[a:b, :])
    g = qc.kron(*sops, ownership=(a, b), stype="coo")
    _eqs(mk, f"kron({kinds}:{fmt}, ownership=({a},{b}), stype=coo)", g, full[a:b, :])
    g = qc.kron(*sops, ownership=(a, b), coo_build=True)
    _eqs(mk, f"kron({kinds}:{fmt}, ownership=({a},{b}), coo_build)", g, full[a:b, :])


@obligation(PROP, params=[{"fmt": f, "case": c, "_tiers": ("quick", "thorough") if c in _SOWN_QUICK and f != "csc" else ("thorough",)}
                          for f in ("csr", "csc", "coo") for c in _SOWN if c not in _SOWN_BSR_MID],
            exc_is_violation=True, max_paths=4000, wall_s=600, timeout_s=900)
def sparse_kron_ownership(mk, fmt, case):
    """kron(*sparse/dense ops, ownership=(ri, rf)) == rows [ri, rf) of the explicit product, for every
    feasible range (symbolic ri, rf enumerated by the solver through the real slicing code);
    default output format, stype='coo' and coo_build=True.  csr / csc / coo operands."""
    mk.encodes(qc.kron, qc.gen_ops_maybe_sliced, qc.gen_matching_dynal, qc.kron_sparse)
    _sparse_kron_ownership(mk, fmt, case)


@obligation(PROP, params=[{"fmt": "bsr", "case": c, "_tiers": ("quick", "thorough") if c in _SOWN_QUICK else ("thorough",)}
                          for c in ("sp23", "sp222", "kets")]
            + [{"fmt": "csr", "case": c, "_tiers": ("quick", "thorough") if c in _SOWN_QUICK else ("thorough",)} for c in _SOWN_BSR_MID],
            exc_is_violation=True, max_paths=4000, wall_s=600, timeout_s=900)
def sparse_kron_ownership_bsr(mk, fmt, case):
    """same with 'bsr' operands, and with sparse (x) dense operands (whose product is built as 'bsr')"""
    mk.encodes(qc.kron, qc.gen_ops_maybe_sliced, qc.gen_matching_dynal, qc.kron_sparse)
    _sparse_kron_ownership(mk, fmt, case)


@obligation(PROP, params=[{"fmt": f} for f in _FMTS], exc_is_violation=True)
def sparse_ikron_pkron(mk, fmt):
    """ikron / pkron with sparse operators (or sparse=True) == the dense embedding"""
    mk.encodes(qc.ikron, qc.pkron, qc.permute, qc._permute_sparse, qc.identity, qc._identity_sparse)
    for dims in ((2, 3, 2), (3, 1, 2)):
        n = len(dims)
        A = [_cvals(mk, f"A{s}{d}", (d, d)) for s, d in enumerate(dims)]
        SA = [_sp(a, fmt) for a in A]
        for inds in ordered_subsets(n):
            want = _ikron_want(dims, {s: A[s] for s in inds}, A[0])
            g = qc.ikron([SA[s] for s in inds], dims, inds)
            _same(mk, f"sparse out {dims} {inds}", sp.issparse(g), True)
            _eqs(mk, f"ikron({fmt} ops, {dims}, {inds})", g, want)
            g = qc.ikron([SA[s] for s in inds], dims, inds, stype=fmt)
            _same(mk, f"stype honoured {dims} {inds}", g.format, fmt)
            _eqs(mk, f"ikron({fmt} ops, stype={fmt}) {dims} {inds}", g, want)
            if prod(dims[s] for s in range(n) if s not in inds) > 1:
                # dense operators, identities requested sparse
                g = qc.ikron([A[s] for s in inds], dims, inds, sparse=True, stype=fmt)
                _same(mk, f"sparse=True: stype honoured {dims} {inds}", g.format, fmt)
                _eqs(mk, f"ikron(dense ops, sparse=True, stype={fmt}) {dims} {inds}", g, want)
            _eqs(mk, f"ikron(coo_build) {dims} {inds}", qc.ikron([SA[s] for s in inds], dims, inds, coo_build=True), want)
        ops = {}
        for inds in ordered_subsets(n):
            k = prod(dims[s] for s in inds)
            if k not in ops:
                ops[k] = _cvals(mk, f"Q{k}", (k, k))
            g = qc.pkron(_sp(ops[k], fmt), dims, inds)
            _eqs(mk, f"pkron({fmt}, {dims}, {inds})", g, ref.embed(ops[k], dims, inds))
        # overlay of one sparse operator on adjacent subsystems
        for blk in _blocks(n):
            k = prod(dims[s] for s in blk)
            _eqs(mk, f"overlay {fmt} {dims} {blk}", qc.ikron(_sp(ops[k], fmt), dims, list(blk)), ref.embed(ops[k], dims, blk))


@obligation(PROP, params=[{"call": c} for c in ("kron_stype", "kron_coo_build", "ikron_sparse_stype", "ikron_sparse_coo_build")],
            exc_is_violation=True)
def dense_operands_with_sparse_options(mk, call):
    """sparse-output options together with operands that are all dense (documented: `stype` is the
    format "if resultant object is sparse", `coo_build` "only for sparse matrices in the first
    place"): the value must still be the explicit product"""
    mk.encodes(qc.kron, qc.ikron)
    A = mk.array("A", (2, 2), "cplx")
    B = mk.array("B", (3, 3), "cplx")
    want = ref.kron(A, B)
    if call == "kron_stype":
        g = qc.kron(A, B, stype="csr")
    elif call == "kron_coo_build":
        g = qc.kron(A, B, coo_build=True)
    elif call == "ikron_sparse_stype":
        g = qc.ikron([A, B], [2, 3], [0, 1], sparse=True, stype="csr")
    else:
        g = qc.ikron([A, B], [2, 3], [0, 1], sparse=True, coo_build=True)
    mk.eq(call, _dense(g), want)


_SIOWN = [("d222_i1", "csr"), ("d222_i02", "csr"), ("d232_i1", "csc"), ("d23_i01", "coo"), ("d222_i20", "coo"),
          ("d213_i1", "csr"), ("d2222_i12", "csr")]


def _sparse_ikron_ownership(mk, case, fmt):
    dims, inds = _IOWN[case]
    A = [_cvals(mk, f"A{s}{d}", (d, d)) for s, d in enumerate(dims)]
    full = _ikron_want(dims, {s: A[s] for s in inds}, A[0])
    D = prod(dims)
    ri, rf = _draw_range(mk, D)
    got = qc.ikron([_sp(A[s], fmt) for s in inds], dims, inds, ownership=(ri, rf))
    a, b = int(ri), int(rf)
    _eqs(mk, f"ikron({fmt}, ownership=({a},{b}))", got, full[a:b, :])
    if prod(dims[s] for s in range(len(dims)) if s not in inds) > 1:
        g = qc.ikron([A[s] for s in inds], dims, inds, sparse=True, stype="coo", coo_build=True, ownership=(a, b))
        _eqs(mk, f"ikron(dense, sparse=True, coo_build, ownership=({a},{b}))", g, full[a:b, :])


@obligation(PROP, params=[{"case": c, "fmt": f, "_tiers": ("quick", "thorough") if c != "d2222_i12" else ("thorough",)} for c, f in _SIOWN],
            exc_is_violation=True, max_paths=4000, wall_s=600, timeout_s=900)
def sparse_ikron_ownership(mk, case, fmt):
    """ikron(sparse ops, ..., ownership=(ri, rf)) == rows [ri, rf) of the dense embedding"""
    mk.encodes(qc.ikron, qc.kron, qc.gen_ops_maybe_sliced)
    _sparse_ikron_ownership(mk, case, fmt)


@obligation(PROP, params=[{"case": "d222_i1", "fmt": "bsr"}, {"case": "d23_i01", "fmt": "bsr"}], exc_is_violation=True, max_paths=4000)
def sparse_ikron_ownership_bsr(mk, case, fmt):
    """same with 'bsr' operators"""
    mk.encodes(qc.ikron, qc.kron, qc.gen_ops_maybe_sliced)
    _sparse_ikron_ownership(mk, case, fmt)


@obligation(PROP, params=[{"fmt": f} for f in _FMTS], exc_is_violation=True)
def sparse_permute(mk, fmt):
    """permute of sparse operators / kets == explicit index permutation"""
    mk.encodes(qc.permute, qc._permute_sparse, qc.dot, qc.dot_sparse)
    for dims in ((2, 3), (2, 3, 2), (2, 1, 3), (2, 2, 2, 2)):
        D = prod(dims)
        M = _cvals(mk, f"M{D}", (D, D))
        psi = _cvals(mk, f"psi{D}", (D, 1))
        perms = list(itertools.permutations(range(len(dims))))
        if len(perms) > 6:
            perms = perms[::5]
        for perm in perms:
            g = qc.permute(_sp(M, fmt), dims, perm)
            _same(mk, f"sparse out {dims} {perm}", sp.issparse(g), True)
            _eqs(mk, f"permute({fmt} op, {dims}, {perm})", g, ref_permute(M, dims, perm))
            g = qc.permute(_sp(psi, fmt), dims, list(perm))
            _eqs(mk, f"permute({fmt} ket, {dims}, {perm})", g, ref_permute(psi, dims, perm).reshape(D, 1))


_SPTR_DIMS = [(2, 2), (2, 3), (3, 2), (2, 2, 2), (2, 3, 2), (3, 2, 2), (2, 2, 2, 2)]
_SPTR_QUICK = [(2, 2), (2, 3), (2, 3, 2), (2, 2, 2)]


def _sparse_ptr(mk, fmt, dims, keeps, ket=True):
    D = prod(dims)
    rho = _cvals(mk, f"rho{D}", (D, D), herm=True)
    psi = _cvals(mk, f"psi{D}", (D, 1))
    pp = proj(psi)
    for keep in keeps:
        want = ref_ptr(rho, dims, keep)
        _eqs(mk, f"dense ptr(rho, {dims}, {keep})", qc.partial_trace(rho, dims, list(keep)), want)
        _eqs(mk, f"ptr({fmt} rho, {dims}, {keep})", qc.partial_trace(_sp(rho, fmt), dims, list(keep)), want)
        if ket:
            _eqs(mk, f"ptr({fmt} ket, {dims}, {keep})", qc.partial_trace(_sp(psi, fmt), dims, keep), ref_ptr(pp, dims, keep))
        if len(keep) == 1:
            _eqs(mk, f"ptr({fmt} rho, {dims}, int {keep[0]})", qc.partial_trace(_sp(rho, fmt), dims, keep[0]), want)


def _sptr_keeps(n):
    keeps = list(ordered_subsets(n))
    return keeps[::3] if len(keeps) > 20 else keeps


@obligation(PROP, params=[{"fmt": f, "dims": d, "_tiers": ("quick", "thorough") if d in _SPTR_QUICK else ("thorough",)}
                          for f in ("csr", "csc") for d in _SPTR_DIMS], exc_is_violation=True)
def sparse_partial_trace(mk, fmt, dims):
    """partial_trace of a sparse (csr / csc) density operator / ket == the dense reduced state
    (subsystem dimensions >= 2, non-empty keep, every order)"""
    mk.encodes(qc.partial_trace, qc._partial_trace_simple, qc._trace_keep, qc._trace_lose, qc.dim_compress, qc.trace,
               qc._trace_sparse)
    _sparse_ptr(mk, fmt, dims, _sptr_keeps(len(dims)))


@obligation(PROP, params=[{"fmt": f, "dims": d, "_tiers": ("quick", "thorough") if d in ((2, 2), (2, 3, 2)) else ("thorough",)}
                          for f in ("coo", "bsr") for d in ((2, 2), (2, 3), (2, 3, 2))], exc_is_violation=True)
def sparse_partial_trace_coo_bsr(mk, fmt, dims):
    """same for 'coo' and 'bsr' inputs (quimb registers `.ptr` on both matrix classes)"""
    mk.encodes(qc.partial_trace, qc._partial_trace_simple, qc._trace_keep, qc._trace_lose)
    _sparse_ptr(mk, fmt, dims, _sptr_keeps(len(dims)))


@obligation(PROP, params=[{"fmt": f, "dims": d} for f in ("csr", "csc") for d in ((2, 1), (1, 2), (2, 1, 2), (1, 2, 2), (2, 2, 1))],
            exc_is_violation=True)
def sparse_partial_trace_unit_dims(mk, fmt, dims):
    """same with size-1 subsystems among the dims"""
    mk.encodes(qc.partial_trace, qc._partial_trace_simple, qc.dim_compress, qc._dim_compressor)
    _sparse_ptr(mk, fmt, dims, list(ordered_subsets(len(dims))), ket=False)


@obligation(PROP, params=[{"fmt": f, "dims": d} for f in ("csr", "csc") for d in ((2, 2), (2, 3, 2))], exc_is_violation=True)
def sparse_partial_trace_empty_keep(mk, fmt, dims):
    """keep=() (trace out everything): dense returns [[Tr rho]]"""
    mk.encodes(qc.partial_trace, qc._partial_trace_simple, qc.dim_compress, qc._dim_compressor)
    _sparse_ptr(mk, fmt, dims, [()])


# ====================================================================== Hamiltonian builders

def _coef(mk, name, val):
    return val if mk.sym else mk.scalar(name, "real")


def _ham_cases():
    out = []
    for n, tiers in ((3, ("quick", "thorough")), (4, ("thorough",))):
        for b in ("heis", "heis_b", "heis_cyc", "ising", "xy", "xxz", "j1j2", "j1j2_cyc", "mbl"):
            out.append({"builder": b, "n": n, "_tiers": tiers})
    out.append({"builder": "heis_b", "n": 2, "_tiers": ("quick", "thorough")})
    out.append({"builder": "heis2d_2x2", "n": 4, "_tiers": ("quick", "thorough")})
    out.append({"builder": "heis2d_cyc_2x2", "n": 4, "_tiers": ("thorough",)})
    out.append({"builder": "heis2d_1x3", "n": 3, "_tiers": ("quick", "thorough")})
    out.append({"builder": "heis_b", "n": 5, "_tiers": ("thorough",)})
    out.append({"builder": "j1j2_cyc", "n": 5, "_tiers": ("thorough",)})
    return out


def _ham_call(mk, builder, n):
    j = (_coef(mk, "jx", 1.0), _coef(mk, "jy", 0.5), _coef(mk, "jz", -0.75))
    b = (_coef(mk, "bx", 0.25), _coef(mk, "by", -0.5), _coef(mk, "bz", 0.125))
    if builder == "heis":
        return qops.ham_heis, (n,), dict(j=j)
    if builder == "heis_b":
        return qops.ham_heis, (n,), dict(j=j, b=b)
    if builder == "heis_cyc":
        return qops.ham_heis, (n,), dict(j=j, b=b[2], cyclic=True)
    if builder == "ising":
        return qops.ham_ising, (n,), dict(jz=j[2], bx=b[0])
    if builder == "xy":
        return qops.ham_XY, (n, j[0], b[2]), {}
    if builder == "xxz":
        return qops.ham_XXZ, (n, j[2]), dict(jxy=j[0])
    if builder == "j1j2":
        return qops.ham_j1j2, (n,), dict(j1=j[0], j2=j[1], bz=b[2])
    if builder == "j1j2_cyc":
        return qops.ham_j1j2, (n,), dict(j1=j[0], j2=j[1], bz=b[2], cyclic=True)
    if builder == "mbl":
        return qops.ham_mbl, (n, 0.5), dict(j=j, bz=b[2], seed=7, dh_dim=3)
    if builder.startswith("heis2d"):
        r, c = (int(x) for x in builder.rsplit("_", 1)[1].split("x"))
        return qops.ham_heis_2D, (r, c), dict(j=j, bz=b[2], cyclic="cyc" in builder)
    raise KeyError(builder)


@obligation(PROP, params=_ham_cases(), exc_is_violation=True, max_paths=6000, wall_s=700, timeout_s=900)
def ham_ownership_rows(mk, builder, n):
    """ham_*(..., ownership=(ri, rf)) == rows [ri, rf) of the full Hamiltonian, dense and sparse
    output, for every feasible range (ri, rf symbolic, concretised per path by the solver)"""
    mk.encodes(qops.ham_heis, qops.ham_j1j2, qops.ham_mbl, qops.ham_heis_2D, qops.hamiltonian_builder, qc.ikron, qc.kron)
    fn, args, kw = _ham_call(mk, builder, n)
    D = 2 ** n
    ri, rf = _draw_range(mk, D)
    a, b = int(ri), int(rf)
    full = _dense(fn(*args, **kw))
    _same(mk, "full shape", tuple(full.shape), (D, D))
    got = fn(*args, ownership=(a, b), **kw)
    _eqs(mk, f"{builder}(n={n}, ownership=({a},{b})) dense", got, full[a:b, :])
    got = fn(*args, ownership=(a, b), sparse=True, **kw)
    _same(mk, "sparse output", sp.issparse(got), True)
    _eqs(mk, f"{builder}(n={n}, ownership=({a},{b})) sparse", got, full[a:b, :])
    fs = fn(*args, sparse=True, stype="csc", **kw)
    _same(mk, "stype honoured", fs.format, "csc")
    mk.eq(f"{builder}(n={n}) sparse csc == dense", _dense(fs), full)
