"""C15 - Kronecker, embedding, permutation and partial-trace routines obey their algebra.

Value level (engine ST): every matrix / ket entry is a symbol (conj-pair complex); the REAL
``kron / ikron / pkron / permute / partial_trace / itrace / partial_transpose`` are executed on
object arrays of such symbols and compared, entry by entry as polynomial identities decided by
z3 (Q-ID), with explicit index-arithmetic references (``qv.ref`` and the loops below).

Integer level (engine SX): the row-ownership arithmetic of ``kron(..., ownership=(ri, rf))``
(``dynal``, ``gen_matching_dynal``, ``gen_ops_maybe_sliced``, the ``ri_got/rf_got/di/df``
correction) is executed on *symbolic* ``ri, rf``; ``dim_map`` on symbolic coordinates,
``dim_compress`` on symbolic subsystem dimensions.

Sparse inputs / Hamiltonian builders: scipy.sparse cannot hold symbolic scalars, so these run
on concrete exactly-representable (dyadic) entries while the *structural* inputs (ownership
range) stay solver-enumerated; the numeric cross-run repeats them on random entries.
"""
import itertools

import numpy as np
import scipy.sparse as sp

import quimb as qu
import quimb.core as qc
import quimb.calc as qcalc
import quimb.gen.operators as qops

from qv import poly as P
from qv import ref
from qv.harness import obligation, Skip

PROP = "C15"
META = {
    "bounds": {
        "quick": {},
        "thorough": {},
    },
    "outside": [],
    "assumptions": [],
}

# ---------------------------------------------------------------------- dtype shims
# quimb picks output dtypes by *name* (common_type) and casts with ``astype(complex)``; an object
# array of exact symbolic scalars has no such dtype.  The two shims below only trigger on
# ``dtype == object`` (like qv/stubs.py); numeric calls reach the genuine code unchanged.

_real_common_type = qc.common_type


def _common_type(*arrays):
    if any(getattr(a, "dtype", None) == object for a in arrays):
        return object
    return _real_common_type(*arrays)


def _qarray_astype(self, dtype, *a, **k):
    if self.dtype == object and np.dtype(dtype) != object:
        return self.copy()
    return np.ndarray.astype(self, dtype, *a, **k)


qc.common_type = _common_type
qc.qarray.astype = _qarray_astype


# ---------------------------------------------------------------------- references

def prod(xs):
    r = 1
    for x in xs:
        r *= x
    return r


def _empty(shape, like):
    return np.empty(shape, dtype=object if np.asarray(like).dtype == object else np.asarray(like).dtype)


def _zero(like):
    return P.ZERO if np.asarray(like).dtype == object else np.asarray(like).dtype.type(0)


def flat(idx, dims):
    r = 0
    for i, d in zip(idx, dims):
        r = r * d + i
    return r


def multis(dims):
    return list(itertools.product(*[range(d) for d in dims]))


def proj(psi):
    """|psi><psi| of a ket given as (D,1) / (D,) array"""
    v = np.asarray(psi).reshape(-1)
    out = _empty((v.size, v.size), v)
    for i in range(v.size):
        for j in range(v.size):
            out[i, j] = v[i] * v[j].conjugate()
    return out


def ref_ptr(rho, dims, keep):
    """reduced operator on the subsystems in `keep` (a set; kept in ascending order)"""
    rho = np.asarray(rho)
    n = len(dims)
    keep = sorted(set(keep))
    lose = [i for i in range(n) if i not in keep]
    kd = [dims[i] for i in keep]
    ld = [dims[i] for i in lose]
    dk = prod(kd)
    out = _empty((dk, dk), rho)

    def full(kidx, lidx):
        idx = [0] * n
        for i, v in zip(keep, kidx):
            idx[i] = v
        for i, v in zip(lose, lidx):
            idx[i] = v
        return flat(idx, dims)

    for a in multis(kd):
        for b in multis(kd):
            tot = _zero(rho)
            for l in multis(ld):
                tot = tot + rho[full(a, l), full(b, l)]
            out[flat(a, kd), flat(b, kd)] = tot
    return out


def ref_permute(p, dims, perm):
    """new subsystem k is old subsystem perm[k]"""
    p = np.asarray(p)
    nd = [dims[k] for k in perm]
    D = prod(dims)
    mp = {}
    for i in multis(dims):
        mp[flat(i, dims)] = flat([i[k] for k in perm], nd)
    if p.ndim == 2 and p.shape == (D, D) and D > 1:
        out = _empty((D, D), p)
        for r in range(D):
            for c in range(D):
                out[mp[r], mp[c]] = p[r, c]
        return out
    v = p.reshape(-1)
    out = _empty((D,), p)
    for r in range(D):
        out[mp[r]] = v[r]
    return out


def ref_ptranspose(rho, dims, sysa):
    rho = np.asarray(rho)
    D = prod(dims)
    sysa = set(sysa)
    out = _empty((D, D), rho)
    for r in multis(dims):
        for c in multis(dims):
            R = [c[i] if i in sysa else r[i] for i in range(len(dims))]
            C = [r[i] if i in sysa else c[i] for i in range(len(dims))]
            out[flat(R, dims), flat(C, dims)] = rho[flat(r, dims), flat(c, dims)]
    return out


def ordered_subsets(n, rmin=1, rmax=None):
    rmax = n if rmax is None else rmax
    for r in range(rmin, rmax + 1):
        for s in itertools.permutations(range(n), r):
            yield s


# ---------------------------------------------------------------------- configurations

_ALL3 = [d for n in (1, 2, 3) for d in itertools.product((1, 2, 3), repeat=n)]
_QUICK_DIMS = [(2,), (3,), (2, 2), (2, 3), (3, 2), (1, 2), (2, 1), (2, 2, 2), (2, 3, 2), (3, 1, 2), (1, 2, 3), (2, 2, 3)]
_LEN4 = (2, 1, 3, 2)


def _dims_params(extra_quick=(), skip=lambda d: False, len4_quick=False):
    out = []
    for d in _ALL3 + [_LEN4]:
        if skip(d):
            continue
        q = d in _QUICK_DIMS or d in extra_quick or (len4_quick and d == _LEN4)
        out.append({"dims": d, "_tiers": ("quick", "thorough") if q else ("thorough",)})
    return out


def _site_ops(mk, dims, name="A"):
    return [mk.array(f"{name}{s}", (d, d), "cplx") for s, d in enumerate(dims)]


# ---------------------------------------------------------------------- kron

_KRON_SHAPES = {
    "op2x3": [(2, 2), (3, 3)],
    "op3x2": [(3, 3), (2, 2)],
    "op222": [(2, 2), (2, 2), (2, 2)],
    "op213": [(2, 2), (1, 1), (3, 3)],
    "op1": [(3, 3)],
    "kets23": [(2, 1), (3, 1)],
    "kets322": [(3, 1), (2, 1), (2, 1)],
    "bras23": [(1, 2), (1, 3)],
    "rect": [(2, 3), (3, 2)],
    "rect3": [(1, 2), (2, 1), (2, 2)],
    "ketop": [(2, 1), (2, 2)],
    "op2132": [(2, 2), (1, 1), (3, 3), (2, 2)],
    "op333": [(3, 3), (3, 3), (3, 3)],
}
_KRON_QUICK = ("op2x3", "op222", "op213", "op1", "kets23", "bras23", "rect", "rect3", "ketop")


@obligation(PROP, params=[{"shapes": k, "_tiers": ("quick", "thorough") if k in _KRON_QUICK else ("thorough",)}
                          for k in _KRON_SHAPES], exc_is_violation=True)
def kron_explicit(mk, shapes):
    """kron(*ops) / a & b / kronpow == explicit Kronecker product (operators, kets, bras, rectangular)"""
    mk.encodes(qc.kron, qc._kron_core, qc.kron_dispatch, qc.kron_dense, qc._kron_dense_numba, qc.kronpow)
    ops = [mk.array(f"K{i}", s, "cplx") for i, s in enumerate(_KRON_SHAPES[shapes])]
    want = ref.kron(*ops)
    got = qc.kron(*ops)
    mk.same("shape", tuple(got.shape), tuple(want.shape))
    mk.eq("kron(*ops)", got, want)
    if len(ops) >= 2:
        acc = qc.qarray(ops[0])
        for o in ops[1:]:
            acc = acc & qc.qarray(o)
        mk.eq("a & b & ...", acc, want)
        # associativity with the pairwise kernel, both bracketings
        mk.eq("kron(a, kron(rest))", qc.kron(ops[0], qc.kron(*ops[1:])), want)
        mk.eq("kron(kron(init), z)", qc.kron(qc.kron(*ops[:-1]), ops[-1]), want)
    mk.eq("kronpow(a, 2)", qc.kronpow(ops[0], 2), ref.kron(ops[0], ops[0]))
    if prod(ops[0].shape) <= 4:
        mk.eq("kronpow(a, 3)", qc.kronpow(ops[0], 3), ref.kron(ops[0], ops[0], ops[0]))


# ---------------------------------------------------------------------- ikron

def _ikron_want(dims, placed, like):
    mats = [placed.get(s, None) for s in range(len(dims))]
    mats = [m if m is not None else ref.eye(dims[s], like=like) for s, m in enumerate(mats)]
    return ref.kron(*mats)


@obligation(PROP, params=_dims_params(len4_quick=True), exc_is_violation=True)
def ikron_sites(mk, dims):
    """ikron(ops, dims, inds): one operator per index, inds in every order; a bare operator with
    an integer index; fewer operators than indices (cyclic placement)"""
    mk.encodes(qc.ikron, qc.kron, qc.identity, qc._identity_dense, qc.kron_dense)
    n = len(dims)
    A = _site_ops(mk, dims)
    for s in range(n):
        want = _ikron_want(dims, {s: A[s]}, A[s])
        mk.eq(f"ikron(A{s}, {dims}, {s})", qc.ikron(A[s], dims, s), want)
        mk.eq(f"ikron([A{s}], {dims}, [{s}])", qc.ikron([A[s]], list(dims), [s]), want)
    for inds in ordered_subsets(n, 2):
        ops = [A[s] for s in inds]
        want = _ikron_want(dims, dict(zip(inds, ops)), A[0])
        mk.eq(f"ikron(ops, {dims}, {inds})", qc.ikron(ops, dims, inds), want)
        # cyclic placement of m < len(inds) operators: index j receives ops[j % m]
        for m in range(1, len(inds)):
            if all(dims[inds[j]] == dims[inds[j % m]] for j in range(len(inds))):
                placed = {inds[j]: ops[j % m] for j in range(len(inds))}
                want = _ikron_want(dims, placed, A[0])
                arg = ops[0] if m == 1 else ops[:m]
                mk.eq(f"ikron cyclic m={m} {dims} {inds}", qc.ikron(arg, dims, inds), want)


def _blocks(n):
    for i in range(n):
        for j in range(i + 1, n):
            yield tuple(range(i, j + 1))


@obligation(PROP, params=_dims_params(len4_quick=True, skip=lambda d: len(d) < 2), exc_is_violation=True)
def ikron_overlay(mk, dims):
    """one operator overlaid on several adjacent subsystems (indices in any order), and `-1`
    auto-sized placement"""
    mk.encodes(qc.ikron, qc.kron)
    n = len(dims)
    ops = {}
    for blk in _blocks(n):
        k = prod(dims[s] for s in blk)
        if k not in ops:
            ops[k] = mk.array(f"O{k}", (k, k), "cplx")
        want = ref.embed(ops[k], dims, blk)
        perms = list(itertools.permutations(blk))
        if len(perms) > 6:
            perms = perms[::5]
        for inds in perms:
            mk.eq(f"overlay {dims} {inds}", qc.ikron(ops[k], dims, list(inds)), want)
    # auto-size: a -1 dimension takes whatever size the operator has
    for s in range(n):
        k = dims[s] + 1
        B = mk.array(f"B{k}", (k, k), "cplx")
        d2 = list(dims)
        d2[s] = -1
        d3 = list(dims)
        d3[s] = k
        mk.eq(f"autosize {d2} at {s}", qc.ikron(B, d2, s), ref.embed(B, d3, (s,)))


# ---------------------------------------------------------------------- pkron

@obligation(PROP, params=_dims_params(len4_quick=False), exc_is_violation=True)
def pkron_embed(mk, dims):
    """pkron(op, dims, inds) == op acting on dims[inds] in that order (any order, non-adjacent)"""
    mk.encodes(qc.pkron, qc.ikron, qc.permute, qc._permute_dense)
    n = len(dims)
    ops = {}
    for inds in ordered_subsets(n):
        k = prod(dims[s] for s in inds)
        if k not in ops:
            ops[k] = mk.array(f"Q{k}", (k, k), "cplx")
        mk.eq(f"pkron {dims} {inds}", qc.pkron(ops[k], dims, inds), ref.embed(ops[k], dims, inds))
        mk.eq(f"pkron {dims} {inds} (lists)", qc.pkron(ops[k], list(dims), list(inds)), ref.embed(ops[k], dims, inds))


# ---------------------------------------------------------------------- permute

@obligation(PROP, params=_dims_params(len4_quick=False, skip=lambda d: len(d) < 2), exc_is_violation=True)
def permute_explicit(mk, dims):
    """permute(p, dims, perm) for operators, kets, bras == explicit index permutation;
    permute o ikron == ikron on the permuted subsystems; ket vs projector"""
    mk.encodes(qc.permute, qc._permute_dense, qc.ikron)
    n = len(dims)
    D = prod(dims)
    M = mk.array("M", (D, D), "cplx")
    psi = mk.array("psi", (D, 1), "cplx")
    bra = mk.array("phi", (1, D), "cplx")
    A = _site_ops(mk, dims)
    for perm in itertools.permutations(range(n)):
        nd = tuple(dims[k] for k in perm)
        got = qc.permute(M, dims, perm)
        mk.same(f"op shape {perm}", tuple(got.shape), (D, D))
        mk.eq(f"permute(op, {dims}, {perm})", got, ref_permute(M, dims, perm))
        gk = qc.permute(psi, dims, list(perm))
        mk.same(f"ket shape {perm}", tuple(gk.shape), (D, 1))
        mk.eq(f"permute(ket, {dims}, {perm})", gk, ref_permute(psi, dims, perm))
        mk.eq(f"permute(bra, {dims}, {perm}) values", qc.permute(bra, dims, perm), ref_permute(bra, dims, perm))
        if D > 1:
            mk.eq(f"permute(|psi><psi|) == |permute psi><..| {perm}", qc.permute(proj(psi), dims, perm), proj(gk))
        # inverse permutation undoes it
        inv = tuple(perm.index(k) for k in range(n))
        mk.eq(f"permute(permute(op, perm), inv) {perm}", qc.permute(got, nd, inv), M)
        if D > 1:
            for s in range(n):
                E = qc.ikron(A[s], dims, s)
                mk.eq(f"permute(ikron(A{s})) {perm}", qc.permute(E, dims, perm), qc.ikron(A[s], nd, perm.index(s)))
                mk.eq(f"permute(ikron(A{s})) {perm} vs embed", qc.permute(E, dims, perm), ref.embed(A[s], nd, (perm.index(s),)))
            if n >= 2:
                E = qc.ikron([A[0], A[n - 1]], dims, [0, n - 1])
                mk.eq(f"permute(ikron([A0,A{n - 1}])) {perm}", qc.permute(E, dims, perm),
                      qc.ikron([A[0], A[n - 1]], nd, [perm.index(0), perm.index(n - 1)]))


# ---------------------------------------------------------------------- partial trace

def _keeps(n):
    yield ()
    for s in ordered_subsets(n):
        yield s


@obligation(PROP, params=_dims_params(len4_quick=False, skip=lambda d: prod(d) == 1), exc_is_violation=True)
def partial_trace_explicit(mk, dims):
    """partial_trace(p, dims, keep) for density operators and kets, keep subsets in any order"""
    mk.encodes(qc.partial_trace, qc._partial_trace_dense, qc.itrace, qc.ind_complement)
    n = len(dims)
    D = prod(dims)
    rho = mk.array("rho", (D, D), "cplx")
    psi = mk.array("psi", (D, 1), "cplx")
    pp = proj(psi)
    for keep in _keeps(n):
        want = ref_ptr(rho, dims, keep)
        got = qc.partial_trace(rho, dims, list(keep))
        mk.same(f"shape keep={keep}", tuple(got.shape), tuple(want.shape))
        mk.eq(f"ptr(rho, {dims}, {keep})", got, want)
        wk = ref_ptr(pp, dims, keep)
        mk.eq(f"ptr(ket, {dims}, {keep}) == ptr(projector)", qc.partial_trace(psi, dims, keep), wk)
        mk.eq(f"ptr(projector, {dims}, {keep})", qc.partial_trace(pp, list(dims), keep), wk)
        if len(keep) == 1:
            mk.eq(f"ptr(rho, {dims}, {keep[0]}) int keep", qc.partial_trace(rho, dims, keep[0]), want)
            mk.eq(f"qarray.ptr int keep {keep[0]}", qc.qarray(psi).ptr(dims, keep[0]), wk)
    mk.eq("ptr(1-D ket)", qc.partial_trace(psi.reshape(-1), dims, 0), ref_ptr(pp, dims, (0,)))


@obligation(PROP, params=_dims_params(len4_quick=False, skip=lambda d: prod(d) == 1), exc_is_violation=True)
def ptr_adjoint_of_embedding(mk, dims):
    """Tr[embed(A, keep) rho] == Tr[A ptr(rho, keep)] for symbolic A, rho; <psi|embed(A)|psi> for kets"""
    mk.encodes(qc.partial_trace, qc.pkron, qc.ikron, qc.expectation, qc.trace, qc._trace_dense)
    n = len(dims)
    D = prod(dims)
    rho = mk.array("rho", (D, D), "cplx")
    psi = mk.array("psi", (D, 1), "cplx")
    ops = {}
    for r in range(1, n + 1):
        for keep in itertools.combinations(range(n), r):
            k = prod(dims[s] for s in keep)
            if k not in ops:
                ops[k] = mk.array(f"A{k}", (k, k), "cplx")
            A = ops[k]
            red = qc.partial_trace(rho, dims, keep)
            rhs = ref.trace(ref.matmul(A, red))
            E = qc.pkron(A, dims, keep)
            mk.eq(f"Tr[pkron(A,{keep}) rho] == Tr[A ptr(rho,{keep})]", ref.trace(ref.matmul(E, rho)), rhs)
            mk.eq(f"expec(pkron(A,{keep}), rho)", qc.expectation(E, rho), rhs)
            contiguous = list(keep) == list(range(keep[0], keep[-1] + 1))
            if contiguous:
                E2 = qc.ikron(A, dims, list(keep))
                mk.eq(f"Tr[ikron(A,{keep}) rho] == Tr[A ptr(rho,{keep})]", qc.trace(E2 @ rho), rhs)
            # reversed keep: same reduced state (set semantics), same identity
            red2 = qc.partial_trace(rho, dims, keep[::-1])
            mk.eq(f"Tr[A ptr(rho, reversed {keep})]", ref.trace(ref.matmul(A, red2)), rhs)
            redk = qc.partial_trace(psi, dims, keep)
            want_k = ref.matmul(ref.dag(psi), ref.matmul(E, psi))
            mk.eq(f"<psi|pkron(A,{keep})|psi> == Tr[A ptr(psi)]", ref.trace(ref.matmul(A, redk)), want_k)
            mk.eq(f"expec(psi, pkron(A,{keep}))", qc.expectation(psi, E), want_k)


# ---------------------------------------------------------------------- itrace

_ITRACE = {
    "pair": ((2, 3, 2), (0, 2)),
    "pair_rev": ((2, 3, 2), (2, 0)),
    "pair4": ((2, 3, 3, 2), (1, 2)),
    "list1": ((3, 2, 3), ([0], [2])),
    "multi": ((2, 3, 2, 3), ([0, 1], [2, 3])),
    "multi_rev": ((2, 3, 2, 3), ([1, 0], [3, 2])),
    "multi_cross": ((2, 3, 3, 2), ([0, 1], [3, 2])),
    "multi_mixed": ((2, 3, 2, 2, 3), ([4, 0], [1, 2])),
    "multi_keep": ((2, 2, 3, 2, 2, 3), ([0, 2], [3, 5])),
    "multi_keep2": ((2, 2, 3, 2, 2, 3), ([4, 0], [1, 3])),
    "triple": ((2, 1, 3, 2, 1, 3), ([2, 0, 1], [5, 3, 4])),
    "second_before_first": ((2, 3, 2, 3, 2), ([3, 2], [1, 0])),
}


@obligation(PROP, params=[{"case": k} for k in _ITRACE], exc_is_violation=True)
def itrace_explicit(mk, case):
    """itrace(a, axes) == explicit sum over the paired axes, remaining axes in order"""
    mk.encodes(qc.itrace)
    shape, axes = _ITRACE[case]
    T = mk.array("T", shape, "cplx")
    if isinstance(axes[0], int):
        pairs = [(axes[0], axes[1])]
    else:
        pairs = list(zip(*axes))
    labels = [f"k{i}" for i in range(len(shape))]
    for q, (a, b) in enumerate(pairs):
        labels[a] = labels[b] = f"t{q}"
    out = tuple(l for l in labels if l.startswith("k"))
    want = ref.sum_of_products([(T, tuple(labels))], out)
    got = qc.itrace(T, axes)
    mk.same("shape", tuple(np.shape(got)), tuple(want.shape))
    mk.eq(f"itrace({shape}, {axes})", got, want)


# ---------------------------------------------------------------------- partial transpose

@obligation(PROP, params=_dims_params(len4_quick=False, skip=lambda d: prod(d) == 1), exc_is_violation=True)
def partial_transpose_explicit(mk, dims):
    """partial_transpose(rho, dims, sysa) == explicit index transposition; involution; kets"""
    mk.encodes(qcalc.partial_transpose, qc.quimbify)
    n = len(dims)
    D = prod(dims)
    rho = mk.array("rho", (D, D), "cplx")
    psi = mk.array("psi", (D, 1), "cplx")
    pp = proj(psi)
    mk.eq("sysa=() is the identity", qcalc.partial_transpose(rho, dims, ()), rho)
    for sysa in ordered_subsets(n):
        want = ref_ptranspose(rho, dims, sysa)
        got = qcalc.partial_transpose(rho, dims, sysa)
        mk.eq(f"pT(rho, {dims}, {sysa})", got, want)
        mk.eq(f"pT(pT(rho)) == rho {sysa}", qcalc.partial_transpose(got, dims, list(sysa)), rho)
        if len(sysa) == 1:
            mk.eq(f"pT int sysa={sysa[0]}", qcalc.partial_transpose(rho, dims, sysa[0]), want)
        if len(sysa) == n:
            mk.eq("pT over every subsystem == transpose", got, np.asarray(rho).T)
        if sysa == tuple(sorted(sysa)):
            mk.eq(f"pT(ket) == pT(projector) {sysa}", qcalc.partial_transpose(psi, dims, sysa), ref_ptranspose(pp, dims, sysa))
            comp = tuple(i for i in range(n) if i not in sysa)
            mk.eq(f"pT over complement == transpose of pT {sysa}", qcalc.partial_transpose(rho, dims, comp), np.asarray(want).T)


# ====================================================================== integer level (SX)

def _draw_range(mk, D):
    """symbolic ownership range 0 <= ri < rf <= D (numeric mode: a random valid range)"""
    ri = mk.int("ri", 0, D - 1)
    rf = mk.int("rf", 1, D)
    if not mk.sym and not ri < rf:
        ri, rf = rf - 1, ri + 1
    mk.assume(ri < rf)
    return ri, rf


_DIGIT_DIMS = [(2,), (5,), (2, 2), (2, 3), (3, 2), (1, 3), (3, 1), (2, 2, 2), (2, 3, 2), (3, 1, 2), (1, 1, 2), (4, 3, 5),
               (2, 2, 2, 2), (2, 1, 3, 2), (13, 2, 7, 3, 10), (3, 3, 3, 3), (2,) * 6, (7, 1, 1, 5), (2,) * 10]
_DIGIT_QUICK = [(2,), (2, 3), (3, 1), (2, 2, 2), (2, 3, 2), (3, 1, 2), (1, 1, 2), (2, 1, 3, 2), (13, 2, 7, 3, 10), (2,) * 6]


def _tier_params(key, allv, quick):
    return [{key: v, "_tiers": ("quick", "thorough") if v in quick else ("thorough",)} for v in allv]


@obligation(PROP, params=_tier_params("dims", _DIGIT_DIMS, _DIGIT_QUICK), exc_is_violation=True)
def dynal_digits(mk, dims):
    """dynal(x, dims) are the mixed-radix digits of x: 0 <= digit_i < dims_i, sum digit_i*stride_i == x
    (x a symbolic integer, no enumeration); gen_matching_dynal returns the common digit prefix of
    two symbolic numbers plus the first differing pair"""
    mk.encodes(qc.dynal, qc.gen_matching_dynal)
    D = prod(dims)
    n = len(dims)
    strides = [prod(dims[i + 1:]) for i in range(n)]
    x = mk.int("x", 0, D - 1)
    dig = list(qc.dynal(x, dims))
    mk.same("one digit per base", len(dig), n)
    tot = 0
    for i, (d, b) in enumerate(zip(dig, dims)):
        mk.check(d >= 0, f"digit {i} >= 0")
        mk.check(d < b, f"digit {i} < base {b}")
        tot = tot + d * strides[i]
    mk.check(tot == x, "digits recompose x")
    y = mk.int("y", 0, D - 1)
    if not mk.sym and y < x:
        x, y = y, x
    mk.assume(x <= y)
    dx, dy = list(qc.dynal(x, dims)), list(qc.dynal(y, dims))
    pairs = list(qc.gen_matching_dynal(x, y, dims))
    m = len(pairs)
    mk.check(1 <= m <= n, "between 1 and n pairs")
    for k, (a, b) in enumerate(pairs):
        mk.check((a == dx[k]) & (b == dy[k]), f"pair {k} holds digit {k} of both numbers")
        if k < m - 1:
            mk.check(a == b, f"pair {k} (not last) matches")
    a, b = pairs[-1]
    if m < n:
        mk.check(a < b, "generation stops early only at a differing pair (first differing digit of x <= y is smaller)")
    else:
        mk.check(a <= b, "last digit ordered")


class _SpanOp:
    """stand-in kron operand that records the row slice the real code asks for"""

    def __init__(self, d, lo=None, hi=None, sliced=False):
        self.d = d
        self.shape = (d, d)
        self.lo, self.hi, self.sliced = lo, hi, sliced

    def __getitem__(self, idx):
        rs, cs = idx
        assert isinstance(rs, slice) and rs.step is None and cs == slice(None)
        assert not self.sliced
        return _SpanOp(self.d, rs.start, rs.stop, True)


class _SpanProd:
    def __init__(self, ops):
        self.ops = ops
        self.final = None

    def __getitem__(self, idx):
        rs, cs = idx
        assert isinstance(rs, slice) and rs.step is None and cs == slice(None)
        assert self.final is None
        out = _SpanProd(self.ops)
        out.final = (rs.start, rs.stop)
        return out


_SPAN_DIMS = _DIGIT_DIMS


@obligation(PROP, params=_tier_params("dims", _SPAN_DIMS, _DIGIT_QUICK), exc_is_violation=True, max_paths=4000)
def ownership_row_spans(mk, dims):
    """the REAL kron(..., ownership=(ri, rf)) on symbolic ri, rf (no enumeration of the range) with
    operands that record the row slices requested and a recording product: the slices are valid,
    select a contiguous block of product rows, and the final correction slice cuts it to exactly
    rows [ri, rf)"""
    mk.encodes(qc.kron, qc.dynal, qc.gen_matching_dynal, qc.gen_ops_maybe_sliced)
    D = prod(dims)
    n = len(dims)
    strides = [prod(dims[i + 1:]) for i in range(n)]
    ri, rf = _draw_range(mk, D)
    ops = [_SpanOp(d) for d in dims]
    real_core = qc._kron_core
    qc._kron_core = lambda *o, **kw: _SpanProd(o)
    try:
        X = qc.kron(*ops, ownership=(ri, rf))
    finally:
        qc._kron_core = real_core
    mk.same("one (possibly sliced) operand per factor", len(X.ops), n)
    m = sum(1 for o in X.ops if o.sliced)
    mk.same("sliced operands form a prefix", [o.sliced for o in X.ops], [True] * m + [False] * (n - m))
    start = 0
    stop = 0
    for k in range(m):
        o = X.ops[k]
        mk.check((0 <= o.lo) & (o.lo < o.hi) & (o.hi <= dims[k]), f"row slice of factor {k} is valid and non-empty")
        if k < m - 1:
            mk.check(o.hi == o.lo + 1, f"factor {k} (not the last sliced one) keeps a single row -> rows stay contiguous")
            start = start + o.lo * strides[k]
            stop = stop + o.lo * strides[k]
        else:
            start = start + o.lo * strides[k]
            stop = stop + o.hi * strides[k]
    if m == 0:
        start, stop = 0, D
    nrows = stop - start
    if X.final is None:
        lo, hi = start, stop
    else:
        di, df = X.final
        # python slicing semantics of X[di:df]
        if di is None:
            di = 0
        mk.check((0 <= di) & (di <= nrows), "correction start within the produced rows (no wrap-around)")
        if df is None:
            hi = stop
        elif df < 0:
            mk.check(df >= -nrows, "negative stop within the produced rows")
            hi = stop + df
        else:
            mk.check(df <= nrows, "stop within the produced rows")
            hi = start + df
        lo = start + di
    mk.check(lo == ri, "first row delivered is ri")
    mk.check(hi == rf, "one past the last row delivered is rf")


_OWN_SHAPES = {
    "op22": [(2, 2), (2, 2)],
    "op23": [(2, 2), (3, 3)],
    "op32": [(3, 3), (2, 2)],
    "op13": [(1, 1), (3, 3)],
    "op31": [(3, 3), (1, 1)],
    "op4": [(4, 4)],
    "op222": [(2, 2), (2, 2), (2, 2)],
    "op232": [(2, 2), (3, 3), (2, 2)],
    "op312": [(3, 3), (1, 1), (2, 2)],
    "kets23": [(2, 1), (3, 1)],
    "kets222": [(2, 1), (2, 1), (2, 1)],
    "rect": [(2, 3), (3, 1), (2, 2)],
    "op223": [(2, 2), (2, 2), (3, 3)],
    "op2222": [(2, 2), (2, 2), (2, 2), (2, 2)],
    "op2132": [(2, 2), (1, 1), (3, 3), (2, 2)],
    "op332": [(3, 3), (3, 3), (2, 2)],
    "op44": [(4, 4), (4, 4)],
    "op234": [(2, 2), (3, 3), (4, 4)],
}
_OWN_QUICK = ("op22", "op23", "op32", "op13", "op31", "op4", "op222", "op232", "op312", "kets23", "kets222", "rect")


@obligation(PROP, params=_tier_params("shapes", list(_OWN_SHAPES), _OWN_QUICK), exc_is_violation=True,
            max_paths=6000, wall_s=600, timeout_s=900)
def kron_ownership_rows(mk, shapes):
    """kron(*ops, ownership=(ri, rf)) == rows [ri, rf) of the explicit product: symbolic entries,
    symbolic ri, rf driven through the real digit / slicing code (which concretises them where it
    slices: solver-driven enumeration of every feasible range)"""
    mk.encodes(qc.kron, qc.dynal, qc.gen_matching_dynal, qc.gen_ops_maybe_sliced, qc._kron_core, qc.kron_dense)
    ops = [mk.array(f"K{i}", s, "cplx") for i, s in enumerate(_OWN_SHAPES[shapes])]
    full = ref.kron(*ops)
    D = full.shape[0]
    ri, rf = _draw_range(mk, D)
    got = qc.kron(*ops, ownership=(ri, rf))
    a, b = int(ri), int(rf)
    mk.same(f"shape of rows [{a},{b})", tuple(got.shape), (b - a, full.shape[1]))
    mk.eq(f"kron(ownership=({a},{b})) == full[{a}:{b}]", got, full[a:b, :])


@obligation(PROP, params=[{"shapes": k} for k in ("op23", "op222", "kets23")], exc_is_violation=True)
def kron_ownership_rejects(mk, shapes):
    """ranges outside 0 <= ri < D, 0 < rf <= D are rejected"""
    mk.encodes(qc.kron)
    ops = [mk.array(f"K{i}", s, "cplx") for i, s in enumerate(_OWN_SHAPES[shapes])]
    D = prod(s[0] for s in _OWN_SHAPES[shapes])
    for own in ((D, D), (-1, 2), (0, 0), (0, D + 1), (D, D + 1)):
        mk.raises(f"ownership={own} of D={D}", lambda own=own: qc.kron(*ops, ownership=own), (ValueError,))


_IOWN = {
    "d222_i1": ((2, 2, 2), (1,)),
    "d222_i02": ((2, 2, 2), (0, 2)),
    "d222_i20": ((2, 2, 2), (2, 0)),
    "d232_i1": ((2, 3, 2), (1,)),
    "d322_i0": ((3, 2, 2), (0,)),
    "d223_i2": ((2, 2, 3), (2,)),
    "d23_i01": ((2, 3), (0, 1)),
    "d213_i1": ((2, 1, 3), (1,)),
    "d2222_i12": ((2, 2, 2, 2), (1, 2)),
    "d2222_i03": ((2, 2, 2, 2), (0, 3)),
    "d2322_i2": ((2, 3, 2, 2), (2,)),
}
_IOWN_QUICK = ("d222_i1", "d222_i02", "d222_i20", "d232_i1", "d322_i0", "d223_i2", "d23_i01", "d213_i1")


@obligation(PROP, params=_tier_params("case", list(_IOWN), _IOWN_QUICK), exc_is_violation=True,
            max_paths=6000, wall_s=600, timeout_s=900)
def ikron_ownership_rows(mk, case):
    """ikron(ops, dims, inds, ownership=(ri, rf)) == rows [ri, rf) of the explicit embedding
    (identities are merged by ikron, so the digit bases differ from `dims`)"""
    mk.encodes(qc.ikron, qc.kron, qc.gen_matching_dynal, qc.gen_ops_maybe_sliced)
    dims, inds = _IOWN[case]
    A = _site_ops(mk, dims)
    ops = [A[s] for s in inds]
    full = _ikron_want(dims, dict(zip(inds, ops)), A[0])
    D = prod(dims)
    ri, rf = _draw_range(mk, D)
    got = qc.ikron(ops, dims, inds, ownership=(ri, rf))
    a, b = int(ri), int(rf)
    mk.same(f"shape of rows [{a},{b})", tuple(got.shape), (b - a, D))
    mk.eq(f"ikron(ownership=({a},{b})) == full[{a}:{b}]", got, full[a:b, :])


# ---------------------------------------------------------------------- dim_map

def _nested(shape, vals):
    """nested list of the given shape filled from the iterator vals"""
    if len(shape) == 1:
        return [next(vals) for _ in range(shape[0])]
    return [_nested(shape[1:], vals) for _ in range(shape[0])]


_DM_SHAPES = [(3,), (5,), (2, 2), (3, 2), (2, 3), (2, 2, 2), (2, 3, 2), (1, 3), (2, 1, 2), (2, 2, 2, 2)]
_DM_QUICK = [(3,), (2, 2), (3, 2), (2, 2, 2), (1, 3), (2, 3, 2)]
_DM_PARAMS = [{"shape": s, "mode": m, "_tiers": ("quick", "thorough") if s in _DM_QUICK else ("thorough",)}
              for s in _DM_SHAPES for m in ("strict", "cyclic", "trim", "cyclic+trim")]


@obligation(PROP, params=_DM_PARAMS, exc_is_violation=True, max_paths=4000)
def dim_map_coordinates(mk, shape, mode):
    """dim_map(dims, coos, cyclic, trim) with symbolic (unbounded) coordinates == sum (c mod s)*stride
    (cyclic), drops exactly the out-of-range coordinates (trim), rejects them (strict);
    cyclic overrides trim (documented)"""
    mk.encodes(qc.dim_map, qc._dim_map_1d, qc._dim_map_1dtrim, qc._dim_map_1dcyclic, qc._dim_map_2d, qc._dim_map_2dtrim,
               qc._dim_map_2dcyclic, qc._dim_map_nd, qc._find_shape_of_nested_int_array)
    nd = len(shape)
    nsites = prod(shape)
    cyc = itertools.cycle((2, 3, 1, 2, 2, 3))
    vals = [next(cyc) for _ in range(nsites)]
    dims = _nested(shape, iter(vals))
    ncoo = 2 if nd <= 2 else 1 if nd >= 4 else 2
    coos = [tuple(mk.int(f"c{k}{a}", None, None) for a in range(nd)) for k in range(ncoo)]
    strides = [prod(shape[a + 1:]) for a in range(nd)]
    cyclic = mode.startswith("cyclic")
    trim = mode.endswith("trim")
    try:
        fd, inds = qc.dim_map(dims, coos, cyclic=cyclic, trim=trim)
        raised = False
    except ValueError:
        raised = True
    inr = [all(bool((0 <= c) & (c < s)) for c, s in zip(coo, shape)) for coo in coos]
    if raised:
        mk.same("rejected only in strict mode", mode, "strict")
        mk.same("rejected only when a coordinate is out of range", all(inr), False)
        return
    mk.same("flattened dims", tuple(fd), tuple(vals))
    if cyclic:
        want = [sum((c % s) * m for c, s, m in zip(coo, shape, strides)) for coo in coos]
    elif trim:
        want = [sum(c * m for c, m in zip(coo, strides)) for coo, ok in zip(coos, inr) if ok]
    else:
        mk.same("strict mode accepted only in-range coordinates", all(inr), True)
        want = [sum(c * m for c, m in zip(coo, strides)) for coo in coos]
    mk.same("number of indices", len(inds), len(want))
    for k, (g, w) in enumerate(zip(inds, want)):
        mk.check(g == w, f"index {k} == sum (c mod s)*stride")
        mk.check((0 <= g) & (g < nsites), f"index {k} addresses a subsystem")


# ---------------------------------------------------------------------- dim_compress

def _dc_params():
    out = []
    for n in (1, 2, 3, 4):
        for r in range(0, n + 1):
            for inds in itertools.combinations(range(n), r):
                for lo in (2, 1):
                    q = n <= 3
                    out.append({"n": n, "inds": inds, "lo": lo, "_tiers": ("quick", "thorough") if q else ("thorough",)})
    return out


@obligation(PROP, params=_dc_params(), exc_is_violation=True, max_paths=4000)
def dim_compress_products(mk, n, inds, lo):
    """dim_compress(dims, inds) on symbolic subsystem dimensions (lo <= d <= 6): the compressed
    dims are the products over maximal runs of targeted / untargeted subsystems (size-1 runs
    vanish), so the total product and the targeted product are preserved and the marks are exact"""
    mk.encodes(qc.dim_compress, qc._dim_compressor)
    dims = [mk.int(f"d{i}", lo, 6) for i in range(n)]
    nd, ni = qc.dim_compress(dims, inds if len(inds) != 1 or n % 2 else inds[0])
    # reference: maximal runs
    runs = []
    for i, d in enumerate(dims):
        f = i in inds
        if runs and runs[-1][1] == f:
            runs[-1][0] = runs[-1][0] * d
        else:
            runs.append([d, f])
    runs = [(p, f) for p, f in runs if bool(p != 1)]
    tot = 1
    for d in dims:
        tot = tot * d
    tgt = 1
    for i in inds:
        tgt = tgt * dims[i]
    gt = 1
    for d in nd:
        gt = gt * d
    gm = 1
    for i in ni:
        gm = gm * nd[i]
    mk.check(gt == tot, "product of compressed dims == product of dims")
    mk.check(gm == tgt, "product of marked compressed dims == product of targeted dims")
    mk.same("number of compressed blocks", len(nd), len(runs))
    mk.same("marked blocks", tuple(ni), tuple(k for k, (p, f) in enumerate(runs) if f))
    for k, (g, (p, f)) in enumerate(zip(nd, runs)):
        mk.check(g == p, f"block {k} is the product over run {k}")
    if lo >= 2:
        mk.same("marks alternate (documented guarantee, dims >= 2)", all(b - a == 2 for a, b in zip(ni, ni[1:])), True)
