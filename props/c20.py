"""C20 - entanglement and information measures satisfy their defining identities.

Polynomial members of ``quimb.calc`` (kraus_op, dephase, fidelity / trace_distance for pure
states, concurrence of a pure state, correlation, pauli_decomp, partial_transpose, measure /
projector with a prescribed outcome, qid / ent_cross_matrix bookkeeping) are run on symbolic
kets / density operators / observables and compared, entry by entry as polynomial identities,
with their textbook definitions written with explicit loops (Q-ID; Q-CERT where an
eigen-decomposition contract or a square root enters).

Spectral members (entropy, entropy_subsys, mutinf, mutinf_subsys, tr_sqrt, negativity, logneg,
logneg_subsys, schmidt_gap, trace_distance and fidelity of density operators, concurrence of a
density operator, quantum_discord) cannot be polynomial.  For them the spectral primitive
(``eigvalsh`` / ``norm_trace_dense`` / ``norm`` / ``sqrtm`` / ``eigvals`` / ``log2`` as imported
in quimb/calc.py) is replaced, in symbolic mode only, by a recorder that stores its (symbolic)
matrix argument and returns fresh symbols.  Goals: (i) the matrix handed to the primitive is the
reference reduced operator / partial transpose (for shortcut paths: of the subsystem itself or
of its complement, whose equal non-zero spectrum is certified through equal power traces
tr(rho_A^k) = tr(rho_B^k)), (ii) the returned value is the defining formula in the returned
spectrum symbols.  In numeric mode nothing is patched and the returned numbers are compared
with numpy references.
"""
import builtins
import functools
import itertools
import math

import numpy as np
import scipy.linalg as sla

import quimb as qu
import quimb.core as qc
import quimb.calc as qk
import quimb.linalg.base_linalg as qbl
import quimb.linalg.numpy_linalg as qnl

from qv import poly as P
from qv import ref
from qv.harness import obligation, Skip

PROP = "C20"
META = {
    "bounds": {
        "quick": {"subsystem dims": "lists over {2,3} with <= 3 subsystems and total dimension <= 12: (2,2) (2,3) (3,2) (2,2,2)",
                  "states": "kets and Hermitian density operators, every entry symbolic",
                  "subsystems": "every non-empty proper subset for sysa, every ordered pair of disjoint subsets (incl. "
                                "non-contiguous and reordered) for (sysa, sysb)",
                  "operators": "symbolic Hermitian observables, symbolic complex Kraus operators (<= 2)"},
        "thorough": {"subsystem dims": "adds (2,3,2), (3,2,2), (2,2,3), (2,2,2,2) for ket members", "kraus": "<= 3 operators"},
    },
    "outside": [
        "numerical values of spectral functions (eigenvalues, singular values, log2, matrix square roots): abstracted by "
        "recorders returning fresh symbols; only the argument handed over and the combining formula are decided",
        "bounds that are theorems about spectra (non-negativity, sub-additivity, S(A)=S(B) for pure states beyond the "
        "power-trace identities, monotonicity): numeric cross-run only",
        "approx_spectral lazy operators / lanczos paths (approx_thresh reached), rank= partial eigen-solvers",
        "sparse inputs (scipy.sparse has no object dtype): numeric cross-run only",
        "RNG driven functions: simulate_counts, measure without `eigenvalue`, dephase with a random rank",
        "purify (writes into a complex128 buffer, uses clip): numeric cross-run only",
        "the COBYLA optimisation inside quantum_discord (only the state handed to it is checked symbolically)",
        "the order of the OrderedDict returned by pauli_decomp (sorted by |coefficient|)",
        "measure / projector with the eigh contract: only d = 2 and non-degenerate outcomes get the normalisation / idempotence "
        "certificates (d = 3 exceeds the certificate budget); degenerate eigenspaces are decided at formula level (free route)",
        "local-unitary invariance of correlation() and of the spectral measures: numeric cross-run only",
        "zeroify / max(0, .) clamps at 1e-14 are taken in generic position (|x| >= tol)",
    ],
    "assumptions": [
        "object dtype is treated like complex128 by quimb's dtype plumbing: quimb.core.common_type, qarray.__new__ / astype "
        "(no cast), qarray.H (conjugates) are substituted for object arrays (environment stubs, symbolic mode only)",
        "math.sqrt / math.log2 imported into quimb.calc are substituted on symbolic scalars by a defined square root "
        "(r*r = x) and an uninterpreted log2 symbol; numpy log2 of a recorder eigenvalue is an uninterpreted symbol",
        "abs() inside zeroify and decomp's sort key does not fork: |x| < 1e-14 is answered 'no' (generic position)",
        "numpy.linalg.eigh on symbolic input is its contract A E = E diag(w), E unitary, w real ascending",
        "two positive semi-definite matrices have the same non-zero spectrum iff tr(X^k) = tr(Y^k) for k = 1..min(dim)",
    ],
}


# ------------------------------------------------------------------------------ environment

_MISSING = object()


class _Patches:
    def __init__(self):
        self.saved = []

    def set(self, obj, name, val, item=False):
        if item:
            self.saved.append((obj, name, obj[name], True))
            obj[name] = val
        else:
            d = obj.__dict__
            self.saved.append((obj, name, d[name] if name in d else _MISSING, False))
            setattr(obj, name, val)

    def restore(self):
        for obj, name, old, item in reversed(self.saved):
            if item:
                obj[name] = old
            elif old is _MISSING:
                delattr(obj, name)
            else:
                setattr(obj, name, old)
        self.saved.clear()


def _is_obj(x):
    return isinstance(x, P.Poly) or (isinstance(x, np.ndarray) and x.dtype == object)


class _GenericAbs(P.LazyAbs):
    """|p| whose comparison with a tiny tolerance is answered in generic position (no fork)"""
    __slots__ = ()

    def __lt__(self, o):
        if isinstance(o, (int, float)) and 0 <= o <= 1e-9:
            return False
        return P.LazyAbs.__lt__(self, o)


_GenericAbs.__module__ = "numpy"


def _abs_generic(x):
    if isinstance(x, P.Poly) and not isinstance(x, P.LazyAbs):
        return _GenericAbs(x)
    return builtins.abs(x)


def _abs_const(x):
    """decomp's sort key: the order of the returned dict is outside"""
    if isinstance(x, P.Poly):
        return 0.0
    return builtins.abs(x)


class _Lam(P.Poly):
    """eigenvalue symbol handed out by a recorder; numpy's object loop of log2 finds the method"""
    __slots__ = ()

    def log2(self):
        return _log2_sym(self)


_Lam.__module__ = "numpy"
_LOG2 = {}


def _log2_sym(p):
    p = P.lift(p)
    key = frozenset(p.t.items())
    if key not in _LOG2:
        _LOG2[key] = P.real(f"log2[{len(_LOG2)}]", origin=f"log2({p!r})"[:100])
    return _LOG2[key]


def _max_clamp(*args, **kw):
    """builtin max, except for the clamp max(0, x) with x symbolic: taken in generic position x > 0 (no fork;
    x is a modulus, a trace norm minus one, a log2 of a trace norm >= 1 ...)"""
    if len(args) == 2 and not kw:
        a, b = args
        if isinstance(b, P.Poly) and isinstance(a, (int, float)) and a == 0:
            a, b = b, a
        if isinstance(a, P.Poly) and isinstance(b, (int, float)) and b == 0:
            if a.constval() is None:
                msg = "clamp max(0, x) taken as x (generic position x > 0)"
                if msg not in P.ASSUMED:
                    P.ASSUMED.append(msg)
                return a
    return builtins.max(*args, **kw)


def _m_sqrt(x):
    if isinstance(x, P.Poly):
        return x.sqrt()
    return math.sqrt(x)


def _m_log2(x):
    if isinstance(x, P.Poly):
        return _log2_sym(x)
    return math.log2(x)


class Recorder:
    """stands for a spectral primitive: stores the argument, returns fresh symbols"""

    def __init__(self):
        self.calls = []     # (primitive, argument array, kwargs, returned)

    def _fresh(self, n, kind="pos"):
        k = len(self.calls)
        out = np.empty(n, dtype=object)
        for i in range(n):
            s = P.positive(f"lam{k}_{i}") if kind == "pos" else P.real(f"lam{k}_{i}")
            out[i] = _Lam(s.t)
        return out

    def eigvalsh(self, A, k=-1, **kw):
        A = np.asarray(A)
        n = A.shape[0] if k is None or k < 0 else k
        out = self._fresh(n)
        self.calls.append(("eigvalsh", A, dict(kw, k=k), out))
        return out

    def norm_trace_dense(self, A, isherm=False):
        A = np.asarray(A)
        out = P.positive(f"trnorm{len(self.calls)}")
        self.calls.append(("norm_trace", A, {"isherm": isherm}, out))
        return out

    def norm(self, A, ntype=2, **kw):
        A = np.asarray(A)
        out = P.positive(f"norm{len(self.calls)}")
        self.calls.append((f"norm[{ntype}]", A, kw, out))
        return out

    def sqrtm(self, A, herm=True):
        A = np.asarray(A)
        n = A.shape[0]
        k = len(self.calls)
        out = np.empty((n, n), dtype=object)
        for i in range(n):
            out[i, i] = P.real(f"sq{k}_{i}{i}")
            for j in range(i + 1, n):
                z = P.cplx(f"sq{k}_{i}{j}")
                out[i, j] = z
                out[j, i] = z.conjugate()
        self.calls.append(("sqrtm", A, {"herm": herm}, out))
        return qc.qarray(out)

    def eigvals(self, A):
        A = np.asarray(A)
        out = self._fresh(A.shape[0])
        self.calls.append(("eigvals", A, {}, out))
        return out


class _Ascending(np.ndarray):
    def argsort(self, *a, **k):
        return np.arange(self.shape[0])


def _eigh_ascending(A, *a, **k):
    w, V = np.linalg.eigh(A, *a, **k)
    if _is_obj(w):
        w = w.view(_Ascending)
    return w, V


class SymEnv:
    def __init__(self, abs_mode="generic", record=True):
        self.abs_mode = abs_mode
        self.record = record

    def __enter__(self):
        p = self.p = _Patches()
        real_ct = qc.common_type

        def common_type(*arrays):
            if any(a.dtype == object for a in arrays):
                return object
            return real_ct(*arrays)

        def qnew(cls, data, dtype=None, order=None):
            a = np.asarray(data)
            if a.dtype == object:
                return np.asarray(a, order=order).view(cls)
            return np.asarray(data, dtype=dtype, order=order).view(cls)

        def H(self_):
            if self_.dtype == object or issubclass(self_.dtype.type, np.complexfloating):
                return self_.conjugate().transpose()
            return self_.transpose()

        def astype(self_, dtype, *a, **k):
            if self_.dtype == object:
                return self_
            return np.ndarray.astype(self_, dtype, *a, **k)

        p.set(qc, "common_type", common_type)
        p.set(qc.qarray, "__new__", staticmethod(qnew))
        p.set(qc.qarray, "H", property(H))
        p.set(qc.qarray, "astype", astype)
        p.set(qnl._NUMPY_EIG_FUNCS, (True, True), _eigh_ascending, item=True)
        p.set(qnl._NUMPY_EIG_FUNCS, (False, True), np.linalg.eigvalsh, item=True)
        ab = _abs_generic if self.abs_mode == "generic" else _abs_const
        p.set(qc, "abs", _abs_generic)
        p.set(qk, "abs", ab)
        p.set(qk, "max", _max_clamp)
        p.set(qk, "sqrt", _m_sqrt)
        p.set(qk, "log2", _m_log2)
        _LOG2.clear()
        self.rec = Recorder()
        if self.record:
            p.set(qk, "eigvalsh", self.rec.eigvalsh)
            p.set(qk, "norm_trace_dense", self.rec.norm_trace_dense)
            p.set(qk, "norm", self.rec.norm)
            p.set(qk, "sqrtm", self.rec.sqrtm)
            real_eigvals = np.linalg.eigvals

            def eigvals(A):
                if _is_obj(A):
                    return self.rec.eigvals(A)
                return real_eigvals(A)

            p.set(np.linalg, "eigvals", eigvals)
        return self

    def __exit__(self, *a):
        self.p.restore()
        return False


def symenv(fn=None, **envkw):
    """run the harness inside SymEnv in symbolic mode only (numeric mode: nothing is patched)"""

    def deco(fn):
        @functools.wraps(fn)
        def h(mk, **params):
            if mk.sym:
                with SymEnv(**envkw) as env:
                    mk.env_ = env
                    mk.rec = env.rec
                    return fn(mk, **params)
            mk.env_ = None
            mk.rec = None
            return fn(mk, **params)

        return h

    return deco(fn) if fn is not None else deco


# ------------------------------------------------------------------------------ reference helpers

def _prod(xs):
    r = 1
    for x in xs:
        r *= int(x)
    return r


def _obj(mk):
    return object if mk.sym else complex


def _proj(psi):
    """|psi><psi| with explicit loops"""
    v = np.asarray(psi).reshape(-1)
    out = np.empty((v.size, v.size), dtype=v.dtype if v.dtype == object else complex)
    for i in range(v.size):
        for j in range(v.size):
            out[i, j] = v[i] * v[j].conjugate()
    return out


def _as_dop(p):
    p = np.asarray(p)
    if p.ndim == 1 or 1 in p.shape:
        return _proj(p)
    return p


def _ptr(p, dims, keep):
    """reduced operator on subsystems `keep`, in the order given by `keep` (explicit loops)"""
    rho = _as_dop(p)
    keep = tuple(keep)
    n = len(dims)
    lose = [i for i in range(n) if i not in keep]
    strides = [_prod(dims[i + 1:]) for i in range(n)]
    dk = [dims[i] for i in keep]
    dl = [dims[i] for i in lose]
    Dk = _prod(dk)
    out = np.empty((Dk, Dk), dtype=rho.dtype if rho.dtype == object else complex)
    for r, ridx in enumerate(itertools.product(*[range(d) for d in dk])):
        for c, cidx in enumerate(itertools.product(*[range(d) for d in dk])):
            tot = 0
            for lidx in itertools.product(*[range(d) for d in dl]):
                R = sum(s * strides[i] for i, s in zip(keep, ridx)) + sum(s * strides[i] for i, s in zip(lose, lidx))
                C = sum(s * strides[i] for i, s in zip(keep, cidx)) + sum(s * strides[i] for i, s in zip(lose, lidx))
                tot = tot + rho[R, C]
            out[r, c] = tot
    return out


def _ptranspose(p, dims, sysa):
    """partial transpose over subsystems sysa (explicit loops)"""
    rho = _as_dop(p)
    n = len(dims)
    strides = [_prod(dims[i + 1:]) for i in range(n)]
    D = _prod(dims)
    out = np.empty((D, D), dtype=rho.dtype if rho.dtype == object else complex)
    for ridx in itertools.product(*[range(d) for d in dims]):
        for cidx in itertools.product(*[range(d) for d in dims]):
            r2 = [cidx[i] if i in sysa else ridx[i] for i in range(n)]
            c2 = [ridx[i] if i in sysa else cidx[i] for i in range(n)]
            R, C = sum(a * s for a, s in zip(ridx, strides)), sum(a * s for a, s in zip(cidx, strides))
            R2, C2 = sum(a * s for a, s in zip(r2, strides)), sum(a * s for a, s in zip(c2, strides))
            out[R, C] = rho[R2, C2]
    return out


def _inner(a, b):
    tot = 0
    for x, y in zip(np.asarray(a).reshape(-1), np.asarray(b).reshape(-1)):
        tot = tot + x.conjugate() * y
    return tot


def _abs2(z):
    return z * z.conjugate()


def _ket(mk, name, D):
    return mk.array(name, (D, 1), "cplx")


def _state(mk, name, D, kind):
    return mk.herm(name, D) if kind == "dop" else _ket(mk, name, D)


def _q(x):
    return qc.qarray(x)


def _subsets(n, proper=True):
    for r in range(1, n if proper else n + 1):
        for s in itertools.combinations(range(n), r):
            yield s


def _pairs(n):
    """ordered pairs of disjoint non-empty subsets (also reordered tuples)"""
    out = []
    for a in _subsets(n):
        rest = [i for i in range(n) if i not in a]
        for r in range(1, len(rest) + 1):
            for b in itertools.combinations(rest, r):
                out.append((a, b))
                if len(a) > 1:
                    out.append((a[::-1], b))
    return out


def _half(mk):
    return P.lift(1) / 2 if mk.sym else 0.5


def _pauli(mk, s):
    return mk.const({"I": np.eye(2), "X": np.array([[0, 1], [1, 0]]), "Y": np.array([[0, -1j], [1j, 0]]),
                     "Z": np.array([[1, 0], [0, -1]])}[s.upper()])


_DIMS2 = [(2, 2), (2, 3), (3, 2)]
_DIMS3 = [(2, 2, 2)]
_DIMS3T = [(2, 3, 2), (3, 2, 2), (2, 2, 3)]


def _dims_params(extra=(), thorough_extra=()):
    ps = [{"dims": d} for d in _DIMS2 + _DIMS3 + list(extra)]
    ps += [{"dims": d, "_tiers": ("thorough",)} for d in list(thorough_extra)]
    return ps


# ------------------------------------------------------------------------------ polynomial members

@obligation(PROP, params=_dims_params(thorough_extra=_DIMS3T) + [{"dims": (2,)}, {"dims": (3,)}])
@symenv
def kraus_map(mk, dims):
    """kraus_op(rho, Ek[, dims, where]) == sum_k E_k rho E_k^dag with E_k embedded on `where` (in that order)"""
    mk.encodes(qk.kraus_op)
    D = _prod(dims)
    rho = mk.herm("r", D)
    nk = 2
    # whole system
    if D <= 6:
        Ks = [mk.array(f"K{k}", (D, D), "cplx") for k in range(nk)]
        want = sum(ref.matmul(ref.matmul(K, rho), ref.dag(K)) for K in Ks)
        mk.eq("kraus_op(rho, Ek) list", qk.kraus_op(rho, Ks), want)
        mk.eq("kraus_op(rho, Ek) stacked array", qk.kraus_op(rho, np.stack(Ks, axis=0)), want)
        mk.raises("dims without where is rejected", lambda: qk.kraus_op(rho, Ks, dims=dims), (ValueError,))
        mk.raises("where without dims is rejected", lambda: qk.kraus_op(rho, Ks, where=0), (ValueError,))
    n = len(dims)
    if n == 1:
        return
    wheres = [(i,) for i in range(n)] + [w for w in itertools.permutations(range(n), 2)]
    for where in wheres:
        dw = _prod(dims[i] for i in where)
        if dw > 6:
            continue
        Ks = [mk.array(f"E{''.join(map(str, where))}{k}", (dw, dw), "cplx") for k in range(nk)]
        full = [ref.embed(K, dims, where) for K in Ks]
        want = sum(ref.matmul(ref.matmul(K, rho), ref.dag(K)) for K in full)
        mk.eq(f"kraus_op where={where}", qk.kraus_op(rho, Ks, dims=dims, where=where), want)
        if len(where) == 1:
            mk.eq(f"kraus_op where={where[0]} (int)", qk.kraus_op(rho, Ks, dims=dims, where=where[0]), want)
    if not mk.sym:
        # check=True accepts a trace preserving set and rejects another
        p = 0.3
        I2, X = np.eye(2), np.array([[0, 1.0], [1.0, 0]])
        good = [(1 - p) ** 0.5 * I2, p ** 0.5 * X]
        out = qk.kraus_op(rho, good, dims=dims, where=0, check=True) if dims[0] == 2 else None
        if out is not None:
            mk.eq("trace preserved by a trace preserving set", ref.trace(np.asarray(out)), ref.trace(rho))
            mk.raises("check=True rejects a non trace preserving set",
                      lambda: qk.kraus_op(rho, [I2, X], dims=dims, where=0, check=True), (ValueError,))


@obligation(PROP, params=[{"d": 2}, {"d": 3}], rounds=2)
@symenv
def kraus_trace_preserving(mk, d):
    """sum_k E_k^dag E_k = 1 (hypothesis) => tr(kraus_op(rho)) = tr(rho), and Hermiticity is preserved"""
    mk.encodes(qk.kraus_op)
    rho = mk.herm("r", d)
    Ks = [mk.array(f"K{k}", (d, d), "cplx") for k in range(2)]
    if mk.sym:
        from qv import stubs
        S = sum(ref.matmul(ref.dag(K), K) for K in Ks) - ref.eye(d, like=Ks[0])
        stubs._add_eq("TP:sumKhK-I", S, False)
    else:
        # complete the first operator to a channel: K1 = sqrt(1 - K0^dag K0) after scaling K0
        K0 = Ks[0] / (2 * np.linalg.norm(Ks[0], 2))
        K1 = sla.sqrtm(np.eye(d) - K0.conj().T @ K0)
        Ks = [K0, K1]
    out = np.asarray(qk.kraus_op(rho, Ks))
    mk.eq("trace preserved", ref.trace(out), ref.trace(rho))
    mk.eq("Hermiticity preserved", out, ref.dag(out))


@obligation(PROP, params=[{"d": 2}, {"d": 3}, {"d": 4}])
@symenv
def dephase_formula(mk, d):
    """dephase(rho, p) == (1 - p) rho + p 1/d for the deterministic rank choices; random rank: structure only"""
    mk.encodes(qk.dephase)
    rho = mk.herm("r", d)
    p = mk.scalar("p")
    want = (1 - p) * rho + p * ref.eye(d, like=rho) / d
    mk.eq("dephase(rho, p)", qk.dephase(rho, p), want)
    mk.eq("dephase(rho, p, rand_rank=d)", qk.dephase(rho, p, rand_rank=d), want)
    mk.eq("dephase(rho, p, rand_rank=1.0)", qk.dephase(rho, p, rand_rank=1.0), want)
    out = np.asarray(qk.dephase(rho, p, rand_rank=max(1, d - 1)))
    mk.eq("random rank: trace == (1-p) tr(rho) + p", ref.trace(out), (1 - p) * ref.trace(rho) + p)
    off = [(i, j) for i in range(d) for j in range(d) if i != j]
    mk.eq("random rank: off-diagonals scaled by 1-p", [out[i, j] for i, j in off], [(1 - p) * rho[i, j] for i, j in off])


@obligation(PROP, params=[{"D": 2}, {"D": 3}, {"D": 4}], rounds=1)
@symenv
def fidelity_pure(mk, D):
    """fidelity with at least one ket: |<a|b>|^2, <a|rho|a> (squared) and their square roots; symmetric"""
    mk.encodes(qk.fidelity, qc.expectation)
    a, b = _q(_ket(mk, "a", D)), _q(_ket(mk, "b", D))
    rho = _q(mk.herm("r", D))
    ov = _abs2(_inner(a, b))
    mk.eq("fidelity(a, b, squared)", qk.fidelity(a, b, squared=True), ov)
    mk.eq("fidelity(b, a, squared) symmetric", qk.fidelity(b, a, squared=True), ov)
    ex = _inner(a, ref.matmul(rho, a))
    mk.eq("fidelity(a, rho, squared) == <a|rho|a>", qk.fidelity(a, rho, squared=True), ex)
    mk.eq("fidelity(rho, a, squared) == <a|rho|a>", qk.fidelity(rho, a, squared=True), ex)
    mk.eq("fidelity(a, |b><b|, squared) ket == projector", qk.fidelity(a, _q(_proj(b)), squared=True), ov)
    f = qk.fidelity(a, b)
    if isinstance(f, float) and f == 0.0 and mk.sym:
        mk.note("clamp path max(0, F) = 0 (F <= 0 only for F = 0)")
    else:
        mk.eq("fidelity(a, b)^2 == |<a|b>|^2", f * f, ov)
    if not mk.sym:
        mk.eq("fidelity(a, b) == |<a|b>|", f, abs(_inner(a, b)))
        mk.eq("fidelity(a, a) == <a|a>", qk.fidelity(a, a), _inner(a, a))
        # mixed-mixed branch against the definition tr sqrt( sqrt(r) s sqrt(r) )
        r = _psd(mk, "r", D)
        s = _psd(mk, "s", D)
        sr = sla.sqrtm(r)
        want = np.trace(sla.sqrtm(sr @ s @ sr)).real
        mk.eq("fidelity(rho, sigma) (Uhlmann)", qk.fidelity(qu.qu(r), qu.qu(s)), want, tol=1e-6)
        mk.eq("fidelity(rho, sigma) symmetric", qk.fidelity(qu.qu(s), qu.qu(r)), want, tol=1e-6)
        mk.eq("fidelity(rho, sigma, squared)", qk.fidelity(qu.qu(r), qu.qu(s), squared=True), want ** 2, tol=1e-6)


def _psd(mk, name, D):
    """numeric mode: a density operator built from free entries"""
    A = np.asarray(mk.array(name + "g", (D, D), "cplx"), dtype=complex)
    r = A @ A.conj().T
    return r / np.trace(r).real


@obligation(PROP, params=[{"D": 2}, {"D": 3}, {"D": 4}], rounds=1)
@symenv
def trace_distance_pure(mk, D):
    """trace_distance of two kets: sqrt(1 - |<a|b>|^2) (compared through its square)"""
    mk.encodes(qk.trace_distance)
    a, b = _q(_ket(mk, "a", D)), _q(_ket(mk, "b", D))
    if not mk.sym:
        a, b = a / np.linalg.norm(a), b / np.linalg.norm(b)
    ov = _abs2(_inner(a, b))
    d = qk.trace_distance(a, b)
    mk.eq("trace_distance(a, b)^2 == 1 - |<a|b>|^2", d * d, 1 - ov)
    if not mk.sym:
        ev = np.linalg.eigvalsh(_proj(a) - _proj(b))
        mk.eq("trace_distance(a, b) == half trace norm of the projector difference", d, 0.5 * np.abs(ev).sum())
        mk.eq("trace_distance(a, |b><b|) ket == projector", qk.trace_distance(a, qu.qu(_proj(b))), d)
        mk.eq("trace_distance symmetric", qk.trace_distance(b, a), d)


@obligation(PROP, params=[{"dims": (2, 2)}], rounds=1)
@symenv
def concurrence_pure(mk, dims):
    """concurrence of a pure two-qubit state: |<psi| Y(x)Y |psi^*>| (compared through its square)"""
    mk.encodes(qk.concurrence)
    psi = _q(_ket(mk, "a", 4))
    Y = _pauli(mk, "Y")
    YY = ref.kron(Y, Y)
    v = np.asarray(psi).reshape(-1)
    cv = np.array([x.conjugate() for x in v], dtype=v.dtype)
    amp = _inner(v, ref.matmul(YY, cv))
    c = qk.concurrence(psi)
    if isinstance(c, (int, float)) and c == 0 and mk.sym:
        mk.note("clamp path")
    else:
        mk.eq("concurrence(psi)^2 == |<psi|YY|psi*>|^2", c * c, _abs2(amp))
    mk.eq("explicit amplitude 2(a00 a11 - a01 a10)", amp, (v[1] * v[2] - v[0] * v[3]).conjugate() * 2)
    if not mk.sym:
        mk.eq("concurrence(psi) == 2|a00 a11 - a01 a10|", c, 2 * abs(v[0] * v[3] - v[1] * v[2]))
        mk.eq("concurrence(sysa=1, sysb=0) symmetric", qk.concurrence(psi, sysa=1, sysb=0), c)


def _corr_ref(p, A, B, dims, sa, sb):
    rho = _as_dop(p)
    FA, FB = ref.embed(A, dims, (sa,)), ref.embed(B, dims, (sb,))
    e = lambda O: ref.trace(ref.matmul(O, rho))
    return e(ref.matmul(FA, FB)) - e(FA) * e(FB)


@obligation(PROP, params=[{"dims": d, "kind": k} for d in _DIMS2 + _DIMS3 for k in ("ket", "dop")] +
                         [{"dims": d, "kind": "ket", "_tiers": ("thorough",)} for d in _DIMS3T])
@symenv
def correlation_def(mk, dims, kind):
    """correlation(p, A, B, sysa, sysb, dims) == <A_a B_b> - <A_a><B_b> for every ordered pair of sites;
    ket == projector; precomp_func closure gives the same"""
    mk.encodes(qk.correlation, qc.ikron, qc.expectation)
    D = _prod(dims)
    p = _q(_state(mk, "p", D, kind))
    obs = {}
    for i, d in enumerate(dims):
        obs[i] = (mk.herm(f"A{i}", d), mk.herm(f"B{i}", d))
    for sa, sb in itertools.permutations(range(len(dims)), 2):
        A, B = obs[sa][0], obs[sb][1]
        want = _corr_ref(p, A, B, dims, sa, sb)
        mk.eq(f"correlation sysa={sa} sysb={sb}", qk.correlation(p, _q(A), _q(B), sa, sb, dims=dims), want)
        f = qk.correlation(None, _q(A), _q(B), sa, sb, dims=dims, precomp_func=True)
        mk.eq(f"precomp_func sysa={sa} sysb={sb}", f(p), want)
        if kind == "ket":
            mk.eq(f"ket == projector sysa={sa} sysb={sb}", qk.correlation(_q(_proj(p)), _q(A), _q(B), sa, sb, dims=dims), want)
    if set(dims) == {2}:
        A, B = obs[0][0], obs[1][1]
        mk.eq("dims=None means qubits", qk.correlation(p, _q(A), _q(B), 0, 1), _corr_ref(p, A, B, dims, 0, 1))
        got = qk.pauli_correlations(p, ss=("xx", "yz"), sysa=0, sysb=len(dims) - 1)
        mk.eq("pauli_correlations xx", got[0], _corr_ref(p, _pauli(mk, "X"), _pauli(mk, "X"), dims, 0, len(dims) - 1))
        mk.eq("pauli_correlations yz", got[1], _corr_ref(p, _pauli(mk, "Y"), _pauli(mk, "Z"), dims, 0, len(dims) - 1))
        # every (sum_abs, precomp_func) combination; a returned function is evaluated on two states, twice each
        # (nothing may be carried from one evaluation to the next)
        p2 = _q(_state(mk, "p2", D, kind))
        last = len(dims) - 1
        refs = lambda st: [_corr_ref(st, _pauli(mk, a), _pauli(mk, b), dims, 0, last) for a, b in ("XX", "YZ")]
        fs = qk.pauli_correlations(p, ss=("xx", "yz"), sysa=0, sysb=last, precomp_func=True)
        mk.same("pauli_correlations(precomp_func=True): one function per string", len(fs), 2)
        for rnd in (1, 2):
            for nm, st in (("p", p), ("p2", p2)):
                for k_, w_ in enumerate(refs(st)):
                    mk.eq(f"pauli_correlations(precomp_func=True)[{k_}]({nm}) evaluation round {rnd}", fs[k_](st), w_)
        if not mk.sym:
            # |.| of a symbolic value is not polynomial: the sum_abs forms are compared numerically
            f = qk.pauli_correlations(p, ss=("xx", "yz"), sysa=0, sysb=last, sum_abs=True, precomp_func=True)
            for rnd in (1, 2):
                for nm, st in (("p", p), ("p2", p2)):
                    mk.eq(f"[numeric-only] pauli_correlations(sum_abs=True, precomp_func=True)({nm}) evaluation round {rnd}",
                          f(st), sum(abs(complex(x)) for x in refs(st)), tol=1e-9)
            mk.eq("[numeric-only] pauli_correlations(sum_abs=True)", qk.pauli_correlations(p, ss=("xx", "yz"), sysa=0, sysb=last, sum_abs=True),
                  sum(abs(complex(x)) for x in refs(p)), tol=1e-9)
    if not mk.sym:
        sa, sb = 0, len(dims) - 1
        A, B = obs[sa][0], obs[sb][1]
        import scipy.sparse as sp
        mk.eq("sparse observables", qk.correlation(p, sp.csr_matrix(A), sp.csr_matrix(B), sa, sb, dims=dims),
              _corr_ref(p, A, B, dims, sa, sb))


def _dense_pauli(x, sparse=False):
    return qu.pauli(x)


@obligation(PROP, params=[{"n": 1, "kind": "dop"}, {"n": 2, "kind": "dop"}, {"n": 2, "kind": "ket"},
                          {"n": 3, "kind": "ket", "_tiers": ("thorough",)}])
@symenv(abs_mode="const")
def pauli_decomposition(mk, n, kind):
    """pauli_decomp(a, mode='c')[name] == tr[(s_1 x ... x s_n) a] / 2^n, and sum_name c_name s_name == a"""
    mk.encodes(qk.decomp)
    D = 2 ** n
    a = _q(_state(mk, "a", D, kind))
    if mk.sym:
        # scipy.sparse has no object dtype: the documented generic `decomp` with a dense generator
        got = qk.decomp(a, fn=_dense_pauli, fn_args="IXYZ", fn_d=2, nmlz_func=lambda m: 2 ** -m, mode="c")
    else:
        got = qk.pauli_decomp(a, mode="c")
    rho = _as_dop(a)
    names = ["".join(s) for s in itertools.product("IXYZ", repeat=n)]
    mk.same("keys", sorted(got), sorted(names))
    recon = None
    for nm in names:
        op = ref.kron(*[_pauli(mk, s) for s in nm])
        c = ref.trace(ref.matmul(op, rho)) / (2 ** n)
        mk.eq(f"coefficient {nm}", got[nm], c)
        term = op * got[nm]
        recon = term if recon is None else recon + term
    mk.eq("sum of coefficient * pauli string == operator", recon, rho)


@obligation(PROP, params=_dims_params(thorough_extra=_DIMS3T))
@symenv
def partial_transpose_def(mk, dims):
    """partial_transpose: index semantics, involution, complement == full transpose of it, ket == projector,
    trace preserved"""
    mk.encodes(qk.partial_transpose)
    D = _prod(dims)
    rho = mk.herm("r", D)
    X = mk.array("x", (D, D), "cplx") if D <= 6 else rho
    n = len(dims)
    for sysa in _subsets(n, proper=False):
        got = qk.partial_transpose(_q(X), dims, sysa)
        mk.eq(f"partial_transpose sysa={sysa}", got, _ptranspose(X, dims, sysa))
        mk.eq(f"involution sysa={sysa}", qk.partial_transpose(got, dims, sysa), X)
        comp = tuple(i for i in range(n) if i not in sysa)
        if comp:
            mk.eq(f"complement is the transpose sysa={sysa}", qk.partial_transpose(_q(X), dims, comp), np.asarray(got).T)
        if len(sysa) > 1:
            mk.eq(f"reordered sysa={sysa[::-1]}", qk.partial_transpose(_q(X), dims, sysa[::-1]), got)
        if len(sysa) == 1:
            mk.eq(f"int sysa={sysa[0]}", qk.partial_transpose(_q(X), dims, sysa[0]), got)
    psi = _q(_ket(mk, "a", D))
    mk.eq("ket == projector", qk.partial_transpose(psi, dims, 0), _ptranspose(_proj(psi), dims, (0,)))
    mk.eq("full transpose", qk.partial_transpose(_q(X), dims, tuple(range(n))), np.asarray(X).T)


def _in_space(el, j, tol):
    return [i for i in range(len(el)) if abs(el[i] - el[j]) < tol]


@obligation(PROP, params=[{"n": 2, "kind": "ket", "route": "free"}, {"n": 2, "kind": "dop", "route": "free"},
                          {"n": 3, "kind": "ket", "route": "free", "_tiers": ("thorough",)},
                          {"n": 2, "kind": "ket", "route": "eigh"}, {"n": 2, "kind": "dop", "route": "eigh"}],
            rounds=2, rounds2=3, max_paths=400, timeout_s=600)
@symenv(record=False)
def measure_projector(mk, n, kind, route):
    """measure(p, A, eigenvalue=l_j): returns l_j and P p / sqrt(<p|P|p>) resp. P rho P / tr(P rho) with P the
    projector on the eigenspace (within tol) of l_j; projector() alone; with the eigh contract: P^2 = P = P^dag,
    post-measurement state normalised"""
    mk.encodes(qk.measure, qk.projector)
    p = _q(_state(mk, "p", n, kind))
    tol = 1e-12
    if route == "free":
        el = mk.array("w", (n,), "real")
        ev = _q(mk.array("V", (n, n), "cplx"))
        if mk.sym:
            for i in range(n - 1):      # eigenvalues are handed over in ascending order
                mk.assume(bool(el[i] <= el[i + 1]))
        else:
            el = np.sort(el)
    else:
        A = _q(mk.herm("A", n))
        el, ev = qu.eigh(A)
    for j in range(n):
        space = _in_space(el, j, tol)
        if mk.sym and route == "eigh" and len(space) > 1:
            # degenerate eigenspaces: formula level goals are decided on the free route; the normalisation /
            # idempotence certificates are only attempted for non-degenerate outcomes
            mk.assume(False)
        Pref = None
        for i in space:
            v = np.asarray(ev)[:, i]
            Pi = _proj(v)
            Pref = Pi if Pref is None else Pref + Pi
        mk.eq(f"projector eigenvalue {j}", qk.projector((el, ev), eigenvalue=el[j], tol=tol), Pref)
        res, after = qk.measure(p, (el, ev), eigenvalue=el[j], tol=tol)
        mk.eq(f"returned eigenvalue {j}", res, el[j])
        after = np.asarray(after)
        if kind == "ket":
            prob = _inner(p, ref.matmul(Pref, p)) if route == "free" else None
            pj = sum((_abs2(_inner(np.asarray(ev)[:, i], p)) for i in space), 0)
            unn = ref.matmul(Pref, np.asarray(p))
            # after = P p / sqrt(prob):   after * after^dag * prob == (P p)(P p)^dag
            mk.eq(f"ket outcome {j}: |after><after| * prob == P|p><p|P", _proj(after) * pj, _proj(unn))
            # phase: after is a positive multiple of P p
            k0 = 0
            mk.eq(f"ket outcome {j}: after parallel to P p", after.reshape(-1) * unn.reshape(-1)[k0], unn.reshape(-1) * after.reshape(-1)[k0])
            if route == "eigh":
                mk.eq(f"ket outcome {j}: normalised", _inner(after, after), 1 + 0 * pj)
        else:
            pj = sum((_inner(np.asarray(ev)[:, i], ref.matmul(np.asarray(p), np.asarray(ev)[:, i])) for i in space), 0)
            unn = ref.matmul(ref.matmul(Pref, np.asarray(p)), ref.dag(Pref))
            mk.eq(f"dop outcome {j}: after * prob == P rho P^dag", after * pj, unn)
            if route == "eigh":
                mk.eq(f"dop outcome {j}: trace one", ref.trace(after), 1 + 0 * pj)
        if route == "eigh":
            mk.eq(f"P^2 == P ({j})", ref.matmul(Pref, Pref), Pref)
    if not mk.sym and route == "eigh":
        res, after = qk.measure(p, A, eigenvalue=el[0])
        mk.eq("dense observable route", after, qk.measure(p, (el, ev), eigenvalue=el[0])[1])
        # purify: tracing out the ancilla gives the state back
        r = _psd(mk, "r", n)
        psi = qk.purify(qu.qu(r))
        mk.eq("purify: tr_anc |psi><psi| == rho", _ptr(psi, (n, n), (0,)), r, tol=1e-6)


# ------------------------------------------------------------------------------ spectral members

def _S_of(lam):
    """- sum lam log2 lam in the recorder's symbols"""
    tot = 0
    for l in lam:
        tot = tot - l * _log2_sym(l)
    return tot


def _np_entropy(rho):
    ev = np.linalg.eigvalsh(np.asarray(rho, dtype=complex))
    ev = ev[ev > 1e-15]
    return float(np.sum(-ev * np.log2(ev)))


def _size(dims, S):
    return _prod(dims[i] for i in S)


def _smaller_side(dims, S):
    """the subsystem whose reduced operator the shortcut paths diagonalise: S itself unless its complement is
    strictly smaller"""
    S = tuple(sorted(set(S)))
    comp = tuple(i for i in range(len(dims)) if i not in S)
    if _size(dims, comp) < _size(dims, S):
        return comp, True
    return S, False


def _power_traces(mk, label, X, Y, kmax):
    """same non-zero spectrum: tr X^k == tr Y^k, k = 1..kmax"""
    Xk, Yk = X, Y
    for k in range(1, kmax + 1):
        if k > 1:
            Xk, Yk = ref.matmul(Xk, X), ref.matmul(Yk, Y)
        mk.eq(f"{label}: tr X^{k} == tr Y^{k}", ref.trace(Xk), ref.trace(Yk))


def _check_reduced_arg(mk, label, arg, psi, dims, S, kcap=3):
    """arg is the reduced operator of S or (shortcut) of its strictly smaller complement; in the latter case the
    two reduced operators have equal power traces (equal non-zero spectra)"""
    side, swapped = _smaller_side(dims, S)
    want = _ptr(psi, dims, side)
    mk.eq(f"{label}: operator handed to the spectral primitive == reduced operator of {side}", arg, want)
    if swapped:
        direct = _ptr(psi, dims, tuple(sorted(set(S))))
        _power_traces(mk, f"{label}: complement shortcut", want, direct, min(kcap, want.shape[0]))


def _norm_ket(mk, psi):
    if mk.sym:
        return psi
    return psi / np.linalg.norm(psi)


def _sysa_variants(n):
    out = []
    for S in _subsets(n, proper=False):
        out.append(S)
        if len(S) > 1:
            out.append(S[::-1])
        if len(S) == 1:
            out.append(S[0])
    return out


@obligation(PROP, params=[{"D": 2}, {"D": 3}, {"D": 4}])
@symenv
def entropy_formula(mk, D):
    """entropy(rho): eigvalsh is asked for the spectrum of rho itself; value == - sum l log2 l; a 1-D input is
    taken as the spectrum"""
    mk.encodes(qk.entropy)
    if mk.sym:
        rho = mk.herm("r", D)
        S = qk.entropy(_q(rho))
        mk.same("one spectral call", [c[0] for c in mk.rec.calls], ["eigvalsh"])
        mk.eq("matrix handed to eigvalsh == rho", mk.rec.calls[0][1], rho)
        mk.eq("entropy == - sum l log2 l", S, _S_of(mk.rec.calls[0][3]))
        lam = mk.rec._fresh(D)
        S2 = qk.entropy(lam)
        mk.same("1-D input: no spectral call", len(mk.rec.calls), 1)
        mk.eq("entropy(spectrum) == - sum l log2 l", S2, _S_of(lam))
    else:
        rho = _psd(mk, "r", D)
        S = qk.entropy(qu.qu(rho))
        mk.eq("entropy == - sum l log2 l (numpy)", S, _np_entropy(rho))
        mk.eq("entropy(spectrum)", qk.entropy(np.linalg.eigvalsh(rho)), S)
        mk.same("0 <= S <= log2 D", -1e-12 <= S <= np.log2(D) + 1e-12, True)
        psi = _norm_ket(mk, np.asarray(_ket(mk, "a", D), dtype=complex))
        mk.eq("pure state: S == 0", qk.entropy(qu.qu(_proj(psi))), 0.0)


@obligation(PROP, params=_dims_params(thorough_extra=_DIMS3T + [(2, 2, 2, 2)]))
@symenv
def entropy_subsys_paths(mk, dims):
    """entropy_subsys(psi, dims, sysa) (shortcut: smaller side) versus entropy(ptr(psi, dims, sysa)) (exact):
    operators handed to eigvalsh are the reference reduced operators, equal power traces when sides are swapped"""
    mk.encodes(qk.entropy_subsys, qk.entropy, qc.partial_trace)
    D = _prod(dims)
    n = len(dims)
    psi = _norm_ket(mk, _ket(mk, "a", D))
    for sysa in _sysa_variants(n):
        S = (sysa,) if isinstance(sysa, int) else tuple(sysa)
        if mk.sym:
            k0 = len(mk.rec.calls)
            val = qk.entropy_subsys(_q(psi), dims, sysa, approx_thresh=None)
            if len(set(S)) == n:
                mk.same(f"sysa={sysa}: whole system -> 0.0, no spectral call", (val, len(mk.rec.calls) - k0), (0.0, 0))
                continue
            mk.same(f"sysa={sysa}: one spectral call", len(mk.rec.calls) - k0, 1)
            call = mk.rec.calls[k0]
            _check_reduced_arg(mk, f"entropy_subsys sysa={sysa}", call[1], psi, dims, S)
            mk.eq(f"entropy_subsys sysa={sysa}: value", val, _S_of(call[3]))
            val2 = qk.entropy(qk.ptr(_q(psi), dims, sysa))
            call2 = mk.rec.calls[-1]
            mk.eq(f"exact path sysa={sysa}: operator == reduced operator of sysa", call2[1], _ptr(psi, dims, tuple(sorted(S))))
            mk.eq(f"exact path sysa={sysa}: value", val2, _S_of(call2[3]))
        else:
            val = qk.entropy_subsys(qu.qu(psi), dims, sysa)
            want = 0.0 if len(set(S)) == n else _np_entropy(_ptr(psi, dims, tuple(sorted(S))))
            mk.eq(f"entropy_subsys sysa={sysa} == S(reduced) (numpy)", val, want, tol=1e-6)
            mk.eq(f"exact path sysa={sysa}", qk.entropy(qk.ptr(qu.qu(psi), dims, sysa)), want, tol=1e-6)
            comp = tuple(i for i in range(n) if i not in S)
            if comp:
                mk.eq(f"S(A) == S(B) sysa={sysa}", qk.entropy_subsys(qu.qu(psi), dims, comp), want, tol=1e-6)


def _new_dims(dims, sa, sb):
    keep = sorted(set(sa) | set(sb))
    return tuple(dims[i] for i in keep), tuple(keep.index(i) for i in sorted(set(sa))), tuple(keep)


@obligation(PROP, params=_dims_params(thorough_extra=_DIMS3T))
@symenv
def mutinf_paths(mk, dims):
    """mutinf (density operator: H(A)+H(B)-H(AB) from the three reference operators; ket: twice the subsystem
    entropy) and mutinf_subsys for every ordered pair of disjoint subsystems"""
    mk.encodes(qk.mutinf, qk.mutinf_subsys, qk.entropy_subsys)
    D = _prod(dims)
    n = len(dims)
    psi = _norm_ket(mk, _ket(mk, "a", D))
    rho = mk.herm("r", D) if mk.sym else _psd(mk, "r", D)
    for sysa in [s for s in _sysa_variants(n) if isinstance(s, int) or len(s) < n]:
        S = (sysa,) if isinstance(sysa, int) else tuple(sysa)
        Ss = tuple(sorted(S))
        comp = tuple(i for i in range(n) if i not in S)
        if mk.sym:
            k0 = len(mk.rec.calls)
            val = qk.mutinf(_q(rho), dims, sysa)
            calls = mk.rec.calls[k0:]
            mk.same(f"mutinf dop sysa={sysa}: three spectral calls", len(calls), 3)
            mk.eq(f"mutinf dop sysa={sysa}: H(AB) of rho", calls[0][1], rho)
            mk.eq(f"mutinf dop sysa={sysa}: H(A) of the reduced operator of A", calls[1][1], _ptr(rho, dims, Ss))
            mk.eq(f"mutinf dop sysa={sysa}: H(B) of the reduced operator of the complement", calls[2][1], _ptr(rho, dims, comp))
            mk.eq(f"mutinf dop sysa={sysa}: value", val, _S_of(calls[1][3]) + _S_of(calls[2][3]) - _S_of(calls[0][3]))
            # the documented `rank` hint is the rank of rho_ab: it may shorten the spectrum of H(AB) only
            k0 = len(mk.rec.calls)
            qk.mutinf(_q(rho), dims, sysa, rank=2)
            calls = mk.rec.calls[k0:]
            mk.same(f"mutinf dop sysa={sysa}, rank=2: three spectral calls", len(calls), 3)
            if len(calls) == 3:
                mk.same(f"mutinf dop sysa={sysa}, rank=2: H(A) and H(B) use the full spectra of the reduced operators",
                        (len(calls[1][3]), len(calls[2][3])), (np.asarray(calls[1][1]).shape[0], np.asarray(calls[2][1]).shape[0]))
            k0 = len(mk.rec.calls)
            val = qk.mutinf(_q(psi), dims, sysa)
            calls = mk.rec.calls[k0:]
            mk.same(f"mutinf ket sysa={sysa}: one spectral call", len(calls), 1)
            _check_reduced_arg(mk, f"mutinf ket sysa={sysa}", calls[0][1], psi, dims, S)
            mk.eq(f"mutinf ket sysa={sysa}: value == 2 S(A)", val, 2 * _S_of(calls[0][3]))
        else:
            want = _np_entropy(_ptr(rho, dims, Ss)) + _np_entropy(_ptr(rho, dims, comp)) - _np_entropy(rho)
            mk.eq(f"mutinf dop sysa={sysa}", qk.mutinf(qu.qu(rho), dims, sysa), want, tol=1e-6)
            mk.same(f"mutinf dop sysa={sysa} >= 0", want >= -1e-9, True)
            wk = 2 * _np_entropy(_ptr(psi, dims, Ss))
            mk.eq(f"mutinf ket sysa={sysa}", qk.mutinf(qu.qu(psi), dims, sysa), wk, tol=1e-6)
            mk.eq(f"mutinf ket == projector sysa={sysa}", qk.mutinf(qu.qu(_proj(psi)), dims, sysa), wk, tol=1e-5)
            mk.eq(f"mutinf dop sysa={sysa}, rank=D (a valid hint) changes nothing", qk.mutinf(qu.qu(rho), dims, sysa, rank=D), want, tol=1e-6)
            # a pure state given as an operator has rank 1 while its marginals have full rank
            mk.eq(f"mutinf projector sysa={sysa}, rank=1 (the true rank of rho_ab) == 2 S(A)", qk.mutinf(qu.qu(_proj(psi)), dims, sysa, rank=1), wk, tol=1e-5)
    for sa, sb in _pairs(n):
        ab = tuple(sorted(set(sa) | set(sb)))
        whole = len(ab) == n
        if mk.sym:
            k0 = len(mk.rec.calls)
            val = qk.mutinf_subsys(_q(psi), dims, sa, sb, approx_thresh=None)
            calls = mk.rec.calls[k0:]
            if whole:
                mk.same(f"mutinf_subsys {sa},{sb}: bipartition -> one spectral call", len(calls), 1)
                _check_reduced_arg(mk, f"mutinf_subsys {sa},{sb}", calls[0][1], psi, dims, sa)
                mk.eq(f"mutinf_subsys {sa},{sb}: value", val, 2 * _S_of(calls[0][3]))
            else:
                mk.same(f"mutinf_subsys {sa},{sb}: three spectral calls", len(calls), 3)
                _check_reduced_arg(mk, f"mutinf_subsys {sa},{sb} H(AB)", calls[0][1], psi, dims, ab)
                _check_reduced_arg(mk, f"mutinf_subsys {sa},{sb} H(A)", calls[1][1], psi, dims, sa)
                _check_reduced_arg(mk, f"mutinf_subsys {sa},{sb} H(B)", calls[2][1], psi, dims, sb)
                mk.eq(f"mutinf_subsys {sa},{sb}: value", val, _S_of(calls[1][3]) + _S_of(calls[2][3]) - _S_of(calls[0][3]))
        else:
            want = _np_entropy(_ptr(psi, dims, tuple(sorted(sa)))) + _np_entropy(_ptr(psi, dims, tuple(sorted(sb)))) \
                - (0.0 if whole else _np_entropy(_ptr(psi, dims, ab)))
            mk.eq(f"mutinf_subsys {sa},{sb}", qk.mutinf_subsys(qu.qu(psi), dims, sa, sb), want, tol=1e-6)
            nd, nsa, keep = _new_dims(dims, sa, sb)
            mk.eq(f"mutinf_subsys {sa},{sb} == mutinf of the reduced state", qk.mutinf(qk.ptr(qu.qu(psi), dims, keep), nd, nsa), want, tol=1e-5)
            mk.eq(f"mutinf_subsys symmetric {sb},{sa}", qk.mutinf_subsys(qu.qu(psi), dims, sb, sa), want, tol=1e-6)
    mk.raises("mutinf_subsys index out of range is rejected", lambda: qk.mutinf_subsys(_q(psi), dims, (0,), (n,)), (ValueError,))


def _np_trnorm(X):
    return float(np.abs(np.linalg.eigvalsh(np.asarray(X, dtype=complex))).sum())


@obligation(PROP, params=_dims_params(thorough_extra=_DIMS3T), max_paths=600)
@symenv
def negativity_logneg(mk, dims):
    """negativity / logneg: density operator -> trace norm of the reference partial transpose, clamp formulas;
    ket -> (tr sqrt rho_smaller)^2 shortcut"""
    mk.encodes(qk.negativity, qk.logneg, qk.partial_transpose_norm, qk.tr_sqrt, qk.partial_transpose)
    D = _prod(dims)
    n = len(dims)
    psi = _norm_ket(mk, _ket(mk, "a", D))
    rho = mk.herm("r", D) if mk.sym else _psd(mk, "r", D)
    for sysa in [s for s in _sysa_variants(n) if isinstance(s, int) or len(s) < n]:
        S = (sysa,) if isinstance(sysa, int) else tuple(sysa)
        if mk.sym:
            k0 = len(mk.rec.calls)
            neg = qk.negativity(_q(rho), dims, sysa)
            c = mk.rec.calls[k0:]
            mk.same(f"negativity dop sysa={sysa}: one trace-norm call, Hermitian flag", [(x[0], x[2]["isherm"]) for x in c], [("norm_trace", True)])
            mk.eq(f"negativity dop sysa={sysa}: operator == partial transpose over sysa", c[0][1], _ptranspose(rho, dims, S))
            N = c[0][3]
            mk.eq(f"negativity dop sysa={sysa}: value == max(0, (N-1)/2)", neg, _max_clamp(0.0, (N - 1) / 2))
            k0 = len(mk.rec.calls)
            ln = qk.logneg(_q(rho), dims, sysa)
            c = mk.rec.calls[k0:]
            mk.eq(f"logneg dop sysa={sysa}: operator == partial transpose over sysa", c[0][1], _ptranspose(rho, dims, S))
            mk.eq(f"logneg dop sysa={sysa}: value == max(0, log2 N)", ln, _max_clamp(0.0, _log2_sym(c[0][3])))
            # ket shortcut
            k0 = len(mk.rec.calls)
            neg = qk.negativity(_q(psi), dims, sysa)
            c = mk.rec.calls[k0:]
            mk.same(f"negativity ket sysa={sysa}: one eigenvalue call", [x[0] for x in c], ["eigvalsh"])
            _check_reduced_arg(mk, f"negativity ket sysa={sysa}", c[0][1], psi, dims, S)
            T = sum((l.sqrt() for l in c[0][3]), 0)
            mk.eq(f"negativity ket sysa={sysa}: value == max(0, ((tr sqrt rho_A)^2 - 1)/2)", neg, _max_clamp(0.0, (T * T - 1) / 2))
        else:
            want = _np_trnorm(_ptranspose(rho, dims, S))
            mk.eq(f"negativity dop sysa={sysa}", qk.negativity(qu.qu(rho), dims, sysa), max(0.0, (want - 1) / 2), tol=1e-6)
            mk.eq(f"logneg dop sysa={sysa}", qk.logneg(qu.qu(rho), dims, sysa), max(0.0, np.log2(want)), tol=1e-6)
            wk = _np_trnorm(_ptranspose(_proj(psi), dims, S))
            mk.eq(f"negativity ket sysa={sysa} == trace norm of PT of the projector", qk.negativity(qu.qu(psi), dims, sysa), max(0.0, (wk - 1) / 2), tol=1e-6)
            mk.eq(f"logneg ket == projector sysa={sysa}", qk.logneg(qu.qu(psi), dims, sysa), qk.logneg(qu.qu(_proj(psi)), dims, sysa), tol=1e-5)
            comp = tuple(i for i in range(n) if i not in S)
            mk.eq(f"negativity invariant under sysa -> complement {sysa}", qk.negativity(qu.qu(rho), dims, comp), max(0.0, (want - 1) / 2), tol=1e-6)


@obligation(PROP, params=_dims_params(thorough_extra=_DIMS3T), max_paths=600)
@symenv
def logneg_subsys_paths(mk, dims):
    """logneg_subsys(psi, dims, sysa, sysb): bipartition -> tr_sqrt_subsys shortcut; otherwise the partial
    transpose (over sysa, re-indexed) of the reduced state of sysa+sysb"""
    mk.encodes(qk.logneg_subsys, qk.tr_sqrt_subsys, qk.logneg)
    D = _prod(dims)
    n = len(dims)
    psi = _norm_ket(mk, _ket(mk, "a", D))
    for sa, sb in _pairs(n):
        nd, nsa, keep = _new_dims(dims, sa, sb)
        whole = len(keep) == n
        if mk.sym:
            k0 = len(mk.rec.calls)
            val = qk.logneg_subsys(_q(psi), dims, sa, sb, approx_thresh=None)
            c = mk.rec.calls[k0:]
            if whole:
                mk.same(f"logneg_subsys {sa},{sb}: bipartition -> one eigenvalue call", [x[0] for x in c], ["eigvalsh"])
                _check_reduced_arg(mk, f"logneg_subsys {sa},{sb}", c[0][1], psi, dims, sa)
                T = sum((l.sqrt() for l in c[0][3]), 0)
                mk.eq(f"logneg_subsys {sa},{sb}: value == max(log2 (tr sqrt rho_A)^2, 0)", val, _max_clamp(_log2_sym(T * T), 0.0))
            else:
                mk.same(f"logneg_subsys {sa},{sb}: one trace-norm call", [x[0] for x in c], ["norm_trace"])
                red = _ptr(psi, dims, keep)
                mk.eq(f"logneg_subsys {sa},{sb}: operator == PT over sysa of the reduced state of sysa+sysb", c[0][1], _ptranspose(red, nd, nsa))
                mk.eq(f"logneg_subsys {sa},{sb}: value == max(0, log2 N)", val, _max_clamp(0.0, _log2_sym(c[0][3])))
        else:
            red = _ptr(psi, dims, keep)
            want = max(0.0, np.log2(_np_trnorm(_ptranspose(red, nd, nsa))))
            mk.eq(f"logneg_subsys {sa},{sb}", qk.logneg_subsys(qu.qu(psi), dims, sa, sb), want, tol=1e-6)
            mk.eq(f"logneg_subsys {sa},{sb} == logneg of the reduced state", qk.logneg(qk.ptr(qu.qu(psi), dims, keep), nd, nsa), want, tol=1e-6)
            mk.eq(f"logneg_subsys symmetric {sb},{sa}", qk.logneg_subsys(qu.qu(psi), dims, sb, sa), want, tol=1e-6)
    mk.raises("logneg_subsys index out of range is rejected", lambda: qk.logneg_subsys(_q(psi), dims, (0,), (n,)), (ValueError,))


@obligation(PROP, params=_dims_params(thorough_extra=_DIMS3T))
@symenv
def schmidt_gap_tr_sqrt(mk, dims):
    """schmidt_gap: two largest eigenvalues of the smaller reduced operator; tr_sqrt: sum of square roots"""
    mk.encodes(qk.schmidt_gap, qk.tr_sqrt, qk.tr_sqrt_subsys)
    D = _prod(dims)
    n = len(dims)
    psi = _norm_ket(mk, _ket(mk, "a", D))
    for sysa in _sysa_variants(n):
        S = (sysa,) if isinstance(sysa, int) else tuple(sysa)
        if mk.sym:
            k0 = len(mk.rec.calls)
            g = qk.schmidt_gap(_q(psi), dims, sysa)
            c = mk.rec.calls[k0:]
            if len(set(S)) == n:
                mk.same(f"schmidt_gap sysa={sysa}: whole system -> 1.0", (g, len(c)), (1.0, 0))
                continue
            mk.same(f"schmidt_gap sysa={sysa}: asks for the 2 largest eigenvalues", (c[0][2].get("k"), c[0][2].get("which")), (2, "LM"))
            _check_reduced_arg(mk, f"schmidt_gap sysa={sysa}", c[0][1], psi, dims, S)
            l = c[0][3]
            mk.eq(f"schmidt_gap sysa={sysa}: value^2 == (l0 - l1)^2", g * g, (l[0] - l[1]) * (l[0] - l[1]))
            k0 = len(mk.rec.calls)
            t = qk.tr_sqrt_subsys(_q(psi), dims, sysa, approx_thresh=None)
            c = mk.rec.calls[k0:]
            _check_reduced_arg(mk, f"tr_sqrt_subsys sysa={sysa}", c[0][1], psi, dims, S)
            mk.eq(f"tr_sqrt_subsys sysa={sysa}: value == sum sqrt(l)", t, sum((x.sqrt() for x in c[0][3]), 0))
        else:
            if len(set(S)) == n:
                mk.same("schmidt_gap whole system", qk.schmidt_gap(qu.qu(psi), dims, sysa), 1.0)
                continue
            ev = np.sort(np.linalg.eigvalsh(_ptr(psi, dims, tuple(sorted(S)))))[::-1]
            mk.eq(f"schmidt_gap sysa={sysa}", qk.schmidt_gap(qu.qu(psi), dims, sysa), ev[0] - ev[1], tol=1e-6)
            mk.eq(f"tr_sqrt_subsys sysa={sysa}", qk.tr_sqrt_subsys(qu.qu(psi), dims, sysa), np.sqrt(ev[ev > 1e-15]).sum(), tol=1e-6)


@obligation(PROP, params=[{"D": 2}, {"D": 3}, {"D": 4}])
@symenv
def distance_fidelity_mixed(mk, D):
    """trace_distance with a density operator: half the trace norm of the difference (kets turned into
    projectors); fidelity of two density operators: tr sqrtm( sqrtm(r) s sqrtm(r) )"""
    mk.encodes(qk.trace_distance, qk.fidelity)
    if mk.sym:
        r, s = mk.herm("r", D), mk.herm("s", D)
        a = _ket(mk, "a", D)
        for (x, y, lab, want) in ((r, s, "dop,dop", r - s), (a, s, "ket,dop", _proj(a) - s), (r, a, "dop,ket", r - _proj(a))):
            k0 = len(mk.rec.calls)
            d = qk.trace_distance(_q(x), _q(y))
            c = mk.rec.calls[k0:]
            mk.same(f"trace_distance {lab}: one trace-norm call (Hermitian)", [(z[0], z[2].get("isherm")) for z in c], [("norm[tr]", True)])
            mk.eq(f"trace_distance {lab}: operator == difference of the states", c[0][1], want)
            mk.eq(f"trace_distance {lab}: value == N / 2", d, c[0][3] * _half(mk))
        for sq in (False, True):
            k0 = len(mk.rec.calls)
            F = qk.fidelity(_q(r), _q(s), squared=sq)
            c = mk.rec.calls[k0:]
            mk.same("fidelity dop,dop: two matrix square roots", [z[0] for z in c], ["sqrtm", "sqrtm"])
            mk.eq("fidelity: first square root of p1", c[0][1], r)
            R = np.asarray(c[0][3])
            mk.eq("fidelity: second square root of sqrt(p1) p2 sqrt(p1)", c[1][1], ref.matmul(ref.matmul(R, s), R))
            t = ref.trace(np.asarray(c[1][3]))
            t = (t + t.conjugate()) * _half(mk)
            mk.eq(f"fidelity squared={sq}: value", F, t * t if sq else t)
    else:
        r, s = _psd(mk, "r", D), _psd(mk, "s", D)
        a = _norm_ket(mk, np.asarray(_ket(mk, "a", D), dtype=complex))
        mk.eq("trace_distance dop,dop", qk.trace_distance(qu.qu(r), qu.qu(s)), 0.5 * _np_trnorm(r - s), tol=1e-6)
        mk.eq("trace_distance dop,dop isherm=False (svd)", qk.trace_distance(qu.qu(r), qu.qu(s), isherm=False), 0.5 * _np_trnorm(r - s), tol=1e-6)
        mk.eq("trace_distance ket,dop", qk.trace_distance(qu.qu(a), qu.qu(s)), 0.5 * _np_trnorm(_proj(a) - s), tol=1e-6)
        mk.eq("trace_distance symmetric", qk.trace_distance(qu.qu(s), qu.qu(r)), 0.5 * _np_trnorm(r - s), tol=1e-6)
        mk.eq("trace_distance(rho, rho) == 0", qk.trace_distance(qu.qu(r), qu.qu(r)), 0.0)
        U = sla.expm(1j * np.asarray(mk.herm("G", D), dtype=complex))
        mk.eq("trace_distance unitarily invariant", qk.trace_distance(qu.qu(U @ r @ U.conj().T), qu.qu(U @ s @ U.conj().T)), 0.5 * _np_trnorm(r - s), tol=1e-6)
        mk.eq("fidelity unitarily invariant", qk.fidelity(qu.qu(U @ r @ U.conj().T), qu.qu(U @ s @ U.conj().T)), qk.fidelity(qu.qu(r), qu.qu(s)), tol=1e-5)


def _conc_ref(rho):
    Y = np.array([[0, -1j], [1j, 0]])
    YY = np.kron(Y, Y)
    R = rho @ YY @ rho.conj() @ YY
    ev = np.sort(np.sqrt(np.abs(np.linalg.eigvals(R).real)))[::-1]
    return max(0.0, ev[0] - ev[1:].sum())


@obligation(PROP, params=[{"dims": (2, 2)}, {"dims": (2, 2, 2)}], allow_exc=(), max_paths=200)
@symenv
def concurrence_mixed(mk, dims):
    """concurrence of a density operator / of two qubits of a larger state: eigvals is asked for the spectrum of
    rho (Y x Y) rho^* (Y x Y) with rho the reduced state of the two sites"""
    mk.encodes(qk.concurrence)
    D = _prod(dims)
    n = len(dims)
    rho = mk.herm("r", D) if mk.sym else _psd(mk, "r", D)
    psi = _norm_ket(mk, _ket(mk, "a", D))
    Y = _pauli(mk, "Y")
    YY = ref.kron(Y, Y)
    for sa, sb in itertools.permutations(range(n), 2):
        red = _ptr(rho, dims, tuple(sorted((sa, sb))))
        if mk.sym:
            k0 = len(mk.rec.calls)
            try:
                qk.concurrence(_q(rho), dims, sa, sb)
            except P.Unsupported as e:
                mk.note(f"combining formula not modelled: {e}"[:80])
            c = mk.rec.calls[k0:]
            mk.same(f"concurrence dop {sa},{sb}: one eigvals call", [z[0] for z in c], ["eigvals"])
            cred = np.array([x.conjugate() for x in red.reshape(-1)], dtype=object).reshape(red.shape)
            want = ref.matmul(ref.matmul(red, YY), ref.matmul(cred, YY))
            mk.eq(f"concurrence dop {sa},{sb}: operator == rho YY rho* YY of the reduced state", c[0][1], want)
        else:
            mk.eq(f"concurrence dop {sa},{sb}", qk.concurrence(qu.qu(rho), dims, sa, sb), _conc_ref(red), tol=1e-6)
            if n > 2:
                mk.eq(f"concurrence ket of a larger system {sa},{sb}", qk.concurrence(qu.qu(psi), dims, sa, sb),
                      _conc_ref(_ptr(psi, dims, tuple(sorted((sa, sb))))), tol=1e-6)
            else:
                mk.eq("concurrence ket == projector", qk.concurrence(qu.qu(psi), dims, sa, sb), _conc_ref(_proj(psi)), tol=1e-6)


# ------------------------------------------------------------------------------ discord: which state is analysed

class _Opt:
    success = True
    message = "recorder"


_DISCORD = [{"dims": (2, 2), "sysa": 0, "sysb": 1}, {"dims": (2, 2), "sysa": 1, "sysb": 0}] + \
           [{"dims": (2, 2, 2), "sysa": a, "sysb": b} for a, b in itertools.permutations(range(3), 2)]


@obligation(PROP, params=[dict(d, kind=k) for d in _DISCORD for k in ("dop",)] +
                         [dict(d, kind="ket") for d in _DISCORD if len(d["dims"]) == 3 and (d["sysa"], d["sysb"]) in ((0, 2), (2, 0))],
            num_trials=1, timeout_s=600)
@symenv
def discord_subsystems(mk, dims, sysa, sysb, kind):
    """quantum_discord(p, dims, sysa, sysb): the two-qubit state handed to the mutual information / one-way
    classical information optimisation is the reduced state with A = sysa first and B = sysb (the measured
    party) second, i.e. relabelling the subsystems relabels the result"""
    mk.encodes(qk.quantum_discord, qk.one_way_classical_information)
    D = _prod(dims)
    if mk.sym:
        p = mk.herm("r", D) if kind == "dop" else _ket(mk, "a", D)
        seen = {}

        def fake_mi(x, *a, **k):
            seen["mi"] = np.asarray(x)
            return P.real("Iab")

        def fake_owci(x, prjs, precomp_func=False):
            seen["owci"] = np.asarray(x)
            return lambda prjs: P.real("Jab")

        def fake_min(f, x0, **kw):
            seen["x0"] = x0
            o = _Opt()
            o.fun = P.real("Dmin")
            return o

        mk.env_.p.set(qk, "mutual_information", fake_mi)
        mk.env_.p.set(qk, "one_way_classical_information", fake_owci)
        mk.env_.p.set(qk, "minimize", fake_min)
        val = qk.quantum_discord(_q(p), dims, sysa, sysb)
        want = _ptr(p, dims, (sysa, sysb))
        mk.eq("state handed to the one-way classical information == reduced state ordered (A=sysa, B=sysb)", seen["owci"], want)
        mk.eq("state handed to the mutual information (same state)", seen["mi"], seen["owci"])
        mk.same("the optimiser starts from the documented initial angles", tuple(seen["x0"]), (math.pi / 2, math.pi))
    else:
        if kind == "dop":
            # a valid state with a visible A/B asymmetry: random state mixed with a classical-quantum state
            z0, z1, pl = np.array([1, 0.0]), np.array([0, 1.0]), np.array([1, 1.0]) / 2 ** 0.5
            cq = 0.5 * (np.kron(_proj(z0), _proj(z0)) + np.kron(_proj(z1), _proj(pl)))
            if len(dims) == 3:
                lo, hi = sorted((sysa, sysb))
                third = [i for i in range(3) if i not in (lo, hi)][0]
                full = np.kron(cq, np.eye(2) / 2).reshape((2,) * 6)
                src = [lo, hi, third]
                perm = [src.index(i) for i in range(3)]
                cq = full.transpose(perm + [q + 3 for q in perm]).reshape(8, 8)
            p = 0.5 * _psd(mk, "r", D) + 0.5 * cq
        else:
            p = _norm_ket(mk, np.asarray(_ket(mk, "a", D), dtype=complex))
        red = _ptr(p, dims, (sysa, sysb))
        got = qk.quantum_discord(qu.qu(p), dims, sysa, sysb)
        want = qk.quantum_discord(qu.qu(red), (2, 2), 0, 1)
        mk.eq("quantum_discord(p, dims, sysa, sysb) == quantum_discord(reduced state ordered (A, B), (2,2), 0, 1)", got, want, tol=1e-5)
        # definition: I(A:B) - max over projective measurements on B, on a grid (lower bound check)
        mk.same("discord >= 0", got >= -1e-9, True)


# ------------------------------------------------------------------------------ bookkeeping members

@obligation(PROP, params=[{"dims": (2, 2), "kind": "dop"}, {"dims": (2, 2), "kind": "ket"}, {"dims": (2, 2, 2), "kind": "dop"},
                          {"dims": (2, 2, 2), "kind": "ket"}])
@symenv
def qid_bookkeeping(mk, dims, kind):
    """qid(p, dims, inds): per requested site the sum over x, y, z of coeff * norm([rho, sigma_s at that site])^power"""
    mk.encodes(qk.qid)
    D = _prod(dims)
    n = len(dims)
    for inds in (0, (n - 1,), tuple(range(n)), tuple(range(n))[::-1]):
        it = (inds,) if isinstance(inds, int) else tuple(inds)
        if mk.sym:
            p = _state(mk, "p", D, kind)
            rho = _as_dop(p)
            calls, rets = [], []

            def nf(X):
                calls.append(np.asarray(X))
                rets.append(P.positive(f"nrm{len(calls)}"))
                return rets[-1]

            got = qk.qid(_q(p), dims, inds, sparse_comp=False, norm_func=nf, power=2, coeff=3)
            mk.same(f"inds={inds}: one value per requested site", len(got), len(it))
            mk.same(f"inds={inds}: three commutator norms per site", len(calls), 3 * len(it))
            k = 0
            for pos, site in enumerate(it):
                tot = 0
                for s in "XYZ":
                    op = ref.embed(_pauli(mk, s), dims, (site,))
                    mk.eq(f"inds={inds} site {site} {s}: operator handed to the norm == [rho, sigma]", calls[k],
                          ref.matmul(rho, op) - ref.matmul(op, rho))
                    tot = tot + 3 * rets[k] ** 2
                    k += 1
                mk.eq(f"inds={inds} site {site}: value == sum coeff * norm^power", got[pos], tot)
        else:
            p = _psd(mk, "r", D) if kind == "dop" else _norm_ket(mk, np.asarray(_ket(mk, "a", D), dtype=complex))
            rho = _as_dop(p)
            got = qk.qid(qu.qu(p), dims, inds)
            f = qk.qid(None, dims, inds, precomp_func=True)
            for pos, site in enumerate(it):
                tot = 0.0
                for s in "XYZ":
                    op = ref.embed(_pauli(mk, s), dims, (site,))
                    tot += np.linalg.norm(rho @ op - op @ rho, 2) ** 2
                mk.eq(f"inds={inds} site {site}: qid == sum of squared spectral norms of the commutators", got[pos], tot, tol=1e-6)
                mk.eq(f"inds={inds} site {site}: precomp_func", f(qu.qu(p))[pos], tot, tol=1e-6)


@obligation(PROP, params=[{"nq": 3, "kind": "ket", "sz": 1}, {"nq": 3, "kind": "dop", "sz": 1}, {"nq": 4, "kind": "ket", "sz": 2},
                          {"nq": 4, "kind": "ket", "sz": 1}, {"nq": 4, "kind": "dop", "sz": 2, "_tiers": ("thorough",)},
                          {"nq": 5, "kind": "ket", "sz": 2, "_tiers": ("thorough",)}], num_trials=1)
@symenv
def ent_cross_matrix_bookkeeping(mk, nq, kind, sz):
    """ent_cross_matrix: which reduced states / block dimensions are handed to ent_fn, where the values land"""
    mk.encodes(qk.ent_cross_matrix)
    D = 2 ** nq
    dims = (2,) * nq
    nb = nq // sz
    blocks = [tuple(range(b * sz, (b + 1) * sz)) for b in range(nb)]
    bip = kind == "ket" and sz * 2 == nq
    if mk.sym:
        p = _state(mk, "p", D, kind)
        calls = []

        def ent_fn(x, dims=None, **kw):
            calls.append((np.asarray(x), tuple(dims)))
            return float(100 + len(calls))

        for upscale in (False, True):
            del calls[:]
            M = qk.ent_cross_matrix(_q(p), sz_blc=sz, ent_fn=ent_fn, calc_self_ent=False, upscale=upscale)
            mk.same(f"upscale={upscale}: shape", M.shape, (nq, nq) if upscale else (nb, nb))
            mk.same("block dimensions handed to ent_fn", {c[1] for c in calls}, {(2 ** sz, 2 ** sz)})
            if bip:
                mk.same("pure bipartition: one call on the ket itself", len(calls), 1)
                mk.eq("pure bipartition: state", calls[0][0], p)
                want = np.full((nb, nb), 101.0 / sz)
                np.fill_diagonal(want, np.nan)
            else:
                pairs = [(i, j) for i in range(nb) for j in range(i + 1, nb)]
                mk.same("one call per unordered pair of blocks", len(calls), len(pairs))
                want = np.full((nb, nb), np.nan)
                for k, (i, j) in enumerate(pairs):
                    mk.eq(f"blocks {i},{j}: reduced state of the sites of both blocks", calls[k][0], _ptr(p, dims, blocks[i] + blocks[j]))
                    want[i, j] = want[j, i] = (101.0 + k) / sz
            if upscale:
                want = np.kron(want, np.ones((sz, sz)))
                if nq > nb * sz:
                    w2 = np.full((nq, nq), np.nan)
                    w2[:nb * sz, :nb * sz] = want
                    want = w2
            mk.same(f"upscale={upscale}: where the values land", np.array_equal(M, want, equal_nan=True), True)
    else:
        p = _psd(mk, "r", D) if kind == "dop" else _norm_ket(mk, np.asarray(_ket(mk, "a", D), dtype=complex))
        M = qk.ent_cross_matrix(qu.qu(p), sz_blc=sz, calc_self_ent=True)
        for i in range(nb):
            for j in range(i, nb):
                if bip:
                    want = qk.logneg(qu.qu(p), (2 ** sz, 2 ** sz)) / sz
                elif i == j:
                    ev = np.linalg.eigvalsh(_ptr(p, dims, blocks[i]))
                    want = max(0.0, np.log2(np.sqrt(ev[ev > 1e-15]).sum() ** 2)) / sz
                else:
                    red = _ptr(p, dims, blocks[i] + blocks[j])
                    want = max(0.0, np.log2(_np_trnorm(_ptranspose(red, (2 ** sz, 2 ** sz), (0,))))) / sz
                mk.eq(f"entry {i},{j}", M[i, j], want, tol=1e-5)
                mk.eq(f"entry {j},{i}", M[j, i], want, tol=1e-5)


# ------------------------------------------------------------------------------ local unitary invariance

def _unitary(mk, name, d):
    """symbolic mode: free matrix with U^dag U = U U^dag = 1 as hypotheses; numeric: exp(i Hermitian)"""
    if mk.sym:
        from qv import stubs
        U = mk.array(name, (d, d), "cplx")
        stubs._add_eq(f"{name}:UhU-I", ref.matmul(ref.dag(U), U) - ref.eye(d, like=U), False)
        stubs._add_eq(f"{name}:UUh-I", ref.matmul(U, ref.dag(U)) - ref.eye(d, like=U), False)
        return U
    return sla.expm(1j * np.asarray(mk.herm(name + "g", d), dtype=complex))


@obligation(PROP, params=[{"member": "fidelity"}, {"member": "purity_overlap"}],
            rounds=2, rounds2=3, timeout_s=900, max_rows=300000)
@symenv
def local_unitary_invariance(mk, member):
    """two qubits, U = U_A x U_B with U_A, U_B unitary (hypotheses): pure-state fidelity and the overlap <a|rho|a>
    are invariant (the correlation function with co-rotated observables exceeds the certificate budget: numeric only)"""
    mk.encodes(qk.fidelity, qk.correlation, qc.expectation)
    dims = (2, 2)
    UA, UB = _unitary(mk, "UA", 2), _unitary(mk, "UB", 2)
    U = ref.kron(UA, UB)
    if member == "fidelity":
        a, b = _ket(mk, "a", 4), _ket(mk, "b", 4)
        mk.eq("fidelity(Ua, Ub)^2 == fidelity(a, b)^2", qk.fidelity(_q(ref.matmul(U, a)), _q(ref.matmul(U, b)), squared=True),
              qk.fidelity(_q(a), _q(b), squared=True))
    else:
        a = _ket(mk, "a", 4)
        r = mk.herm("r", 4)
        r2 = ref.matmul(ref.matmul(U, r), ref.dag(U))
        mk.eq("<Ua| U rho U^dag |Ua> == <a|rho|a>", qc.expec(_q(ref.matmul(U, a)), _q(r2)), qc.expec(_q(a), _q(r)))
        if not mk.sym:
            A, B = np.asarray(mk.herm("A", 2), dtype=complex), np.asarray(mk.herm("B", 2), dtype=complex)
            A2, B2 = UA @ A @ UA.conj().T, UB @ B @ UB.conj().T
            mk.eq("correlation(U a; U_A A U_A^dag, U_B B U_B^dag) == correlation(a; A, B)",
                  qk.correlation(qu.qu(U @ a), qu.qu(A2), qu.qu(B2), 0, 1, dims=dims),
                  qk.correlation(qu.qu(a), qu.qu(A), qu.qu(B), 0, 1, dims=dims))
            rr = _psd(mk, "q", 4)
            mk.eq("entropy invariant under local unitaries", qk.entropy(qu.qu(U @ rr @ U.conj().T)), qk.entropy(qu.qu(rr)), tol=1e-6)
            mk.eq("negativity invariant under local unitaries", qk.negativity(qu.qu(U @ rr @ U.conj().T)), qk.negativity(qu.qu(rr)), tol=1e-6)
            mk.eq("mutinf invariant under local unitaries", qk.mutinf(qu.qu(U @ rr @ U.conj().T)), qk.mutinf(qu.qu(rr)), tol=1e-6)
