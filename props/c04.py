"""C04 - gauging, canonization and simplification preserve the denoted tensor.

Every rewrite of the real library that is documented as changing only the internal
representation is executed on small networks whose entries are symbols (conj-pair complex
symbols wherever no LAPACK routine is reached, real symbols where a QR / SVD contract stub is
hit), with a symbolic stored exponent.  Goals:

 (i)   value: the dense tensor over the SAME outer labels, computed by the independent
       sum-of-products reference (qv/ref.py) times 10**exponent, is identical before and after
       (a polynomial identity for all values of the symbols; a Nullstellensatz certificate
       modulo the LAPACK contracts where a stub was reached);
 (ii)  outer labels and their sizes are unchanged, no new dangling label appears;
 (iii) promised forms: a tensor whose `left_inds` is set is an isometry from those labels,
       canonize_around leaves every tensor off the centre isometric towards it, bonds are never
       larger than before (no truncation requested => min-rank or unchanged), equalize_norms
       gives equal (or the requested) Frobenius norms, the exponent bookkeeping is exact.

Structured tensors (diagonal / anti-diagonal / single column / COPY, literal zeros with
symbolic non-zeros) make the structure detection kernels of array_ops fire (they run as plain
Python with the JIT off).
"""
import contextlib
import itertools
import warnings
from fractions import Fraction

import numpy as np

import quimb.tensor as qtn
from quimb.tensor import tensor_core as tc
from quimb.tensor import array_ops
from quimb.tensor import networking as tnw

from qv import poly as P
from qv import ref, stubs, sx
from qv.harness import obligation, Skip

PROP = "C04"
META = {
    "bounds": {},
    "outside": [],
    "assumptions": [],
}

_Q = ("quick", "thorough")
_T = ("thorough",)

# ---------------------------------------------------------------------- geometries
# name -> (list of (tag, inds), sizes, output labels)
GEOMS = {
    # tree: chain of three tensors, every tensor with a dangling label
    "chain3": ([("A", "ax"), ("B", "xby"), ("C", "yc")], dict(a=2, b=2, c=2, x=2, y=2), "abc"),
    # tree: star with three leaves
    "star4": ([("A", "axyz"), ("B", "xb"), ("C", "yc"), ("D", "zd")], dict(a=2, b=2, c=2, d=2, x=2, y=2, z=2), "abcd"),
    # triangle loop
    "tri": ([("A", "axz"), ("B", "xby"), ("C", "yzc")], dict(a=2, b=2, c=2, x=2, y=2, z=2), "abc"),
    # ring of four, one dangling label per tensor
    "ring4": ([("A", "axw"), ("B", "xby"), ("C", "ycz"), ("D", "zdw")], dict(a=2, b=2, c=2, d=2, x=2, y=2, z=2, w=2), "abcd"),
    # hyper index h on three tensors
    "hyper3": ([("A", "ah"), ("B", "hb"), ("C", "hcy"), ("D", "yd")], dict(a=2, b=2, c=2, d=2, h=2, y=2), "abcd"),
    # hyper index that is also an output label
    "hyperout": ([("A", "ah"), ("B", "hb"), ("C", "hc")], dict(a=2, b=2, c=2, h=2), "abch"),
    # output label that is also a bond (on two tensors + output)
    "bondout": ([("A", "ah"), ("B", "hby"), ("C", "yc")], dict(a=2, b=2, c=2, h=2, y=2), "abch"),
    # multibond (x, y shared by the same pair) in a chain
    "multi": ([("A", "axy"), ("B", "xyby"[0:3] + "z"), ("C", "zc")], dict(a=2, b=2, c=2, x=2, y=2, z=2), "abc"),
    # size-1 dimensions: a size-1 bond, a size-1 outer label
    "dim1": ([("A", "axs"), ("B", "xsby"), ("C", "yc")], dict(a=1, b=2, c=2, x=2, s=1, y=2), "abc"),
    # bond dimension three / unequal dimensions
    "chain3d3": ([("A", "ax"), ("B", "xby"), ("C", "yc")], dict(a=2, b=2, c=3, x=3, y=2), "abc"),
    # two tensors
    "pair": ([("A", "ax"), ("B", "xb")], dict(a=2, b=2, x=2), "ab"),
    "pairwide": ([("A", "ax"), ("B", "xb")], dict(a=2, b=2, x=3), "ab"),
}
GEOMS["multi"] = ([("A", "axy"), ("B", "xybz"), ("C", "zc")], dict(a=2, b=2, c=2, x=2, y=2, z=2), "abc")


def build(mk, geom, kind="cplx", expo="sym", kinds=None):
    spec, sizes, out = GEOMS[geom]
    ts = []
    for k, (tag, inds) in enumerate(spec):
        kd = kinds[k] if kinds else kind
        data = mk.array(tag, tuple(sizes[i] for i in inds), kd)
        ts.append(qtn.Tensor(data, tuple(inds), tags=[tag, "ALL"]))
    tn = qtn.TensorNetwork(ts)
    if expo == "sym":
        e = mk.scalar("e", "real")
        tn.exponent = e if mk.sym else float(e)
    return tn, dict(sizes), tuple(out)


def conj(a):
    if isinstance(a, P.Poly):
        return a.conjugate()
    a = np.asarray(a)
    if a.dtype == object:
        out = np.empty(a.shape, dtype=object)
        for idx in np.ndindex(*a.shape):
            out[idx] = P.lift(a[idx]).conjugate()
        return out
    return np.conj(a)


def dense(tn, out):
    return ref.tn_dense(tn, tuple(out))


def check_value(mk, tag, tn2, out, want, sizes):
    """(ii) outer labels / sizes, (i) dense value over the same labels"""
    ok = all(o in tn2.ind_map for o in out)
    mk.same(f"{tag}: every outer label still present", ok, True)
    if not ok:
        return
    mk.same(f"{tag}: outer label sizes", tuple(tn2.ind_size(o) for o in out), tuple(sizes[o] for o in out))
    mk.same(f"{tag}: no new dangling label", set(tn2.outer_inds()) <= set(out), True)
    mk.eq(f"{tag}: dense value over the same outer labels", dense(tn2, out), want)


def iso_goal(mk, label, t, over):
    """sum over labels `over` of conj(t) t == identity on the remaining label(s)"""
    over = tuple(over)
    rest = tuple(i for i in t.inds if i not in over)
    ren = {i: i + "'" for i in rest}
    g = ref.sum_of_products([(t.data, t.inds), (conj(t.data), tuple(ren.get(i, i) for i in t.inds))],
                            rest + tuple(ren[i] for i in rest))
    n = int(np.prod([t.ind_size(i) for i in rest])) if rest else 1
    mk.eq(label, g.reshape(n, n), ref.eye(n, like=g))


def check_flags(mk, tag, tn2):
    """(iii) every tensor whose left_inds is set is an isometry from those labels"""
    for t in tn2:
        if t.left_inds is not None:
            li = tuple(t.left_inds)
            mk.same(f"{tag}: left_inds {li} of {sorted(t.tags)} are labels of the tensor", set(li) <= set(t.inds), True)
            if set(li) <= set(t.inds):
                iso_goal(mk, f"{tag}: tensor {sorted(t.tags)} flagged isometric over {li}", t, li)


def eq_clear(mk, label, lhs, rhs):
    """equality goal, each entry multiplied by the monomial of invertible (non-zero) symbols that
    clears its negative powers: an equivalent goal whose certificate is of lower degree (a norm
    r = sqrt(p) enters as r**-2; the defining relation is r**2 = p)"""
    if not mk.sym:
        return mk.eq(label, lhs, rhs)
    A, B = [], []
    for x, y in zip(P.flat_polys(lhs), P.flat_polys(rhs)):
        mins = {}
        for m in (x - y).t:
            for s_, e_ in m:
                if s_ in P.TAB.invertible and e_ < 0:
                    mins[s_] = min(mins.get(s_, 0), e_)
        if mins:
            mono = P.Poly({tuple(sorted((s_, -e_) for s_, e_ in mins.items())): 1})
            x, y = x * mono, y * mono
        A.append(x)
        B.append(y)
    mk.eq(label, A, B)


def norm2(t):
    tot = 0
    for v, cv in zip(np.asarray(t.data).reshape(-1), conj(t.data).reshape(-1)):
        tot = tot + v * cv
    return tot


def tag_of(t):
    return next(g for g in t.tags if g != "ALL")


# ====================================================================== A. exponent / norms

@obligation(PROP, params=[{"geom": g, "_tiers": _Q if g in ("chain3", "tri", "hyper3", "dim1") else _T}
                          for g in ("chain3", "tri", "hyper3", "dim1", "ring4", "multi", "bondout")],
            rounds=2, wall_s=200, timeout_s=300)
def exponent_and_norms(mk, geom):
    """strip_exponent / distribute_exponent / equalize_norms: value kept, exponent bookkeeping,
    requested norms"""
    mk.encodes(tc.TensorNetwork.strip_exponent, tc.TensorNetwork.distribute_exponent, tc.TensorNetwork.equalize_norms,
               tc.TensorNetwork.multiply_each, tc.Tensor.norm)
    tn, sizes, out = build(mk, geom)
    want = dense(tn, out)
    e0 = tn.exponent
    tids = list(tn.tensor_map)

    # strip_exponent of one tensor (by tid and by tensor), default value and given value
    for how, value in (("tid", None), ("tensor", 2.0), ("tid", True)):
        t2 = tn.copy()
        tid = tids[1]
        t2.strip_exponent(tid if how == "tid" else t2.tensor_map[tid], value)
        tag = f"strip_exponent({how}, value={value})"
        check_value(mk, tag, t2, out, want, sizes)
        v = 1.0 if value in (None, True) else value
        mk.eq(f"{tag}: stripped tensor has squared norm value**2", norm2(t2.tensor_map[tid]), v * v)
        # the factor moved into the exponent is the old norm / value
        mk.eq(f"{tag}: 10**(new exponent - old) * value == old norm (squared)",
              (10 ** (t2.exponent - e0) * v) ** 2, norm2(tn.tensor_map[tid]))

    # distribute_exponent
    for new in (0.0, 3.0):
        t2 = tn.copy()
        t2.distribute_exponent(new)
        tag = f"distribute_exponent({new})"
        check_value(mk, tag, t2, out, want, sizes)
        mk.same(f"{tag}: exponent is the requested one", t2.exponent, new)

    # equalize_norms
    for value in (None, 1.0, 3.0):
        t2 = tn.equalize_norms(value=value)
        tag = f"equalize_norms(value={value})"
        check_value(mk, tag, t2, out, want, sizes)
        n2 = [norm2(t) for t in t2]
        if value is None:
            for k in range(1, len(n2)):
                mk.eq(f"{tag}: tensor {k} has the same squared norm as tensor 0", n2[k], n2[0])
            mk.same(f"{tag}: exponent redistributed (== 0.0)", t2.exponent, 0.0)
        else:
            for k in range(len(n2)):
                mk.eq(f"{tag}: tensor {k} squared norm == value**2", n2[k], value * value)
    t2 = tn.copy()
    r = t2.equalize_norms_(1.0)
    mk.same("equalize_norms_ returns the network itself", r is t2, True)
    check_value(mk, "equalize_norms_(1.0)", t2, out, want, sizes)
    # composition: equalize(value) then distribute back: exponent 0, same value
    t2.distribute_exponent()
    check_value(mk, "equalize_norms_(1.0) ; distribute_exponent()", t2, out, want, sizes)
    mk.same("equalize ; distribute: exponent == 0.0", t2.exponent, 0.0)


# ====================================================================== B. fuse / squeeze

def _gauges_for(mk, tn, inds, name="g"):
    return {ix: mk.array(f"{name}{ix}", (tn.ind_size(ix),), "pos") for ix in inds}


def dense_gauged(tn, out, gauges):
    """the tensor a (network, gauges) pair denotes: the gauge vector of every listed label is
    inserted on that label"""
    terms = ref.tn_terms(tn) + [(g, (ix,)) for ix, g in (gauges or {}).items()]
    val = ref.sum_of_products(terms, tuple(out))
    e = getattr(tn, "exponent", 0.0)
    if not (isinstance(e, float) and e == 0.0):
        val = val * (10 ** e)
    return val


@obligation(PROP, params=[{"geom": g, "_tiers": _Q if g in ("multi", "dim1", "tri") else _T}
                          for g in ("multi", "dim1", "tri", "hyper3", "chain3d3", "bondout")])
def fuse_and_squeeze(mk, geom):
    """fuse_multibonds / squeeze / tensor_make_single_bond / tensor_fuse_squeeze (with gauge dicts)"""
    mk.encodes(tc.TensorNetwork.fuse_multibonds, tc.TensorNetwork.squeeze, tc.Tensor.squeeze, tc.tensor_multifuse,
               tc.tensor_make_single_bond, tc.tensor_fuse_squeeze, tc.TensorNetwork.get_multibonds, tc.Tensor.fuse)
    tn, sizes, out = build(mk, geom)
    want = dense(tn, out)
    inner = [ix for ix in tn.ind_map if ix not in out]

    t2 = tn.fuse_multibonds()
    check_value(mk, "fuse_multibonds()", t2, out, want, sizes)
    mk.same("fuse_multibonds(): no pair of tensors shares two inner labels", t2.get_multibonds(), {})
    for mb, tids in tn.get_multibonds().items():
        kept = [ix for ix in mb if ix in t2.ind_map]
        mk.same(f"fuse_multibonds(): multibond {mb} became one label", len(kept), 1)
        if len(kept) == 1:
            mk.same(f"fuse_multibonds(): fused size of {mb}", t2.ind_size(kept[0]), int(np.prod([sizes[i] for i in mb])))
    t2 = tn.copy()
    r = t2.fuse_multibonds_()
    mk.same("fuse_multibonds_ returns the network itself", r is t2, True)
    check_value(mk, "fuse_multibonds_()", t2, out, want, sizes)

    # with a gauge dictionary: (tn, gauges) denotes the network with the gauges inserted
    for which in ("all", "first"):
        gl = inner if which == "all" else inner[:1]
        gauges = _gauges_for(mk, tn, gl, name=f"g{which}")
        wantg = dense_gauged(tn, out, gauges)
        t2 = tn.fuse_multibonds(gauges=gauges)
        mk.same(f"fuse_multibonds(gauges on {which} inner): gauge keys are labels of the result",
                set(gauges) <= set(t2.ind_map), True)
        if set(gauges) <= set(t2.ind_map):
            mk.same(f"fuse_multibonds(gauges on {which} inner): gauge sizes",
                    all(len(g) == t2.ind_size(ix) for ix, g in gauges.items()), True)
            mk.eq(f"fuse_multibonds(gauges on {which} inner): gauged value kept", dense_gauged(t2, out, gauges), wantg)

    # include / exclude
    mbs = list(tn.get_multibonds())
    if mbs:
        mb = mbs[0]
        t2 = tn.fuse_multibonds(exclude=set(out) | {mb[0]})
        check_value(mk, f"fuse_multibonds(exclude={{{mb[0]}}})", t2, out, want, sizes)
        mk.same("fuse_multibonds(exclude): excluded label untouched", mb[0] in t2.ind_map and t2.ind_size(mb[0]) == sizes[mb[0]], True)
        t2 = tn.fuse_multibonds(include=mb)
        check_value(mk, f"fuse_multibonds(include={mb})", t2, out, want, sizes)

    # squeeze with the default `exclude`: see squeeze_default (own obligation)
    if all(sizes[o] > 1 for o in out):
        t2 = tn.squeeze()
        check_value(mk, "squeeze()", t2, out, want, sizes)
        mk.same("squeeze(): no inner label of size 1 left",
                [ix for ix in t2.ind_map if ix not in out and t2.ind_size(ix) == 1], [])
    t2 = tn.squeeze(exclude=out)
    check_value(mk, "squeeze(exclude=outer)", t2, out, want, sizes)
    t2 = tn.squeeze(fuse=True, exclude=out)
    check_value(mk, "squeeze(fuse=True, exclude=outer)", t2, out, want, sizes)
    mk.same("squeeze(fuse=True): no multibond left", t2.get_multibonds(), {})
    ones = [ix for ix in inner if sizes[ix] == 1]
    if ones:
        t2 = tn.squeeze(include=ones)
        check_value(mk, f"squeeze(include={ones})", t2, out, want, sizes)
        mk.same("squeeze(include): listed size-1 labels removed", [ix for ix in ones if ix in t2.ind_map], [])
        t2 = tn.squeeze(exclude=set(out) | set(ones))
        check_value(mk, f"squeeze(exclude=outer+{ones})", t2, out, want, sizes)
        mk.same("squeeze(exclude): excluded labels kept", all(ix in t2.ind_map for ix in ones), True)
    t2 = tn.copy()
    t2.squeeze_(exclude=out)
    check_value(mk, "squeeze_(exclude=outer)", t2, out, want, sizes)

    # tensor level helpers on the first two tensors
    for bond_ind in (None, "NEW", {"y", "zz"}):
        t2 = tn.copy()
        ta, tb = t2["A"], t2["B"]
        shared = [ix for ix in ta.inds if ix in tb.inds]
        if bond_ind == "NEW" and len(shared) == 1:
            continue        # -> make_single_bond_named (own obligation)
        left, bnd, right = tc.tensor_make_single_bond(ta, tb, bond_ind=bond_ind)
        tag = f"tensor_make_single_bond(A, B, bond_ind={bond_ind})"
        check_value(mk, tag, t2, out, want, sizes)
        mk.same(f"{tag}: one shared label left", [ix for ix in ta.inds if ix in tb.inds], [bnd] if shared else [])
        mk.same(f"{tag}: left / right labels", (set(left), set(right)),
                (set(ta.inds) - {bnd}, set(tb.inds) - {bnd}))
        if shared:
            mk.same(f"{tag}: bond size is the product", ta.ind_size(bnd), int(np.prod([sizes[i] for i in shared])))
    for squeeze in (True, False):
        t2 = tn.copy()
        ta, tb = t2["A"], t2["B"]
        shared = [ix for ix in ta.inds if ix in tb.inds]
        gauges = _gauges_for(mk, tn, shared, name=f"q{int(squeeze)}")
        wantg = dense_gauged(tn, out, gauges)
        tc.tensor_fuse_squeeze(ta, tb, squeeze=squeeze, gauges=gauges)
        tag = f"tensor_fuse_squeeze(A, B, squeeze={squeeze}, gauges)"
        mk.same(f"{tag}: gauge keys are labels of the result", set(gauges) <= set(t2.ind_map), True)
        if set(gauges) <= set(t2.ind_map):
            mk.eq(f"{tag}: gauged value kept", dense_gauged(t2, out, gauges), wantg)


# ====================================================================== C. simple-update gauges

@obligation(PROP, params=[{"geom": g, "_tiers": _Q if g in ("chain3", "tri", "multi") else _T}
                          for g in ("chain3", "tri", "multi", "ring4", "dim1", "star4")], wall_s=200, timeout_s=300)
def gauge_insert_remove(mk, geom):
    """gauge_simple_insert / gauge_simple_remove / gauge_simple_temp / gauge_insert: the inserted
    network is the gauged reference, insert ; remove is the identity"""
    mk.encodes(tc.TensorNetwork.gauge_simple_insert, tc.TensorNetwork.gauge_simple_remove, tc.TensorNetwork.gauge_simple_temp,
               tc.TensorNetwork.gauge_insert, tc._get_gauge_conditioner, tc.Tensor.multiply_index_diagonal)
    tn, sizes, out = build(mk, geom)
    want = dense(tn, out)
    inner = [ix for ix in tn.ind_map if ix not in out]
    # gauges on every inner label, one outer label and one label that is not in the network
    labels = inner + [out[0]]
    gauges = _gauges_for(mk, tn, labels)
    gauges["notthere"] = mk.array("gnot", (2,), "pos")
    wantg = dense_gauged(tn, out, {k: v for k, v in gauges.items() if k in tn.ind_map})

    t2 = tn.copy()
    g2 = dict(gauges)
    outer, inn = t2.gauge_simple_insert(g2)
    mk.same("gauge_simple_insert: store untouched (remove=False)", set(g2), set(gauges))
    mk.eq("gauge_simple_insert: network == reference with the gauges inserted", dense(t2, out), wantg)
    mk.same("gauge_simple_insert: records", (len(outer), len(inn)), (1, len(inner)))
    t2.gauge_simple_remove(outer=outer, inner=inn)
    check_value(mk, "gauge_simple_insert ; gauge_simple_remove", t2, out, want, sizes)

    t2 = tn.copy()
    g2 = dict(gauges)
    outer, inn = t2.gauge_simple_insert(g2, remove=True)
    mk.same("gauge_simple_insert(remove=True): inserted gauges popped from the store", set(g2), {"notthere"})
    mk.eq("gauge_simple_insert(remove=True): network == gauged reference", dense(t2, out), wantg)
    # remove only the outer ones: inner gauges stay
    t2.gauge_simple_remove(outer=outer)
    mk.eq("gauge_simple_remove(outer only): inner gauges stay",
          dense(t2, out), dense_gauged(tn, out, {k: gauges[k] for k in inner}))
    t2.gauge_simple_remove(inner=inn)
    check_value(mk, "gauge_simple_remove(outer) ; gauge_simple_remove(inner)", t2, out, want, sizes)

    # return_gauges='inverse' gives the inverses of what was applied; None returns nothing
    t2 = tn.copy()
    outer, inn = t2.gauge_simple_insert(dict(gauges), return_gauges="inverse")
    for t, ix, gi in outer:
        t.multiply_index_diagonal_(ix, gi)
    for (tl, tr), ix, gi in inn:
        tl.multiply_index_diagonal_(ix, gi)
        tr.multiply_index_diagonal_(ix, gi)
    check_value(mk, "gauge_simple_insert(return_gauges='inverse') ; multiply by the returned inverses", t2, out, want, sizes)
    t2 = tn.copy()
    mk.same("gauge_simple_insert(return_gauges=None) returns None", t2.gauge_simple_insert(dict(gauges), return_gauges=None), None)
    mk.eq("gauge_simple_insert(return_gauges=None): network == gauged reference", dense(t2, out), wantg)
    t2 = tn.copy()
    mk.same("gauge_insert(mapping) returns None by default", t2.gauge_insert(dict(gauges)), None)
    mk.eq("gauge_insert(mapping): network == gauged reference", dense(t2, out), wantg)

    # smudge / power: insert ; remove is still the identity
    for kw in (dict(smudge=1e-6), dict(power=0.5), dict(smudge=1e-6, power=2.0)):
        t2 = tn.copy()
        try:
            outer, inn = t2.gauge_simple_insert(dict(gauges), **kw)
            t2.gauge_simple_remove(outer=outer, inner=inn)
        except P.Unsupported as e:
            mk.note(f"skipped: gauge_simple_insert({kw}): {e}")
            continue
        check_value(mk, f"gauge_simple_insert({kw}) ; gauge_simple_remove", t2, out, want, sizes)

    # context manager
    for kw in (dict(smudge=0.0), dict(), dict(smudge=0.0, ungauge_inner=False), dict(smudge=0.0, ungauge_outer=False)):
        t2 = tn.copy()
        try:
            with t2.gauge_simple_temp(dict(gauges), **kw) as (o_, i_):
                if kw.get("smudge", None) == 0.0:
                    mk.eq(f"gauge_simple_temp({kw}): inside == gauged reference", dense(t2, out), wantg)
        except P.Unsupported as e:
            mk.note(f"skipped: gauge_simple_temp({kw}): {e}")
            continue
        if kw.get("ungauge_inner", True) and kw.get("ungauge_outer", True):
            check_value(mk, f"gauge_simple_temp({kw}): after the block", t2, out, want, sizes)
        elif not kw.get("ungauge_inner", True):
            mk.eq(f"gauge_simple_temp({kw}): inner gauges stay after the block",
                  dense(t2, out), dense_gauged(tn, out, {k: gauges[k] for k in inner}))
        else:
            mk.eq(f"gauge_simple_temp({kw}): outer gauges stay after the block",
                  dense(t2, out), dense_gauged(tn, out, {out[0]: gauges[out[0]]}))
    # an exception inside the block still removes the gauges
    t2 = tn.copy()
    try:
        with t2.gauge_simple_temp(dict(gauges), smudge=0.0):
            raise KeyError("boom")
    except KeyError:
        pass
    check_value(mk, "gauge_simple_temp: exception inside the block", t2, out, want, sizes)


def _inv2(U):
    """exact inverse of a 2x2 / 3x3 matrix by the adjugate (division by the determinant)"""
    n = U.shape[0]
    if n == 1:
        return np.array([[1 / U[0, 0]]], dtype=U.dtype)
    if n == 2:
        det = U[0, 0] * U[1, 1] - U[0, 1] * U[1, 0]
        adj = np.empty((2, 2), dtype=U.dtype)
        adj[0, 0], adj[0, 1], adj[1, 0], adj[1, 1] = U[1, 1], -U[0, 1], -U[1, 0], U[0, 0]
        return adj / det
    raise Skip("inverse only for n <= 2")


@obligation(PROP, params=[{"geom": g, "kind": k, "_tiers": _Q if (g, k) in (("chain3", "cplx"), ("tri", "real")) else _T}
                          for g in ("chain3", "tri", "ring4", "dim1") for k in ("cplx", "real")],
            rounds=2, wall_s=200, timeout_s=300)
def insert_gauge(mk, geom, kind):
    """insert_gauge(U, where1, where2, Uinv): T1 Uinv, U T2 - the value is unchanged for every
    invertible U (Uinv = adj(U)/det(U): a rational identity)"""
    mk.encodes(tc.TensorNetwork.insert_gauge, tc.TensorNetwork._insert_gauge_tids, tc.Tensor.gate)
    tn, sizes, out = build(mk, geom)
    want = dense(tn, out)
    for (w1, w2) in (("A", "B"), ("B", "A"), (["B", "ALL"], "C")):
        t2 = tn.copy()
        bnds = tuple(t2[w1].bonds(t2[w2]) if not isinstance(w1, list) else t2["B"].bonds(t2["C"]))
        if len(bnds) != 1:
            mk.raises(f"insert_gauge(U, {w1}, {w2}) on a multibond is rejected",
                      lambda: t2.insert_gauge(mk.array("Ux", (2, 2), kind), w1, w2, Uinv=mk.array("Uy", (2, 2), kind)))
            continue
        (bond,) = bnds
        d = sizes[bond]
        if d > 2:
            continue
        U = mk.array(f"U{tag_w(w1)}{tag_w(w2)}", (d, d), kind)
        Uinv = _inv2(U)
        t2.insert_gauge(U, w1, w2, Uinv=Uinv)
        check_value(mk, f"insert_gauge(U, {w1}, {w2}, Uinv)", t2, out, want, sizes)
        # documented form: T1 @ U^-1 and U @ T2 on the shared bond
        t1 = t2[w1] if not isinstance(w1, list) else t2["B"]
        o1 = tn[w1] if not isinstance(w1, list) else tn["B"]
        exp1 = ref.sum_of_products([(o1.data, tuple("K" if i == bond else i for i in o1.inds)), (Uinv, ("K", bond))], t1.inds)
        mk.eq(f"insert_gauge(U, {w1}, {w2}): first tensor is T1 @ Uinv on the bond", t1.data, exp1)


def tag_w(w):
    return w if isinstance(w, str) else "".join(w)


# ====================================================================== D. hyper indices

HYPER = {
    # label h on 3 tensors, not an output
    "h3": ([("A", "ah"), ("B", "hb"), ("C", "hcy"), ("D", "yd")], dict(a=2, b=2, c=2, d=2, h=2, y=2), "abcd"),
    # label h on 3 tensors and an output
    "h3out": ([("A", "ah"), ("B", "hb"), ("C", "hc")], dict(a=2, b=2, c=2, h=2), "abch"),
    # label h on 4 tensors (mps / tree modes insert more than one COPY tensor), size 3
    "h4": ([("A", "ah"), ("B", "hb"), ("C", "hc"), ("D", "hd")], dict(a=2, b=1, c=2, d=2, h=3), "abcd"),
    # label on 5 tensors + output, and a second hyper label
    "h5out": ([("A", "ah"), ("B", "hbg"), ("C", "hg"), ("D", "hdg"), ("E", "h")], dict(a=2, b=2, d=2, h=2, g=2), "abdh"),
    # a label on two tensors that is also an output (hyper in the sense of get_hyperinds(output_inds))
    "bondout": ([("A", "ah"), ("B", "hby"), ("C", "yc")], dict(a=2, b=2, c=2, h=2, y=2), "abch"),
}
GEOMS.update({"H:" + k: v for k, v in HYPER.items()})


@obligation(PROP, params=[{"geom": g, "mode": m, "sorter": s,
                           "_tiers": _Q if (s is None or (g, m) == ("h5out", "tree")) and g != "h4" or (g, m, s) == ("h4", "mps", None) else _T}
                          for g in HYPER for m in ("dense", "mps", "tree") for s in (None, "centrality", "clustering")])
def hyperinds_resolve(mk, geom, mode, sorter):
    """hyperinds_resolve (every mode / sorter): same value over the same outputs, afterwards no
    label sits on more than two tensors, outputs appear once (twice if they were bonds)"""
    mk.encodes(tc.TensorNetwork.hyperinds_resolve, tc.COPY_tensor, tc.COPY_mps_tensors, tc.COPY_tree_tensors,
               tc.TensorNetwork.get_hyperinds)
    tn, sizes, out = build(mk, "H:" + geom)
    want = dense(tn, out)
    try:
        t2 = tn.hyperinds_resolve(mode=mode, sorter=sorter, output_inds=out)
    except ImportError as e:
        # sorter='centrality' imports cotengra.cotengra, which the installed cotengra does not have
        mk.note(f"skipped: hyperinds_resolve(sorter={sorter}) not available in this environment: {e}")
        mk.same("rejected cleanly (ImportError)", True, True)
        return
    tag = f"hyperinds_resolve({mode}, sorter={sorter}, output_inds)"
    check_value(mk, tag, t2, out, want, sizes)
    mk.same(f"{tag}: no label on more than two tensors", [ix for ix, tids in t2.ind_map.items() if len(tids) > 2], [])
    mk.same(f"{tag}: exponent kept", t2.exponent is tn.exponent or t2.exponent == tn.exponent, True)
    if set(tn.outer_inds()) == set(out):
        # regular outputs: the default output_inds is the same
        t3 = tn.hyperinds_resolve(mode=mode, sorter=sorter)
        check_value(mk, f"hyperinds_resolve({mode}, sorter={sorter})", t3, out, want, sizes)
        mk.same(f"hyperinds_resolve({mode}): result has no hyper index", t3.get_hyperinds(), ())
    t3 = tn.copy()
    r = t3.hyperinds_resolve_(mode=mode, sorter=sorter, output_inds=out)
    mk.same("hyperinds_resolve_ returns the network itself", r is t3, True)
    check_value(mk, tag + " in place", t3, out, want, sizes)
    # resolving twice changes nothing more
    t4 = t2.hyperinds_resolve(mode=mode, output_inds=out)
    check_value(mk, tag + " twice", t4, out, want, sizes)
    mk.same(tag + " twice: no further tensors", t4.num_tensors, t2.num_tensors)


@obligation(PROP, params=[{"geom": g} for g in ("dim1",)])
def squeeze_default(mk, geom):
    """TensorNetwork.squeeze() with its documented default (`exclude`: "by default the outer indices
    of this TN") on a network with a size-1 OUTER label: the outer labels are kept"""
    mk.encodes(tc.TensorNetwork.squeeze, tc.Tensor.squeeze)
    tn, sizes, out = build(mk, geom)
    want = dense(tn, out)
    t2 = tn.squeeze()
    check_value(mk, "squeeze()", t2, out, want, sizes)
    t2 = tn.squeeze(fuse=True)
    check_value(mk, "squeeze(fuse=True)", t2, out, want, sizes)


@obligation(PROP, params=[{"geom": g} for g in ("pair",)])
def make_single_bond_named(mk, geom):
    """tensor_make_single_bond(t1, t2, bond_ind=<name>) on tensors sharing exactly ONE label:
    documented return (left labels, "the bond index of the tensors", right labels)"""
    mk.encodes(tc.tensor_make_single_bond)
    tn, sizes, out = build(mk, geom)
    ta, tb = tn["A"], tn["B"]
    left, bnd, right = tc.tensor_make_single_bond(ta, tb, bond_ind="NEW")
    mk.same("tensor_make_single_bond(bond_ind='NEW'): returned bond is the label the tensors share",
            [ix for ix in ta.inds if ix in tb.inds], [bnd])
    mk.same("tensor_make_single_bond(bond_ind='NEW'): left / right labels", (set(left), set(right)),
            (set(ta.inds) - set(tb.inds), set(tb.inds) - set(ta.inds)))


# ====================================================================== E. structure-based passes

def _assume_big(a):
    """symbolic mode: the non-zero entries handed to the structure finders are bounded away from
    the tolerance (|x| >= 1/16 >> atol), so 'abs(x) > atol' is decided without forking on the
    magnitude (a sign fork remains for real symbols)"""
    c = sx.Ctx.cur
    if c is None:
        return
    import z3
    lo = z3.RealVal("1/16")
    for v in np.asarray(a).reshape(-1):
        if isinstance(v, P.Poly) and v.t and not v.isconst():
            s = P.sid(v)
            z = c.polyvar(s)
            if s in P.TAB.positive:
                c.add(z >= lo)
            else:
                c.add(z3.Or(z >= lo, z <= -lo))


def struct(mk, name, shape, keep, kind="pos", const=None):
    """array with symbols (or the constant `const`) where keep(idx), literal zeros elsewhere"""
    a = np.empty(shape, dtype=object if mk.sym else (complex if kind == "cplx" else float))
    for idx in np.ndindex(*shape):
        if keep(idx):
            a[idx] = (mk.scalar(f"{name}_{''.join(map(str, idx))}", kind) if const is None
                      else (P.Poly.const(const) if mk.sym else const))
        else:
            a[idx] = P.ZERO if mk.sym else 0.0
    if mk.sym and kind != "cplx":
        _assume_big(a)
    return a


_PAT = {
    "g": lambda idx: True,                                   # generic
    "d01": lambda idx: idx[0] == idx[1],                     # diagonal in axes (0, 1)
    "d02": lambda idx: idx[0] == idx[2],
    "copy": lambda idx: len(set(idx)) == 1,                  # COPY / generalized diagonal
    "x01": lambda idx: idx[0] == 1 - idx[1],                 # anti-diagonal in axes (0, 1) (size 2)
    "x02": lambda idx: idx[0] == 1 - idx[2],
    "c0=1": lambda idx: idx[0] == 1,                         # single non-zero column: axis 0, index 1
    "c1=0": lambda idx: idx[1] == 0,
    "c1=1": lambda idx: idx[1] == 1,
}

# name -> (list of (tag, inds, pattern[, const]), sizes, outputs)
SGEOMS = {
    "diagmid": ([("A", "ax", "g"), ("D", "xy", "d01"), ("B", "yb", "g")], dict(a=2, b=2, x=2, y=2), "ab"),
    "diag3": ([("A", "ax", "g"), ("D", "xyc", "d01"), ("B", "yb", "g")], dict(a=2, b=2, c=2, x=2, y=2), "abc"),
    "diag02": ([("A", "ax", "g"), ("D", "xcy", "d02"), ("B", "ybz", "g"), ("C", "zx", "g")], dict(a=2, b=2, c=2, x=2, y=2, z=2), "abc"),
    "copy3": ([("A", "ax", "g"), ("K", "xyz", "copy", 1), ("B", "yb", "g"), ("C", "zc", "g")], dict(a=2, b=2, c=2, x=2, y=2, z=2), "abc"),
    "copysym": ([("A", "ax", "g"), ("K", "xyz", "copy"), ("B", "yb", "g"), ("C", "zc", "g")], dict(a=2, b=2, c=2, x=3, y=3, z=3), "abc"),
    "diagout": ([("D", "ax", "d01"), ("B", "xby", "g"), ("C", "yc", "g")], dict(a=2, b=2, c=2, x=2, y=2), "abc"),
    "diagout2": ([("B", "ybx", "g"), ("D", "xa", "d01"), ("C", "yc", "g")], dict(a=2, b=2, c=2, x=2, y=2), "abc"),
    "diagboth": ([("D", "ab", "d01"), ("V", "", "g")], dict(a=2, b=2), "ab"),
    "antimid": ([("A", "ax", "g"), ("X", "xy", "x01"), ("B", "yb", "g")], dict(a=2, b=2, x=2, y=2), "ab"),
    "anti3": ([("A", "ax", "g"), ("X", "xcy", "x02"), ("B", "ybz", "g"), ("C", "zx", "g")], dict(a=2, b=2, c=2, x=2, y=2, z=2), "abc"),
    "antiout": ([("X", "ax", "x01"), ("B", "xby", "g"), ("C", "yc", "g")], dict(a=2, b=2, c=2, x=2, y=2), "abc"),
    "antiout2": ([("B", "ybx", "g"), ("X", "xa", "x01"), ("C", "yc", "g")], dict(a=2, b=2, c=2, x=2, y=2), "abc"),
    "antiboth": ([("X", "ab", "x01"), ("V", "", "g")], dict(a=2, b=2), "ab"),
    "antianti": ([("A", "ax", "g"), ("X", "xy", "x01"), ("Y", "yz", "x01"), ("B", "zb", "g")], dict(a=2, b=2, x=2, y=2, z=2), "ab"),
    "colmid": ([("A", "ax", "g"), ("V", "xy", "c1=1"), ("B", "yb", "g")], dict(a=2, b=2, x=2, y=2), "ab"),
    "colvec": ([("V", "x", "c0=1"), ("A", "xay", "g"), ("B", "yb", "g")], dict(a=2, b=2, x=2, y=2), "ab"),
    "colout": ([("V", "ax", "c0=1"), ("B", "xb", "g")], dict(a=2, b=2, x=2), "ab"),
    "colhyper": ([("V", "h", "c0=1"), ("A", "ha", "g"), ("B", "hb", "g"), ("C", "hc", "g")], dict(a=2, b=2, c=2, h=2), "abc"),
    "scalar": ([("S", "", "g"), ("A", "ax", "g"), ("B", "xb", "g")], dict(a=2, b=2, x=2), "ab"),
    # a 'circuit': |1> -- X -- COPY -- outputs
    "circuit": ([("V", "x", "c0=1"), ("X", "xy", "x01"), ("K", "yab", "copy", 1)], dict(a=2, b=2, x=2, y=2), "ab"),
    # diagonal tensor whose two labels are both bonds to the same tensor (loop through a diagonal)
    "diagloop": ([("D", "xy", "d01"), ("B", "xyb", "g")], dict(b=2, x=2, y=2), "b"),
    # generic networks (no structure): the finders must not fire
    "gchain": ([("A", "ax", "g"), ("B", "xby", "g"), ("C", "yc", "g")], dict(a=2, b=2, c=2, x=2, y=2), "abc"),
    "gtri": ([("A", "axz", "g"), ("B", "xby", "g"), ("C", "yzc", "g")], dict(a=2, b=2, c=2, x=2, y=2, z=2), "abc"),
    "gclosed": ([("A", "xz", "g"), ("B", "xy", "g"), ("C", "yz", "g")], dict(x=2, y=2, z=2), ""),
    "ghyper": ([("A", "ah", "g"), ("B", "hb", "g"), ("C", "hcy", "g"), ("D", "yd", "g")], dict(a=2, b=2, c=2, d=2, h=2, y=2), "abcd"),
    "ghyperout": ([("A", "ah", "g"), ("B", "hb", "g"), ("C", "hc", "g")], dict(a=2, b=2, c=2, h=2), "abch"),
    "gdangle": ([("A", "axs", "g"), ("B", "xbt", "g")], dict(a=2, b=2, x=2, s=2, t=3), "ab"),   # s, t summed (not outputs)
}


def sbuild(mk, geom, kind="pos", expo="sym"):
    spec, sizes, out = SGEOMS[geom]
    ts = []
    for item in spec:
        tag, inds, pat = item[:3]
        const = item[3] if len(item) > 3 else None
        data = struct(mk, tag, tuple(sizes[i] for i in inds), _PAT[pat], kind, const)
        ts.append(qtn.Tensor(data, tuple(inds), tags=[tag, "ALL"]))
    tn = qtn.TensorNetwork(ts)
    if expo == "sym":
        e = mk.scalar("e", "real")
        tn.exponent = e if mk.sym else float(e)
    return tn, dict(sizes), tuple(out)


def apply_pass(tn, p, out, atol=1e-12, default_out=False):
    """one rewrite, by letter (non in-place)"""
    kw = {} if default_out else {"output_inds": out}
    if p == "D":
        return tn.diagonal_reduce(atol=atol, **kw)
    if p == "A":
        return tn.antidiag_gauge(atol=atol, **kw)
    if p == "C":
        return tn.column_reduce(atol=atol, **kw)
    if p == "R":
        return tn.rank_simplify(**kw)
    if p == "S":
        return tn.split_simplify(atol=0.0)
    if p == "P":
        return tn.pair_simplify(cutoff=0.0, **kw)
    if p == "L":
        return tn.loop_simplify(cutoff=0.0, **kw)
    if p == "H":
        return tn.hyperinds_resolve(**kw)
    if p == "Q":
        return tn.squeeze(exclude=out)
    if p == "M":
        return tn.fuse_multibonds(exclude=out)
    if p == "E":
        return tn.equalize_norms(1.0)
    if p == "e":
        return tn.equalize_norms()
    if p.startswith("F:"):
        return tn.full_simplify(p[2:], atol=atol, **kw)
    raise ValueError(p)


def shape_summary(tn):
    return (tn.num_tensors, tn.num_indices, sum(t.size for t in tn))


_STRUCT_PASSES = {
    "D": ["diagmid", "diag3", "diag02", "copy3", "copysym", "diagout", "diagout2", "diagboth", "diagloop", "circuit", "gchain", "ghyperout"],
    "A": ["antimid", "anti3", "antiout", "antiout2", "antiboth", "antianti", "circuit", "gchain"],
    "C": ["colmid", "colvec", "colout", "colhyper", "circuit", "gchain", "ghyperout"],
}
_STRUCT_QUICK = {("D", "diagmid"), ("D", "copy3"), ("D", "diagout"), ("D", "diagout2"), ("D", "diagloop"), ("A", "antimid"),
                 ("A", "antiout2"), ("A", "antianti"), ("C", "colmid"), ("C", "colvec"), ("C", "colhyper"), ("C", "colout"),
                 ("D", "circuit"), ("A", "circuit"), ("C", "circuit")}


@obligation(PROP, params=[{"p": p, "geom": g, "_tiers": _Q if (p, g) in _STRUCT_QUICK else _T}
                          for p, gs in _STRUCT_PASSES.items() for g in gs], max_paths=300, wall_s=200, timeout_s=300)
def structure_pass(mk, p, geom):
    """diagonal_reduce / antidiag_gauge / column_reduce on networks holding exactly structured
    tensors (the finders of array_ops fire) and on generic ones (they must not): value over the
    same outputs, explicit and default output_inds, both tolerances, in place, applied twice"""
    mk.encodes(tc.TensorNetwork.diagonal_reduce, tc.TensorNetwork.antidiag_gauge, tc.TensorNetwork.column_reduce,
               array_ops.find_diag_axes, array_ops.find_antidiag_axes, array_ops.find_columns,
               array_ops._numba_find_diag_axes, array_ops._numba_find_antidiag_axes, array_ops._numba_find_columns,
               tc.Tensor.collapse_repeated, tc.TensorNetwork.flip, tc.TensorNetwork.isel, tc.TensorNetwork.reindex)
    tn, sizes, out = sbuild(mk, geom)
    want = dense(tn, out)
    name = {"D": "diagonal_reduce", "A": "antidiag_gauge", "C": "column_reduce"}[p]
    before = shape_summary(tn)
    regular = set(tn.outer_inds()) == set(out)
    for atol in (1e-12, 0.0):
        t2 = apply_pass(tn, p, out, atol=atol)
        tag = f"{name}(output_inds, atol={atol})"
        check_value(mk, tag, t2, out, want, sizes)
        mk.note(f"{geom}: {name} (tensors, indices, entries) {before} -> {shape_summary(t2)}")
        mk.same(f"{tag}: never more entries than before", shape_summary(t2)[2] <= before[2], True)
    if regular:
        t3 = apply_pass(tn, p, out, default_out=True)
        check_value(mk, f"{name}()", t3, out, want, sizes)
    # idempotent in value: a second application (fresh cache and shared cache)
    cache = set()
    t4 = getattr(tn, name)(output_inds=out, cache=cache)
    t5 = getattr(t4, name)(output_inds=out, cache=cache)
    check_value(mk, f"{name} twice (shared cache)", t5, out, want, sizes)
    t6 = tn.copy()
    r = getattr(t6, name + "_")(output_inds=out)
    mk.same(f"{name}_ returns the network itself", r is t6, True)
    check_value(mk, f"{name}_ in place", t6, out, want, sizes)


# ====================================================================== F. rank_simplify

_RANK_GEOMS = ["gchain", "gtri", "gclosed", "ghyper", "ghyperout", "gdangle", "scalar", "diagmid", "copy3", "colvec", "diagout"]


@obligation(PROP, params=[{"geom": g, "eqn": q, "_tiers": _Q if (q is False or g in ("gchain", "scalar", "gclosed")) and g not in ("diagmid", "colvec") else _T}
                          for g in _RANK_GEOMS for q in (False, True, 2.0)], rounds=2, wall_s=200, timeout_s=300)
def rank_simplify(mk, geom, eqn):
    """rank_simplify (explicit / default output_inds, equalize_norms False / True / value, shared
    cache, in place): value incl. the exponent, outputs kept, no tensor of larger rank than before"""
    mk.encodes(tc.TensorNetwork.rank_simplify, tc.Tensor.sum_reduce, tc.Tensor.collapse_repeated, tc.TensorNetwork.strip_exponent,
               tc.TensorNetwork.multiply, tc.tensor_contract)
    kind = "cplx" if eqn is False else "pos"
    tn, sizes, out = sbuild(mk, geom, kind=kind)
    want = dense(tn, out)
    maxrank = max(t.ndim for t in tn)
    regular = set(tn.outer_inds()) == set(out)
    variants = [("output_inds", dict(output_inds=out))]
    if regular:
        variants.append(("default", {}))
    for nm, kw in variants:
        tag = f"rank_simplify({nm}, equalize_norms={eqn})"
        try:
            t2 = tn.rank_simplify(equalize_norms=eqn, **kw)
        except P.Unsupported as e:
            mk.note(f"skipped: {tag}: {e}")
            continue
        check_value(mk, tag, t2, out, want, sizes)
        mk.same(f"{tag}: no tensor of larger rank than the largest before", max(t.ndim for t in t2) <= maxrank, True)
        mk.note(f"{geom}: {tag} {shape_summary(tn)} -> {shape_summary(t2)}")
        if eqn is not False and eqn is not True:
            # tensors produced by a contraction were rescaled to the requested norm
            pass
    t3 = tn.copy()
    try:
        r = t3.rank_simplify_(output_inds=out, equalize_norms=eqn, cache=set(), check_zero=True)
        mk.same("rank_simplify_ returns the network itself", r is t3, True)
        check_value(mk, f"rank_simplify_(equalize_norms={eqn}, check_zero=True) in place", t3, out, want, sizes)
        t4 = t3.rank_simplify(output_inds=out, equalize_norms=eqn)
        check_value(mk, f"rank_simplify twice (equalize_norms={eqn})", t4, out, want, sizes)
    except P.Unsupported as e:
        mk.note(f"skipped: rank_simplify_ in place: {e}")


# ====================================================================== G. full_simplify / compositions (LAPACK-free letters)

_FS_CASES = [(g, s) for g in ("circuit", "copy3", "diagmid", "antimid", "antianti", "colmid", "colvec", "colhyper", "diagout", "antiout2",
                              "diagloop", "gchain", "scalar", "ghyperout", "diag02", "anti3")
             for s in ("ADCR", "R", "AD", "DCR", "RCDA", "CAD")]
_FS_QUICK = {("circuit", "ADCR"), ("copy3", "ADCR"), ("antimid", "ADCR"), ("antianti", "AD"), ("colvec", "ADCR"), ("diagout", "ADCR"),
             ("antiout2", "ADCR"), ("gchain", "ADCR"), ("scalar", "R"), ("ghyperout", "ADCR"), ("diagloop", "DCR"), ("colhyper", "RCDA"),
             ("diagmid", "CAD"), ("anti3", "ADCR")}


@obligation(PROP, params=[{"geom": g, "seq": s, "_tiers": _Q if (g, s) in _FS_QUICK else _T} for g, s in _FS_CASES],
            rounds=2, max_paths=300, wall_s=250, timeout_s=330)
def full_simplify(mk, geom, seq):
    """full_simplify with sequences of the LAPACK-free passes (A, D, C, R), explicit / default
    outputs, equalize_norms False / True / value, in place: value, outputs, norms"""
    mk.encodes(tc.TensorNetwork.full_simplify, tc.TensorNetwork.rank_simplify, tc.TensorNetwork.diagonal_reduce,
               tc.TensorNetwork.antidiag_gauge, tc.TensorNetwork.column_reduce, tc.TensorNetwork.squeeze, tc.TensorNetwork.equalize_norms)
    tn, sizes, out = sbuild(mk, geom)
    want = dense(tn, out)
    regular = set(tn.outer_inds()) == set(out)
    for eqn in (False, True, 1.0):
        for nm, kw in ([("output_inds", dict(output_inds=out))] + ([("default", {})] if regular and eqn is False else [])):
            # rescaled entries have no determined magnitude relative to a positive atol: exact zero test there
            atol = 1e-12 if eqn is False else 0.0
            tag = f"full_simplify('{seq}', {nm}, equalize_norms={eqn}, atol={atol})"
            try:
                t2 = tn.full_simplify(seq, equalize_norms=eqn, atol=atol, **kw)
            except P.Unsupported as e:
                mk.note(f"skipped: {tag}: {e}")
                continue
            check_value(mk, tag, t2, out, want, sizes)
            mk.note(f"{geom}: {tag} {shape_summary(tn)} -> {shape_summary(t2)}")
            n2 = [norm2(t) for t in t2]
            if eqn is True:
                for k in range(1, len(n2)):
                    eq_clear(mk, f"{tag}: tensor {k} has the same squared norm as tensor 0", n2[k], n2[0])
            elif eqn is not False:
                for k in range(len(n2)):
                    eq_clear(mk, f"{tag}: tensor {k} squared norm == value**2", n2[k], eqn * eqn)
    t3 = tn.copy()
    r = t3.full_simplify_(seq, output_inds=out, atol=0.0)
    mk.same("full_simplify_ returns the network itself", r is t3, True)
    check_value(mk, f"full_simplify_('{seq}', atol=0.0) in place", t3, out, want, sizes)


_PAIR_LETTERS = "DACRHQE"
_PAIR_GEOMS = ["circuit", "copy3", "antimid", "colvec", "diagout", "ghyperout", "antiout2"]


@obligation(PROP, params=[{"geom": g, "p1": a, "p2": b,
                           "_tiers": _Q if (g, a + b) in {("circuit", "AD"), ("circuit", "DR"), ("copy3", "DH"), ("copy3", "HD"), ("antimid", "AD"),
                                                          ("colvec", "CR"), ("diagout", "DR"), ("diagout", "DH"), ("ghyperout", "HR"),
                                                          ("antiout2", "AD"), ("copy3", "DE"), ("diagout", "ED"), ("colvec", "RC")} else _T}
                          for g in _PAIR_GEOMS for a in _PAIR_LETTERS for b in _PAIR_LETTERS if a != b],
            rounds=2, max_paths=300, wall_s=250, timeout_s=330)
def pass_pairs(mk, geom, p1, p2):
    """every ordered pair of rewrites (diagonal_reduce, antidiag_gauge, column_reduce, rank_simplify,
    hyperinds_resolve, squeeze, equalize_norms(1.0)): the result of the first is fed to the second"""
    mk.encodes(tc.TensorNetwork.diagonal_reduce, tc.TensorNetwork.antidiag_gauge, tc.TensorNetwork.column_reduce,
               tc.TensorNetwork.rank_simplify, tc.TensorNetwork.hyperinds_resolve, tc.TensorNetwork.squeeze,
               tc.TensorNetwork.equalize_norms)
    tn, sizes, out = sbuild(mk, geom)
    want = dense(tn, out)
    # after a rescaling by a symbolic norm the magnitude of an entry relative to a positive atol is
    # undetermined: the exact zero test (atol=0.0) is used in compositions with equalize_norms
    atol = 0.0 if "E" in (p1, p2) else 1e-12
    try:
        t1 = apply_pass(tn, p1, out, atol=atol)
        check_value(mk, f"{p1}", t1, out, want, sizes)
        t2 = apply_pass(t1, p2, out, atol=atol)
        check_value(mk, f"{p1} ; {p2}", t2, out, want, sizes)
        t3 = apply_pass(t2, p1, out, atol=atol)
        check_value(mk, f"{p1} ; {p2} ; {p1}", t3, out, want, sizes)
    except P.Unsupported as e:
        mk.note(f"skipped: {p1} ; {p2}: {e}")
    mk.note(f"{geom}: {p1};{p2} {shape_summary(tn)} -> {shape_summary(t2) if 't2' in dir() else None}")
