"""C04 - gauging, canonization and simplification preserve the denoted tensor.

Every rewrite of the real library that is documented as changing only the internal
representation is executed on small networks whose entries are symbols (conj-pair complex
symbols wherever no LAPACK routine is reached, real symbols where a QR / SVD contract stub is
hit), with a symbolic stored exponent.  Goals:

 (i)   value: the dense tensor over the SAME outer labels, computed by the independent
       sum-of-products reference (qv/ref.py) times 10**exponent, is identical before and after
       (a polynomial identity for all values of the symbols; a Nullstellensatz certificate
       modulo the LAPACK contracts where a stub was reached);
 (ii)  outer labels and their sizes are unchanged, no new dangling label appears;
 (iii) promised forms: a tensor whose `left_inds` is set is an isometry from those labels,
       canonize_around leaves every tensor off the centre isometric towards it, bonds are never
       larger than before (no truncation requested => min-rank or unchanged), equalize_norms
       gives equal (or the requested) Frobenius norms, the exponent bookkeeping is exact.

Structured tensors (diagonal / anti-diagonal / single column / COPY, literal zeros with
symbolic non-zeros) make the structure detection kernels of array_ops fire (they run as plain
Python with the JIT off).
"""
import contextlib
import itertools
import warnings
from fractions import Fraction

import numpy as np

import quimb.tensor as qtn
from quimb.tensor import tensor_core as tc
from quimb.tensor import array_ops
from quimb.tensor import networking as tnw

from qv import poly as P
from qv import ref, stubs, sx
from qv.harness import obligation, Skip

PROP = "C04"
META = {
    "bounds": {
        "quick": {
            "networks": "<= 5 tensors, rank <= 4, dims {1,2,3}: chain of 3, star of 4, triangle, ring of 4, hyper index on 3-5 tensors "
                        "(also as an output), output label that is also a bond, multibond, size-1 inner and outer labels, bond 3",
            "entries": "conj-pair complex symbols for LAPACK-free rewrites, real symbols where a QR / SVD / eigh contract stub is reached, "
                       "strictly positive symbols (|x| >= 1/16) for the entries inspected by the structure finders; symbolic stored exponent",
            "structured tensors": "exactly diagonal / anti-diagonal / single-column / COPY tensors (literal zeros, symbolic or unit non-zeros)",
            "options": "one representative per option family (absorb, reduced, method, gauges, smudge, power, max_distance, min_distance, "
                       "exclude, gauge_links, equalize_norms False/True/value, output_inds explicit/default, atol 1e-12 / 0, in place / plain, cache)",
            "compositions": "13 ordered pairs of LAPACK-free passes, 7 sequences with a QR/SVD based step, full_simplify with 14 (network, seq) cells",
            "truncation": "none (cutoff=0.0, max_bond None or >= rank)",
        },
        "thorough": {
            "adds": "every listed (geometry, pair of tensors, option) cell; every ordered pair of {D,A,C,R,H,squeeze,equalize} on 7 structured "
                    "networks with the first pass re-applied; 96 full_simplify cells; signed real symbols in the finders (sign forks); complex "
                    "entries through QR / SVD stubs; three-step sequences; two sweeps of gauge_all_canonize",
        },
    },
    "outside": [
        "floating point rounding; truncating calls (cutoff > 0 or max_bond below the rank): approximate by design",
        "effectiveness of the passes (whether a simplification is found), optimality of a compression",
        "entries whose magnitude is within a few orders of atol (zero / non-zero classification of the finders is exact here: |x| >= 1/16 or x == 0)",
        "structure finders on complex symbolic entries and on the outputs of LAPACK stubs (abs() of an undetermined quantity); "
        "complex data runs in the numeric cross-run",
        "balance_bonds / tensor_balance_bond on generic tensors ((x/y)**(1/4) of sums of squares) and gauge_all_random (library RNG): "
        "numeric-only supplements; tensor_balance_bond is symbolic where the column norms are monomials",
        "split_simplify firing on rank-deficient tensors (rank detection by a real SVD): numeric-only supplement; with the full-rank "
        "contract stub split_simplify provably never fires and leaves the network alone",
        "rank_simplify / full_simplify when a scalar has to be spread over several tensors (multiply takes x**(1/n) of a polynomial): skipped with a note",
        "gauge_all_belief_propagation, compress_all(mode='virtual-tree') beyond two tensors, contract_compressed, loops longer than 4, "
        "hyperinds_resolve(sorter='centrality') (imports cotengra.cotengra, absent from the installed cotengra: ImportError)",
        "more than two sweeps of the iterative gaugings; convergence of gauge_all_simple",
        "non-mutation of the receiver by the plain spellings (property C03)",
    ],
    "assumptions": [
        "LAPACK qr / svd / eigh return factors meeting their contracts (stubs): QR with positive diagonal of R, strictly positive "
        "singular values (generic full-rank input)",
        "every norm / determinant divided by is non-zero (recorded per run)",
        "a (network, gauges) pair denotes the network with each listed gauge vector inserted on its label",
        "the non-zero entries handed to the structure finders are bounded away from atol (|x| >= 1/16); with atol=0.0 no assumption is needed",
    ],
    "timeout_s": {"quick": 300, "thorough": 600},
}

_Q = ("quick", "thorough")
_T = ("thorough",)

# ---------------------------------------------------------------------- geometries
# name -> (list of (tag, inds), sizes, output labels)
GEOMS = {
    # tree: chain of three tensors, every tensor with a dangling label
    "chain3": ([("A", "ax"), ("B", "xby"), ("C", "yc")], dict(a=2, b=2, c=2, x=2, y=2), "abc"),
    # tree: star with three leaves
    "star4": ([("A", "axyz"), ("B", "xb"), ("C", "yc"), ("D", "zd")], dict(a=2, b=2, c=2, d=2, x=2, y=2, z=2), "abcd"),
    # triangle loop
    "tri": ([("A", "axz"), ("B", "xby"), ("C", "yzc")], dict(a=2, b=2, c=2, x=2, y=2, z=2), "abc"),
    # ring of four, one dangling label per tensor
    "ring4": ([("A", "axw"), ("B", "xby"), ("C", "ycz"), ("D", "zdw")], dict(a=2, b=2, c=2, d=2, x=2, y=2, z=2, w=2), "abcd"),
    # hyper index h on three tensors
    "hyper3": ([("A", "ah"), ("B", "hb"), ("C", "hcy"), ("D", "yd")], dict(a=2, b=2, c=2, d=2, h=2, y=2), "abcd"),
    # hyper index that is also an output label
    "hyperout": ([("A", "ah"), ("B", "hb"), ("C", "hc")], dict(a=2, b=2, c=2, h=2), "abch"),
    # output label that is also a bond (on two tensors + output)
    "bondout": ([("A", "ah"), ("B", "hby"), ("C", "yc")], dict(a=2, b=2, c=2, h=2, y=2), "abch"),
    # multibond (x, y shared by the same pair) in a chain
    "multi": ([("A", "axy"), ("B", "xyby"[0:3] + "z"), ("C", "zc")], dict(a=2, b=2, c=2, x=2, y=2, z=2), "abc"),
    # size-1 dimensions: a size-1 bond, a size-1 outer label
    "dim1": ([("A", "axs"), ("B", "xsby"), ("C", "yc")], dict(a=1, b=2, c=2, x=2, s=1, y=2), "abc"),
    # bond dimension three / unequal dimensions
    "chain3d3": ([("A", "ax"), ("B", "xby"), ("C", "yc")], dict(a=2, b=2, c=3, x=3, y=2), "abc"),
    # two tensors
    "pair": ([("A", "ax"), ("B", "xb")], dict(a=2, b=2, x=2), "ab"),
    "pairwide": ([("A", "ax"), ("B", "xb")], dict(a=2, b=2, x=3), "ab"),
}
GEOMS["multi"] = ([("A", "axy"), ("B", "xybz"), ("C", "zc")], dict(a=2, b=2, c=2, x=2, y=2, z=2), "abc")
# triangle whose third tensor has no dangling label (loop_simplify replaces the loop by two tensors)
GEOMS["tri2"] = ([("A", "axz"), ("B", "xby"), ("C", "yz")], dict(a=2, b=2, x=2, y=2, z=2), "ab")


def build(mk, geom, kind="cplx", expo="sym", kinds=None):
    spec, sizes, out = GEOMS[geom]
    ts = []
    for k, (tag, inds) in enumerate(spec):
        kd = kinds[k] if kinds else kind
        data = mk.array(tag, tuple(sizes[i] for i in inds), kd)
        ts.append(qtn.Tensor(data, tuple(inds), tags=[tag, "ALL"]))
    tn = qtn.TensorNetwork(ts)
    if expo == "sym":
        e = mk.scalar("e", "real")
        tn.exponent = e if mk.sym else float(e)
    return tn, dict(sizes), tuple(out)


def conj(a):
    if isinstance(a, P.Poly):
        return a.conjugate()
    a = np.asarray(a)
    if a.dtype == object:
        out = np.empty(a.shape, dtype=object)
        for idx in np.ndindex(*a.shape):
            out[idx] = P.lift(a[idx]).conjugate()
        return out
    return np.conj(a)


def dense(tn, out):
    return ref.tn_dense(tn, tuple(out))


def check_value(mk, tag, tn2, out, want, sizes):
    """(ii) outer labels / sizes, (i) dense value over the same labels"""
    ok = all(o in tn2.ind_map for o in out)
    mk.same(f"{tag}: every outer label still present", ok, True)
    if not ok:
        return
    mk.same(f"{tag}: outer label sizes", tuple(tn2.ind_size(o) for o in out), tuple(sizes[o] for o in out))
    mk.same(f"{tag}: no new dangling label", set(tn2.outer_inds()) <= set(out), True)
    mk.eq(f"{tag}: dense value over the same outer labels", dense(tn2, out), want)


def iso_goal(mk, label, t, over):
    """sum over labels `over` of conj(t) t == identity on the remaining label(s)"""
    over = tuple(over)
    rest = tuple(i for i in t.inds if i not in over)
    ren = {i: i + "'" for i in rest}
    g = ref.sum_of_products([(t.data, t.inds), (conj(t.data), tuple(ren.get(i, i) for i in t.inds))],
                            rest + tuple(ren[i] for i in rest))
    n = int(np.prod([t.ind_size(i) for i in rest])) if rest else 1
    mk.eq(label, g.reshape(n, n), ref.eye(n, like=g))


def check_flags(mk, tag, tn2):
    """(iii) every tensor whose left_inds is set is an isometry from those labels"""
    for t in tn2:
        if t.left_inds is not None:
            li = tuple(t.left_inds)
            mk.same(f"{tag}: left_inds {li} of {sorted(t.tags)} are labels of the tensor", set(li) <= set(t.inds), True)
            if set(li) <= set(t.inds):
                iso_goal(mk, f"{tag}: tensor {sorted(t.tags)} flagged isometric over {li}", t, li)


def eq_clear(mk, label, lhs, rhs):
    """equality goal lhs == rhs on quantities of the form p / r**2 with r = sqrt(q) a norm taken by
    the code under test (defining relation r**2 = q): both sides are multiplied by r**2 for the
    NEWEST such r of each side (the last normalisation applied to that tensor) - an equivalent goal,
    r != 0 - so that the goal is a direct multiple of the defining relations"""
    if not mk.sym:
        return mk.eq(label, lhs, rhs)
    A, B = [], []
    for x, y in zip(P.flat_polys(lhs), P.flat_polys(rhs)):
        mono = {}
        for side in (x, y):
            neg = {}
            for m in side.t:
                for s_, e_ in m:
                    if e_ < 0 and P.TAB.kind[s_] == "def" and s_ in P.TAB.invertible:
                        neg[s_] = min(neg.get(s_, 0), e_)
            if neg:
                top = max(neg)
                mono[top] = max(mono.get(top, 0), -neg[top])
        if mono:
            mm = P.Poly({tuple(sorted(mono.items())): 1})
            x, y = x * mm, y * mm
        A.append(x)
        B.append(y)
    mk.eq(label, A, B)


def norm2(t):
    tot = 0
    for v, cv in zip(np.asarray(t.data).reshape(-1), conj(t.data).reshape(-1)):
        tot = tot + v * cv
    return tot


def tag_of(t):
    return next(g for g in t.tags if g != "ALL")


# ====================================================================== A. exponent / norms

@obligation(PROP, params=[{"geom": g, "_tiers": _Q if g in ("chain3", "tri", "hyper3", "dim1") else _T}
                          for g in ("chain3", "tri", "hyper3", "dim1", "ring4", "multi", "bondout")],
            rounds=2, wall_s=200, timeout_s=300)
def exponent_and_norms(mk, geom):
    """strip_exponent / distribute_exponent / equalize_norms: value kept, exponent bookkeeping,
    requested norms"""
    mk.encodes(tc.TensorNetwork.strip_exponent, tc.TensorNetwork.distribute_exponent, tc.TensorNetwork.equalize_norms,
               tc.TensorNetwork.multiply_each, tc.Tensor.norm)
    tn, sizes, out = build(mk, geom)
    want = dense(tn, out)
    e0 = tn.exponent
    tids = list(tn.tensor_map)

    # strip_exponent of one tensor (by tid and by tensor), default value and given value
    for how, value in (("tid", None), ("tensor", 2.0), ("tid", True)):
        t2 = tn.copy()
        tid = tids[1]
        t2.strip_exponent(tid if how == "tid" else t2.tensor_map[tid], value)
        tag = f"strip_exponent({how}, value={value})"
        check_value(mk, tag, t2, out, want, sizes)
        v = 1.0 if value in (None, True) else value
        mk.eq(f"{tag}: stripped tensor has squared norm value**2", norm2(t2.tensor_map[tid]), v * v)
        # the factor moved into the exponent is the old norm / value
        mk.eq(f"{tag}: 10**(new exponent - old) * value == old norm (squared)",
              (10 ** (t2.exponent - e0) * v) ** 2, norm2(tn.tensor_map[tid]))

    # distribute_exponent (a target that is a multiple of the number of tensors keeps 10**(./n) exact)
    for new in (0.0, float(tn.num_tensors)):
        t2 = tn.copy()
        t2.distribute_exponent(new)
        tag = f"distribute_exponent({new})"
        check_value(mk, tag, t2, out, want, sizes)
        mk.same(f"{tag}: exponent is the requested one", t2.exponent, new)

    # equalize_norms
    for value in (None, 1.0, 3.0):
        t2 = tn.equalize_norms(value=value)
        tag = f"equalize_norms(value={value})"
        check_value(mk, tag, t2, out, want, sizes)
        n2 = [norm2(t) for t in t2]
        if value is None:
            for k in range(1, len(n2)):
                mk.eq(f"{tag}: tensor {k} has the same squared norm as tensor 0", n2[k], n2[0])
            mk.same(f"{tag}: exponent redistributed (== 0.0)", t2.exponent, 0.0)
        else:
            for k in range(len(n2)):
                mk.eq(f"{tag}: tensor {k} squared norm == value**2", n2[k], value * value)
    t2 = tn.copy()
    r = t2.equalize_norms_(1.0)
    mk.same("equalize_norms_ returns the network itself", r is t2, True)
    check_value(mk, "equalize_norms_(1.0)", t2, out, want, sizes)
    # composition: equalize(value) then distribute back: exponent 0, same value
    t2.distribute_exponent()
    check_value(mk, "equalize_norms_(1.0) ; distribute_exponent()", t2, out, want, sizes)
    mk.same("equalize ; distribute: exponent == 0.0", t2.exponent, 0.0)


# ====================================================================== B. fuse / squeeze

def _gauges_for(mk, tn, inds, name="g"):
    return {ix: mk.array(f"{name}{ix}", (tn.ind_size(ix),), "pos") for ix in inds}


def dense_gauged(tn, out, gauges):
    """the tensor a (network, gauges) pair denotes: the gauge vector of every listed label is
    inserted on that label"""
    terms = ref.tn_terms(tn) + [(g, (ix,)) for ix, g in (gauges or {}).items()]
    val = ref.sum_of_products(terms, tuple(out))
    e = getattr(tn, "exponent", 0.0)
    if not (isinstance(e, float) and e == 0.0):
        val = val * (10 ** e)
    return val


@obligation(PROP, params=[{"geom": g, "_tiers": _Q if g in ("multi", "dim1", "tri") else _T}
                          for g in ("multi", "dim1", "tri", "hyper3", "chain3d3", "bondout")])
def fuse_and_squeeze(mk, geom):
    """fuse_multibonds / squeeze / tensor_make_single_bond / tensor_fuse_squeeze (with gauge dicts)"""
    mk.encodes(tc.TensorNetwork.fuse_multibonds, tc.TensorNetwork.squeeze, tc.Tensor.squeeze, tc.tensor_multifuse,
               tc.tensor_make_single_bond, tc.tensor_fuse_squeeze, tc.TensorNetwork.get_multibonds, tc.Tensor.fuse)
    tn, sizes, out = build(mk, geom)
    want = dense(tn, out)
    inner = [ix for ix in tn.ind_map if ix not in out]

    t2 = tn.fuse_multibonds()
    check_value(mk, "fuse_multibonds()", t2, out, want, sizes)
    mk.same("fuse_multibonds(): no pair of tensors shares two inner labels", t2.get_multibonds(), {})
    for mb, tids in tn.get_multibonds().items():
        kept = [ix for ix in mb if ix in t2.ind_map]
        mk.same(f"fuse_multibonds(): multibond {mb} became one label", len(kept), 1)
        if len(kept) == 1:
            mk.same(f"fuse_multibonds(): fused size of {mb}", t2.ind_size(kept[0]), int(np.prod([sizes[i] for i in mb])))
    t2 = tn.copy()
    r = t2.fuse_multibonds_()
    mk.same("fuse_multibonds_ returns the network itself", r is t2, True)
    check_value(mk, "fuse_multibonds_()", t2, out, want, sizes)

    # with a gauge dictionary: (tn, gauges) denotes the network with the gauges inserted
    for which in ("all", "first"):
        gl = inner if which == "all" else inner[:1]
        gauges = _gauges_for(mk, tn, gl, name=f"g{which}")
        wantg = dense_gauged(tn, out, gauges)
        t2 = tn.fuse_multibonds(gauges=gauges)
        mk.same(f"fuse_multibonds(gauges on {which} inner): gauge keys are labels of the result",
                set(gauges) <= set(t2.ind_map), True)
        if set(gauges) <= set(t2.ind_map):
            mk.same(f"fuse_multibonds(gauges on {which} inner): gauge sizes",
                    all(len(g) == t2.ind_size(ix) for ix, g in gauges.items()), True)
            mk.eq(f"fuse_multibonds(gauges on {which} inner): gauged value kept", dense_gauged(t2, out, gauges), wantg)

    # include / exclude
    mbs = list(tn.get_multibonds())
    if mbs:
        mb = mbs[0]
        t2 = tn.fuse_multibonds(exclude=set(out) | {mb[0]})
        check_value(mk, f"fuse_multibonds(exclude={{{mb[0]}}})", t2, out, want, sizes)
        mk.same("fuse_multibonds(exclude): excluded label untouched", mb[0] in t2.ind_map and t2.ind_size(mb[0]) == sizes[mb[0]], True)
        t2 = tn.fuse_multibonds(include=mb)
        check_value(mk, f"fuse_multibonds(include={mb})", t2, out, want, sizes)

    # squeeze with the default `exclude`: see squeeze_default (own obligation)
    if all(sizes[o] > 1 for o in out):
        t2 = tn.squeeze()
        check_value(mk, "squeeze()", t2, out, want, sizes)
        mk.same("squeeze(): no inner label of size 1 left",
                [ix for ix in t2.ind_map if ix not in out and t2.ind_size(ix) == 1], [])
    t2 = tn.squeeze(exclude=out)
    check_value(mk, "squeeze(exclude=outer)", t2, out, want, sizes)
    t2 = tn.squeeze(fuse=True, exclude=out)
    check_value(mk, "squeeze(fuse=True, exclude=outer)", t2, out, want, sizes)
    mk.same("squeeze(fuse=True): no multibond left", t2.get_multibonds(), {})
    ones = [ix for ix in inner if sizes[ix] == 1]
    if ones:
        t2 = tn.squeeze(include=ones)
        check_value(mk, f"squeeze(include={ones})", t2, out, want, sizes)
        mk.same("squeeze(include): listed size-1 labels removed", [ix for ix in ones if ix in t2.ind_map], [])
        t2 = tn.squeeze(exclude=set(out) | set(ones))
        check_value(mk, f"squeeze(exclude=outer+{ones})", t2, out, want, sizes)
        mk.same("squeeze(exclude): excluded labels kept", all(ix in t2.ind_map for ix in ones), True)
    t2 = tn.copy()
    t2.squeeze_(exclude=out)
    check_value(mk, "squeeze_(exclude=outer)", t2, out, want, sizes)

    # tensor level helpers on the first two tensors
    for bond_ind in (None, "NEW", {"y", "zz"}):
        t2 = tn.copy()
        ta, tb = t2["A"], t2["B"]
        shared = [ix for ix in ta.inds if ix in tb.inds]
        if bond_ind == "NEW" and len(shared) == 1:
            continue        # -> make_single_bond_named (own obligation)
        left, bnd, right = tc.tensor_make_single_bond(ta, tb, bond_ind=bond_ind)
        tag = f"tensor_make_single_bond(A, B, bond_ind={bond_ind})"
        check_value(mk, tag, t2, out, want, sizes)
        mk.same(f"{tag}: one shared label left", [ix for ix in ta.inds if ix in tb.inds], [bnd] if shared else [])
        mk.same(f"{tag}: left / right labels", (set(left), set(right)),
                (set(ta.inds) - {bnd}, set(tb.inds) - {bnd}))
        if shared:
            mk.same(f"{tag}: bond size is the product", ta.ind_size(bnd), int(np.prod([sizes[i] for i in shared])))
    for squeeze in (True, False):
        t2 = tn.copy()
        ta, tb = t2["A"], t2["B"]
        shared = [ix for ix in ta.inds if ix in tb.inds]
        gauges = _gauges_for(mk, tn, shared, name=f"q{int(squeeze)}")
        wantg = dense_gauged(tn, out, gauges)
        tc.tensor_fuse_squeeze(ta, tb, squeeze=squeeze, gauges=gauges)
        tag = f"tensor_fuse_squeeze(A, B, squeeze={squeeze}, gauges)"
        mk.same(f"{tag}: gauge keys are labels of the result", set(gauges) <= set(t2.ind_map), True)
        if set(gauges) <= set(t2.ind_map):
            mk.eq(f"{tag}: gauged value kept", dense_gauged(t2, out, gauges), wantg)


# ====================================================================== C. simple-update gauges

@obligation(PROP, params=[{"geom": g, "_tiers": _Q if g in ("chain3", "tri", "multi") else _T}
                          for g in ("chain3", "tri", "multi", "ring4", "dim1", "star4")], wall_s=200, timeout_s=300)
def gauge_insert_remove(mk, geom):
    """gauge_simple_insert / gauge_simple_remove / gauge_simple_temp / gauge_insert: the inserted
    network is the gauged reference, insert ; remove is the identity"""
    mk.encodes(tc.TensorNetwork.gauge_simple_insert, tc.TensorNetwork.gauge_simple_remove, tc.TensorNetwork.gauge_simple_temp,
               tc.TensorNetwork.gauge_insert, tc._get_gauge_conditioner, tc.Tensor.multiply_index_diagonal)
    tn, sizes, out = build(mk, geom)
    want = dense(tn, out)
    inner = [ix for ix in tn.ind_map if ix not in out]
    # gauges on every inner label, one outer label and one label that is not in the network
    labels = inner + [out[0]]
    gauges = _gauges_for(mk, tn, labels)
    gauges["notthere"] = mk.array("gnot", (2,), "pos")
    wantg = dense_gauged(tn, out, {k: v for k, v in gauges.items() if k in tn.ind_map})

    t2 = tn.copy()
    g2 = dict(gauges)
    outer, inn = t2.gauge_simple_insert(g2)
    mk.same("gauge_simple_insert: store untouched (remove=False)", set(g2), set(gauges))
    mk.eq("gauge_simple_insert: network == reference with the gauges inserted", dense(t2, out), wantg)
    mk.same("gauge_simple_insert: records", (len(outer), len(inn)), (1, len(inner)))
    t2.gauge_simple_remove(outer=outer, inner=inn)
    check_value(mk, "gauge_simple_insert ; gauge_simple_remove", t2, out, want, sizes)

    t2 = tn.copy()
    g2 = dict(gauges)
    outer, inn = t2.gauge_simple_insert(g2, remove=True)
    mk.same("gauge_simple_insert(remove=True): inserted gauges popped from the store", set(g2), {"notthere"})
    mk.eq("gauge_simple_insert(remove=True): network == gauged reference", dense(t2, out), wantg)
    # remove only the outer ones: inner gauges stay
    t2.gauge_simple_remove(outer=outer)
    mk.eq("gauge_simple_remove(outer only): inner gauges stay",
          dense(t2, out), dense_gauged(tn, out, {k: gauges[k] for k in inner}))
    t2.gauge_simple_remove(inner=inn)
    check_value(mk, "gauge_simple_remove(outer) ; gauge_simple_remove(inner)", t2, out, want, sizes)

    # return_gauges='inverse' gives the inverses of what was applied; None returns nothing
    t2 = tn.copy()
    outer, inn = t2.gauge_simple_insert(dict(gauges), return_gauges="inverse")
    for t, ix, gi in outer:
        t.multiply_index_diagonal_(ix, gi)
    for (tl, tr), ix, gi in inn:
        tl.multiply_index_diagonal_(ix, gi)
        tr.multiply_index_diagonal_(ix, gi)
    check_value(mk, "gauge_simple_insert(return_gauges='inverse') ; multiply by the returned inverses", t2, out, want, sizes)
    t2 = tn.copy()
    mk.same("gauge_simple_insert(return_gauges=None) returns None", t2.gauge_simple_insert(dict(gauges), return_gauges=None), None)
    mk.eq("gauge_simple_insert(return_gauges=None): network == gauged reference", dense(t2, out), wantg)
    t2 = tn.copy()
    mk.same("gauge_insert(mapping) returns None by default", t2.gauge_insert(dict(gauges)), None)
    mk.eq("gauge_insert(mapping): network == gauged reference", dense(t2, out), wantg)

    # smudge / power: insert ; remove is still the identity
    for kw in (dict(smudge=1e-6), dict(power=0.5), dict(smudge=1e-6, power=2.0)):
        t2 = tn.copy()
        try:
            outer, inn = t2.gauge_simple_insert(dict(gauges), **kw)
            t2.gauge_simple_remove(outer=outer, inner=inn)
        except P.Unsupported as e:
            mk.note(f"skipped: gauge_simple_insert({kw}): {e}")
            continue
        check_value(mk, f"gauge_simple_insert({kw}) ; gauge_simple_remove", t2, out, want, sizes)

    # context manager
    for kw in (dict(smudge=0.0), dict(), dict(smudge=0.0, ungauge_inner=False), dict(smudge=0.0, ungauge_outer=False)):
        t2 = tn.copy()
        try:
            with t2.gauge_simple_temp(dict(gauges), **kw) as (o_, i_):
                if kw.get("smudge", None) == 0.0:
                    mk.eq(f"gauge_simple_temp({kw}): inside == gauged reference", dense(t2, out), wantg)
        except P.Unsupported as e:
            mk.note(f"skipped: gauge_simple_temp({kw}): {e}")
            continue
        if kw.get("ungauge_inner", True) and kw.get("ungauge_outer", True):
            check_value(mk, f"gauge_simple_temp({kw}): after the block", t2, out, want, sizes)
        elif not kw.get("ungauge_inner", True):
            mk.eq(f"gauge_simple_temp({kw}): inner gauges stay after the block",
                  dense(t2, out), dense_gauged(tn, out, {k: gauges[k] for k in inner}))
        else:
            mk.eq(f"gauge_simple_temp({kw}): outer gauges stay after the block",
                  dense(t2, out), dense_gauged(tn, out, {out[0]: gauges[out[0]]}))
    # an exception inside the block still removes the gauges
    t2 = tn.copy()
    try:
        with t2.gauge_simple_temp(dict(gauges), smudge=0.0):
            raise KeyError("boom")
    except KeyError:
        pass
    check_value(mk, "gauge_simple_temp: exception inside the block", t2, out, want, sizes)


def _inv2(U):
    """exact inverse of a 2x2 / 3x3 matrix by the adjugate (division by the determinant)"""
    n = U.shape[0]
    if n == 1:
        return np.array([[1 / U[0, 0]]], dtype=U.dtype)
    if n == 2:
        det = U[0, 0] * U[1, 1] - U[0, 1] * U[1, 0]
        adj = np.empty((2, 2), dtype=U.dtype)
        adj[0, 0], adj[0, 1], adj[1, 0], adj[1, 1] = U[1, 1], -U[0, 1], -U[1, 0], U[0, 0]
        return adj / det
    raise Skip("inverse only for n <= 2")


@obligation(PROP, params=[{"geom": g, "kind": k, "_tiers": _Q if (g, k) in (("chain3", "cplx"), ("tri", "real")) else _T}
                          for g in ("chain3", "tri", "ring4", "dim1") for k in ("cplx", "real")],
            rounds=2, wall_s=200, timeout_s=300)
def insert_gauge(mk, geom, kind):
    """insert_gauge(U, where1, where2, Uinv): T1 Uinv, U T2 - the value is unchanged for every
    invertible U (Uinv = adj(U)/det(U): a rational identity)"""
    mk.encodes(tc.TensorNetwork.insert_gauge, tc.TensorNetwork._insert_gauge_tids, tc.Tensor.gate)
    tn, sizes, out = build(mk, geom)
    want = dense(tn, out)
    for (w1, w2) in (("A", "B"), ("B", "A"), (["B", "ALL"], "C")):
        t2 = tn.copy()
        bnds = tuple(t2[w1].bonds(t2[w2]) if not isinstance(w1, list) else t2["B"].bonds(t2["C"]))
        if len(bnds) != 1:
            mk.raises(f"insert_gauge(U, {w1}, {w2}) on a multibond is rejected",
                      lambda: t2.insert_gauge(mk.array("Ux", (2, 2), kind), w1, w2, Uinv=mk.array("Uy", (2, 2), kind)))
            continue
        (bond,) = bnds
        d = sizes[bond]
        if d > 2:
            continue
        U = mk.array(f"U{tag_w(w1)}{tag_w(w2)}", (d, d), kind)
        Uinv = _inv2(U)
        t2.insert_gauge(U, w1, w2, Uinv=Uinv)
        check_value(mk, f"insert_gauge(U, {w1}, {w2}, Uinv)", t2, out, want, sizes)
        # documented form: T1 @ U^-1 and U @ T2 on the shared bond
        t1 = t2[w1] if not isinstance(w1, list) else t2["B"]
        o1 = tn[w1] if not isinstance(w1, list) else tn["B"]
        exp1 = ref.sum_of_products([(o1.data, tuple("K" if i == bond else i for i in o1.inds)), (Uinv, ("K", bond))], t1.inds)
        mk.eq(f"insert_gauge(U, {w1}, {w2}): first tensor is T1 @ Uinv on the bond", t1.data, exp1)


def tag_w(w):
    return w if isinstance(w, str) else "".join(w)


# ====================================================================== D. hyper indices

HYPER = {
    # label h on 3 tensors, not an output
    "h3": ([("A", "ah"), ("B", "hb"), ("C", "hcy"), ("D", "yd")], dict(a=2, b=2, c=2, d=2, h=2, y=2), "abcd"),
    # label h on 3 tensors and an output
    "h3out": ([("A", "ah"), ("B", "hb"), ("C", "hc")], dict(a=2, b=2, c=2, h=2), "abch"),
    # label h on 4 tensors (mps / tree modes insert more than one COPY tensor), size 3
    "h4": ([("A", "ah"), ("B", "hb"), ("C", "hc"), ("D", "hd")], dict(a=2, b=1, c=2, d=2, h=3), "abcd"),
    # label on 5 tensors + output, and a second hyper label
    "h5out": ([("A", "ah"), ("B", "hbg"), ("C", "hg"), ("D", "hdg"), ("E", "h")], dict(a=2, b=2, d=2, h=2, g=2), "abdh"),
    # a label on two tensors that is also an output (hyper in the sense of get_hyperinds(output_inds))
    "bondout": ([("A", "ah"), ("B", "hby"), ("C", "yc")], dict(a=2, b=2, c=2, h=2, y=2), "abch"),
}
GEOMS.update({"H:" + k: v for k, v in HYPER.items()})


@obligation(PROP, params=[{"geom": g, "mode": m, "sorter": s,
                           "_tiers": _Q if (s is None and g not in ("h4", "h5out")) or (g, m, s) in {("h4", "mps", None), ("h5out", "dense", None), ("h3", "tree", "clustering")} else _T}
                          for g in HYPER for m in ("dense", "mps", "tree") for s in (None, "centrality", "clustering")])
def hyperinds_resolve(mk, geom, mode, sorter):
    """hyperinds_resolve (every mode / sorter): same value over the same outputs, afterwards no
    label sits on more than two tensors, outputs appear once (twice if they were bonds)"""
    mk.encodes(tc.TensorNetwork.hyperinds_resolve, tc.COPY_tensor, tc.COPY_mps_tensors, tc.COPY_tree_tensors,
               tc.TensorNetwork.get_hyperinds)
    tn, sizes, out = build(mk, "H:" + geom)
    want = dense(tn, out)
    try:
        t2 = tn.hyperinds_resolve(mode=mode, sorter=sorter, output_inds=out)
    except ImportError as e:
        # sorter='centrality' imports cotengra.cotengra, which the installed cotengra does not have
        mk.note(f"skipped: hyperinds_resolve(sorter={sorter}) not available in this environment: {e}")
        mk.same("rejected cleanly (ImportError)", True, True)
        return
    tag = f"hyperinds_resolve({mode}, sorter={sorter}, output_inds)"
    check_value(mk, tag, t2, out, want, sizes)
    mk.same(f"{tag}: no label on more than two tensors", [ix for ix, tids in t2.ind_map.items() if len(tids) > 2], [])
    mk.same(f"{tag}: exponent kept", t2.exponent is tn.exponent or t2.exponent == tn.exponent, True)
    if set(tn.outer_inds()) == set(out):
        # regular outputs: the default output_inds is the same
        t3 = tn.hyperinds_resolve(mode=mode, sorter=sorter)
        check_value(mk, f"hyperinds_resolve({mode}, sorter={sorter})", t3, out, want, sizes)
        mk.same(f"hyperinds_resolve({mode}): result has no hyper index", t3.get_hyperinds(), ())
    t3 = tn.copy()
    r = t3.hyperinds_resolve_(mode=mode, sorter=sorter, output_inds=out)
    mk.same("hyperinds_resolve_ returns the network itself", r is t3, True)
    check_value(mk, tag + " in place", t3, out, want, sizes)
    # resolving twice changes nothing more
    t4 = t2.hyperinds_resolve(mode=mode, output_inds=out)
    check_value(mk, tag + " twice", t4, out, want, sizes)
    mk.same(tag + " twice: no further tensors", t4.num_tensors, t2.num_tensors)


@obligation(PROP, params=[{"geom": g} for g in ("dim1",)])
def squeeze_default(mk, geom):
    """TensorNetwork.squeeze() with its documented default (`exclude`: "by default the outer indices
    of this TN") on a network with a size-1 OUTER label: the outer labels are kept"""
    mk.encodes(tc.TensorNetwork.squeeze, tc.Tensor.squeeze)
    tn, sizes, out = build(mk, geom)
    want = dense(tn, out)
    t2 = tn.squeeze()
    check_value(mk, "squeeze()", t2, out, want, sizes)
    t2 = tn.squeeze(fuse=True)
    check_value(mk, "squeeze(fuse=True)", t2, out, want, sizes)


@obligation(PROP, params=[{"geom": g} for g in ("pair",)])
def make_single_bond_named(mk, geom):
    """tensor_make_single_bond(t1, t2, bond_ind=<name>) on tensors sharing exactly ONE label:
    documented return (left labels, "the bond index of the tensors", right labels)"""
    mk.encodes(tc.tensor_make_single_bond)
    tn, sizes, out = build(mk, geom)
    ta, tb = tn["A"], tn["B"]
    left, bnd, right = tc.tensor_make_single_bond(ta, tb, bond_ind="NEW")
    mk.same("tensor_make_single_bond(bond_ind='NEW'): returned bond is the label the tensors share",
            [ix for ix in ta.inds if ix in tb.inds], [bnd])
    mk.same("tensor_make_single_bond(bond_ind='NEW'): left / right labels", (set(left), set(right)),
            (set(ta.inds) - set(tb.inds), set(tb.inds) - set(ta.inds)))


# ====================================================================== E. structure-based passes

def _assume_big(a):
    """symbolic mode: the non-zero entries handed to the structure finders are bounded away from
    the tolerance (|x| >= 1/16 >> atol), so 'abs(x) > atol' is decided without forking on the
    magnitude (a sign fork remains for real symbols)"""
    c = sx.Ctx.cur
    if c is None:
        return
    import z3
    lo = z3.RealVal("1/16")
    for v in np.asarray(a).reshape(-1):
        if isinstance(v, P.Poly) and v.t and not v.isconst():
            s = P.sid(v)
            z = c.polyvar(s)
            if s in P.TAB.positive:
                c.add(z >= lo)
            else:
                c.add(z3.Or(z >= lo, z <= -lo))


def struct(mk, name, shape, keep, kind="pos", const=None):
    """array with symbols (or the constant `const`) where keep(idx), literal zeros elsewhere"""
    a = np.empty(shape, dtype=object if mk.sym else (complex if kind == "cplx" else float))
    for idx in np.ndindex(*shape):
        if keep(idx):
            a[idx] = (mk.scalar(f"{name}_{''.join(map(str, idx))}", kind) if const is None
                      else (P.Poly.const(const) if mk.sym else const))
        else:
            a[idx] = P.ZERO if mk.sym else 0.0
    if mk.sym and kind != "cplx":
        _assume_big(a)
    return a


_PAT = {
    "g": lambda idx: True,                                   # generic
    "d01": lambda idx: idx[0] == idx[1],                     # diagonal in axes (0, 1)
    "d02": lambda idx: idx[0] == idx[2],
    "copy": lambda idx: len(set(idx)) == 1,                  # COPY / generalized diagonal
    "x01": lambda idx: idx[0] == 1 - idx[1],                 # anti-diagonal in axes (0, 1) (size 2)
    "x02": lambda idx: idx[0] == 1 - idx[2],
    "c0=1": lambda idx: idx[0] == 1,                         # single non-zero column: axis 0, index 1
    "c1=0": lambda idx: idx[1] == 0,
    "c1=1": lambda idx: idx[1] == 1,
}

# name -> (list of (tag, inds, pattern[, const]), sizes, outputs)
SGEOMS = {
    "diagmid": ([("A", "ax", "g"), ("D", "xy", "d01"), ("B", "yb", "g")], dict(a=2, b=2, x=2, y=2), "ab"),
    "diag3": ([("A", "ax", "g"), ("D", "xyc", "d01"), ("B", "yb", "g")], dict(a=2, b=2, c=2, x=2, y=2), "abc"),
    "diag02": ([("A", "ax", "g"), ("D", "xcy", "d02"), ("B", "ybz", "g"), ("C", "zx", "g")], dict(a=2, b=2, c=2, x=2, y=2, z=2), "abc"),
    "copy3": ([("A", "ax", "g"), ("K", "xyz", "copy", 1), ("B", "yb", "g"), ("C", "zc", "g")], dict(a=2, b=2, c=2, x=2, y=2, z=2), "abc"),
    "copysym": ([("A", "ax", "g"), ("K", "xyz", "copy"), ("B", "yb", "g"), ("C", "zc", "g")], dict(a=2, b=2, c=2, x=3, y=3, z=3), "abc"),
    "diagout": ([("D", "ax", "d01"), ("B", "xby", "g"), ("C", "yc", "g")], dict(a=2, b=2, c=2, x=2, y=2), "abc"),
    "diagout2": ([("B", "ybx", "g"), ("D", "xa", "d01"), ("C", "yc", "g")], dict(a=2, b=2, c=2, x=2, y=2), "abc"),
    "diagboth": ([("D", "ab", "d01"), ("V", "", "g")], dict(a=2, b=2), "ab"),
    "antimid": ([("A", "ax", "g"), ("X", "xy", "x01"), ("B", "yb", "g")], dict(a=2, b=2, x=2, y=2), "ab"),
    "anti3": ([("A", "ax", "g"), ("X", "xcy", "x02"), ("B", "ybz", "g"), ("C", "zx", "g")], dict(a=2, b=2, c=2, x=2, y=2, z=2), "abc"),
    "antiout": ([("X", "ax", "x01"), ("B", "xby", "g"), ("C", "yc", "g")], dict(a=2, b=2, c=2, x=2, y=2), "abc"),
    "antiout2": ([("B", "ybx", "g"), ("X", "xa", "x01"), ("C", "yc", "g")], dict(a=2, b=2, c=2, x=2, y=2), "abc"),
    "antiboth": ([("X", "ab", "x01"), ("V", "", "g")], dict(a=2, b=2), "ab"),
    "antianti": ([("A", "ax", "g"), ("X", "xy", "x01"), ("Y", "yz", "x01"), ("B", "zb", "g")], dict(a=2, b=2, x=2, y=2, z=2), "ab"),
    "colmid": ([("A", "ax", "g"), ("V", "xy", "c1=1"), ("B", "yb", "g")], dict(a=2, b=2, x=2, y=2), "ab"),
    "colvec": ([("V", "x", "c0=1"), ("A", "xay", "g"), ("B", "yb", "g")], dict(a=2, b=2, x=2, y=2), "ab"),
    "colout": ([("V", "ax", "c0=1"), ("B", "xb", "g")], dict(a=2, b=2, x=2), "ab"),
    "colhyper": ([("V", "h", "c0=1"), ("A", "ha", "g"), ("B", "hb", "g"), ("C", "hc", "g")], dict(a=2, b=2, c=2, h=2), "abc"),
    "scalar": ([("S", "", "g"), ("A", "ax", "g"), ("B", "xb", "g")], dict(a=2, b=2, x=2), "ab"),
    # a 'circuit': |1> -- X -- COPY -- outputs
    "circuit": ([("V", "x", "c0=1"), ("X", "xy", "x01"), ("K", "yab", "copy", 1)], dict(a=2, b=2, x=2, y=2), "ab"),
    # diagonal tensor whose two labels are both bonds to the same tensor (loop through a diagonal)
    "diagloop": ([("D", "xy", "d01"), ("B", "xyb", "g")], dict(b=2, x=2, y=2), "b"),
    # generic networks (no structure): the finders must not fire
    "gchain": ([("A", "ax", "g"), ("B", "xby", "g"), ("C", "yc", "g")], dict(a=2, b=2, c=2, x=2, y=2), "abc"),
    "gtri": ([("A", "axz", "g"), ("B", "xby", "g"), ("C", "yzc", "g")], dict(a=2, b=2, c=2, x=2, y=2, z=2), "abc"),
    "gclosed": ([("A", "xz", "g"), ("B", "xy", "g"), ("C", "yz", "g")], dict(x=2, y=2, z=2), ""),
    "ghyper": ([("A", "ah", "g"), ("B", "hb", "g"), ("C", "hcy", "g"), ("D", "yd", "g")], dict(a=2, b=2, c=2, d=2, h=2, y=2), "abcd"),
    "ghyperout": ([("A", "ah", "g"), ("B", "hb", "g"), ("C", "hc", "g")], dict(a=2, b=2, c=2, h=2), "abch"),
    "gdangle": ([("A", "axs", "g"), ("B", "xbt", "g")], dict(a=2, b=2, x=2, s=2, t=3), "ab"),   # s, t summed (not outputs)
}


def sbuild(mk, geom, kind="pos", expo="sym"):
    spec, sizes, out = SGEOMS[geom]
    ts = []
    for item in spec:
        tag, inds, pat = item[:3]
        const = item[3] if len(item) > 3 else None
        data = struct(mk, tag, tuple(sizes[i] for i in inds), _PAT[pat], kind, const)
        ts.append(qtn.Tensor(data, tuple(inds), tags=[tag, "ALL"]))
    tn = qtn.TensorNetwork(ts)
    if expo == "sym":
        e = mk.scalar("e", "real")
        tn.exponent = e if mk.sym else float(e)
    return tn, dict(sizes), tuple(out)


def apply_pass(tn, p, out, atol=1e-12, default_out=False):
    """one rewrite, by letter (non in-place)"""
    kw = {} if default_out else {"output_inds": out}
    if p == "D":
        return tn.diagonal_reduce(atol=atol, **kw)
    if p == "A":
        return tn.antidiag_gauge(atol=atol, **kw)
    if p == "C":
        return tn.column_reduce(atol=atol, **kw)
    if p == "R":
        return tn.rank_simplify(**kw)
    if p == "S":
        return tn.split_simplify(atol=0.0)
    if p == "P":
        return tn.pair_simplify(cutoff=0.0, **kw)
    if p == "L":
        return tn.loop_simplify(cutoff=0.0, **kw)
    if p == "H":
        return tn.hyperinds_resolve(**kw)
    if p == "Q":
        return tn.squeeze(exclude=out)
    if p == "M":
        return tn.fuse_multibonds(exclude=out)
    if p == "E":
        return tn.equalize_norms(1.0)
    if p == "e":
        return tn.equalize_norms()
    if p.startswith("F:"):
        return tn.full_simplify(p[2:], atol=atol, **kw)
    raise ValueError(p)


def shape_summary(tn):
    return (tn.num_tensors, tn.num_indices, sum(t.size for t in tn))


_STRUCT_PASSES = {
    "D": ["diagmid", "diag3", "diag02", "copy3", "copysym", "diagout", "diagout2", "diagboth", "diagloop", "circuit", "gchain", "ghyperout"],
    "A": ["antimid", "anti3", "antiout", "antiout2", "antiboth", "antianti", "circuit", "gchain"],
    "C": ["colmid", "colvec", "colout", "colhyper", "circuit", "gchain", "ghyperout"],
}
_STRUCT_QUICK = {("D", "diagmid"), ("D", "copy3"), ("D", "diagout"), ("D", "diagout2"), ("D", "diagloop"), ("A", "antimid"),
                 ("A", "antiout2"), ("A", "antianti"), ("C", "colmid"), ("C", "colvec"), ("C", "colhyper"), ("C", "colout"),
                 ("D", "circuit"), ("A", "circuit"), ("C", "circuit")}


@obligation(PROP, params=[{"p": p, "geom": g, "kind": "pos", "_tiers": _Q if (p, g) in _STRUCT_QUICK else _T}
                          for p, gs in _STRUCT_PASSES.items() for g in gs]
            + [{"p": p, "geom": g, "kind": "real", "_tiers": _T} for p, g in (("D", "diagmid"), ("A", "antimid"), ("D", "diagloop"), ("C", "colout"))],
            max_paths=600, wall_s=200, timeout_s=300)
def structure_pass(mk, p, geom, kind):
    """diagonal_reduce / antidiag_gauge / column_reduce on networks holding exactly structured
    tensors (the finders of array_ops fire) and on generic ones (they must not): value over the
    same outputs, explicit and default output_inds, both tolerances, in place, applied twice"""
    mk.encodes(tc.TensorNetwork.diagonal_reduce, tc.TensorNetwork.antidiag_gauge, tc.TensorNetwork.column_reduce,
               array_ops.find_diag_axes, array_ops.find_antidiag_axes, array_ops.find_columns,
               array_ops._numba_find_diag_axes, array_ops._numba_find_antidiag_axes, array_ops._numba_find_columns,
               tc.Tensor.collapse_repeated, tc.TensorNetwork.flip, tc.TensorNetwork.isel, tc.TensorNetwork.reindex)
    # kind='real': signed symbols - the finders' abs(x) > atol forks on the sign of every inspected entry
    tn, sizes, out = sbuild(mk, geom, kind=kind)
    want = dense(tn, out)
    name = {"D": "diagonal_reduce", "A": "antidiag_gauge", "C": "column_reduce"}[p]
    before = shape_summary(tn)
    regular = set(tn.outer_inds()) == set(out)
    for atol in (1e-12, 0.0):
        t2 = apply_pass(tn, p, out, atol=atol)
        tag = f"{name}(output_inds, atol={atol})"
        check_value(mk, tag, t2, out, want, sizes)
        mk.note(f"{geom}: {name} (tensors, indices, entries) {before} -> {shape_summary(t2)}")
        mk.same(f"{tag}: never more entries than before", shape_summary(t2)[2] <= before[2], True)
    if regular:
        t3 = apply_pass(tn, p, out, default_out=True)
        check_value(mk, f"{name}()", t3, out, want, sizes)
    # idempotent in value: a second application (fresh cache and shared cache)
    cache = set()
    t4 = getattr(tn, name)(output_inds=out, cache=cache)
    t5 = getattr(t4, name)(output_inds=out, cache=cache)
    check_value(mk, f"{name} twice (shared cache)", t5, out, want, sizes)
    t6 = tn.copy()
    r = getattr(t6, name + "_")(output_inds=out)
    mk.same(f"{name}_ returns the network itself", r is t6, True)
    check_value(mk, f"{name}_ in place", t6, out, want, sizes)


# ====================================================================== F. rank_simplify

_RANK_GEOMS = ["gchain", "gtri", "gclosed", "ghyper", "ghyperout", "gdangle", "scalar", "diagmid", "copy3", "colvec", "diagout"]


@obligation(PROP, params=[{"geom": g, "eqn": q, "_tiers": _Q if (q is False or g in ("gchain", "scalar", "gclosed")) and g not in ("diagmid", "colvec") else _T}
                          for g in _RANK_GEOMS for q in (False, True, 2.0)], rounds=2, wall_s=200, timeout_s=300)
def rank_simplify(mk, geom, eqn):
    """rank_simplify (explicit / default output_inds, equalize_norms False / True / value, shared
    cache, in place): value incl. the exponent, outputs kept, no tensor of larger rank than before"""
    mk.encodes(tc.TensorNetwork.rank_simplify, tc.Tensor.sum_reduce, tc.Tensor.collapse_repeated, tc.TensorNetwork.strip_exponent,
               tc.TensorNetwork.multiply, tc.tensor_contract)
    # symbolic: abs() / sign of the collected scalars needs a determined sign -> positive symbols when norms are
    # equalized; the numeric cross-run is complex throughout
    kind = "cplx" if (eqn is False or not mk.sym) else "pos"
    tn, sizes, out = sbuild(mk, geom, kind=kind)
    want = dense(tn, out)
    maxrank = max(t.ndim for t in tn)
    regular = set(tn.outer_inds()) == set(out)
    variants = [("output_inds", dict(output_inds=out))]
    if regular:
        variants.append(("default", {}))
    for nm, kw in variants:
        tag = f"rank_simplify({nm}, equalize_norms={eqn})"
        try:
            t2 = tn.rank_simplify(equalize_norms=eqn, **kw)
        except P.Unsupported as e:
            mk.note(f"skipped: {tag}: {e}")
            continue
        check_value(mk, tag, t2, out, want, sizes)
        mk.same(f"{tag}: no tensor of larger rank than the largest before", max(t.ndim for t in t2) <= maxrank, True)
        mk.note(f"{geom}: {tag} {shape_summary(tn)} -> {shape_summary(t2)}")
        if eqn is not False and eqn is not True:
            # tensors produced by a contraction were rescaled to the requested norm
            pass
    t3 = tn.copy()
    try:
        r = t3.rank_simplify_(output_inds=out, equalize_norms=eqn, cache=set(), check_zero=True)
        mk.same("rank_simplify_ returns the network itself", r is t3, True)
        check_value(mk, f"rank_simplify_(equalize_norms={eqn}, check_zero=True) in place", t3, out, want, sizes)
        t4 = t3.rank_simplify(output_inds=out, equalize_norms=eqn)
        check_value(mk, f"rank_simplify twice (equalize_norms={eqn})", t4, out, want, sizes)
    except P.Unsupported as e:
        mk.note(f"skipped: rank_simplify_ in place: {e}")


# ====================================================================== G. full_simplify / compositions (LAPACK-free letters)

_FS_CASES = [(g, s) for g in ("circuit", "copy3", "diagmid", "antimid", "antianti", "colmid", "colvec", "colhyper", "diagout", "antiout2",
                              "diagloop", "gchain", "scalar", "ghyperout", "diag02", "anti3")
             for s in ("ADCR", "R", "AD", "DCR", "RCDA", "CAD")]
_FS_QUICK = {("circuit", "ADCR"), ("copy3", "ADCR"), ("antimid", "ADCR"), ("antianti", "AD"), ("colvec", "ADCR"), ("diagout", "ADCR"),
             ("antiout2", "ADCR"), ("gchain", "ADCR"), ("scalar", "R"), ("ghyperout", "ADCR"), ("diagloop", "DCR"), ("colhyper", "RCDA"),
             ("diagmid", "CAD"), ("anti3", "ADCR")}


@obligation(PROP, params=[{"geom": g, "seq": s, "_tiers": _Q if (g, s) in _FS_QUICK else _T} for g, s in _FS_CASES],
            rounds=2, max_paths=300, wall_s=100, timeout_s=150, max_rows=30000)
def full_simplify(mk, geom, seq):
    """full_simplify with sequences of the LAPACK-free passes (A, D, C, R), explicit / default
    outputs, equalize_norms False / True / value, in place: value, outputs, norms"""
    mk.encodes(tc.TensorNetwork.full_simplify, tc.TensorNetwork.rank_simplify, tc.TensorNetwork.diagonal_reduce,
               tc.TensorNetwork.antidiag_gauge, tc.TensorNetwork.column_reduce, tc.TensorNetwork.squeeze, tc.TensorNetwork.equalize_norms)
    tn, sizes, out = sbuild(mk, geom)
    want = dense(tn, out)
    regular = set(tn.outer_inds()) == set(out)
    for eqn in (False, True, 1.0):
        for nm, kw in ([("output_inds", dict(output_inds=out))] + ([("default", {})] if regular and eqn is False else [])):
            # rescaled entries have no determined magnitude relative to a positive atol: exact zero test there
            atol = 1e-12 if eqn is False else 0.0
            tag = f"full_simplify('{seq}', {nm}, equalize_norms={eqn}, atol={atol})"
            try:
                t2 = tn.full_simplify(seq, equalize_norms=eqn, atol=atol, **kw)
            except P.Unsupported as e:
                mk.note(f"skipped: {tag}: {e}")
                continue
            check_value(mk, tag, t2, out, want, sizes)
            mk.note(f"{geom}: {tag} {shape_summary(tn)} -> {shape_summary(t2)}")
            n2 = [norm2(t) for t in t2]
            if eqn is True:
                for k in range(1, len(n2)):
                    eq_clear(mk, f"{tag}: tensor {k} has the same squared norm as tensor 0", n2[k], n2[0])
            elif eqn is not False:
                for k in range(len(n2)):
                    eq_clear(mk, f"{tag}: tensor {k} squared norm == value**2", n2[k], eqn * eqn)
    t3 = tn.copy()
    r = t3.full_simplify_(seq, output_inds=out, atol=0.0)
    mk.same("full_simplify_ returns the network itself", r is t3, True)
    check_value(mk, f"full_simplify_('{seq}', atol=0.0) in place", t3, out, want, sizes)


_PAIR_LETTERS = "DACRHQE"
_PAIR_GEOMS = ["circuit", "copy3", "antimid", "colvec", "diagout", "ghyperout", "antiout2"]


@obligation(PROP, params=[{"geom": g, "p1": a, "p2": b,
                           "_tiers": _Q if (g, a + b) in {("circuit", "AD"), ("circuit", "DR"), ("copy3", "DH"), ("copy3", "HD"), ("antimid", "AD"),
                                                          ("colvec", "CR"), ("diagout", "DR"), ("diagout", "DH"), ("ghyperout", "HR"),
                                                          ("antiout2", "AD"), ("copy3", "DE"), ("diagout", "ED"), ("colvec", "RC")} else _T}
                          for g in _PAIR_GEOMS for a in _PAIR_LETTERS for b in _PAIR_LETTERS if a != b],
            rounds=2, max_paths=300, wall_s=100, timeout_s=150, max_rows=30000)
def pass_pairs(mk, geom, p1, p2):
    """every ordered pair of rewrites (diagonal_reduce, antidiag_gauge, column_reduce, rank_simplify,
    hyperinds_resolve, squeeze, equalize_norms(1.0)): the result of the first is fed to the second"""
    mk.encodes(tc.TensorNetwork.diagonal_reduce, tc.TensorNetwork.antidiag_gauge, tc.TensorNetwork.column_reduce,
               tc.TensorNetwork.rank_simplify, tc.TensorNetwork.hyperinds_resolve, tc.TensorNetwork.squeeze,
               tc.TensorNetwork.equalize_norms)
    tn, sizes, out = sbuild(mk, geom)
    want = dense(tn, out)
    # after a rescaling by a symbolic norm the magnitude of an entry relative to a positive atol is
    # undetermined: the exact zero test (atol=0.0) is used in compositions with equalize_norms
    atol = 0.0 if "E" in (p1, p2) else 1e-12
    try:
        t1 = apply_pass(tn, p1, out, atol=atol)
        check_value(mk, f"{p1}", t1, out, want, sizes)
        t2 = apply_pass(t1, p2, out, atol=atol)
        check_value(mk, f"{p1} ; {p2}", t2, out, want, sizes)
        t3 = apply_pass(t2, p1, out, atol=atol)
        check_value(mk, f"{p1} ; {p2} ; {p1}", t3, out, want, sizes)
    except P.Unsupported as e:
        mk.note(f"skipped: {p1} ; {p2}: {e}")
    mk.note(f"{geom}: {p1};{p2} {shape_summary(tn)} -> {shape_summary(t2) if 't2' in dir() else None}")


# ====================================================================== H. canonize / compress one bond (LAPACK contract stubs)

def bond_sizes(tn, out):
    return {ix: tn.ind_size(ix) for ix in tn.ind_map if ix not in out}


def check_bonds_not_larger(mk, tag, tn_before, tn_after, ta_tag, tb_tag, out):
    """the bond between the two tensors is a single label no larger than min(product of the old shared
    labels, left dimension, right dimension)"""
    a0, b0 = tn_before[ta_tag], tn_before[tb_tag]
    a1, b1 = tn_after[ta_tag], tn_after[tb_tag]
    shared0 = [ix for ix in a0.inds if ix in b0.inds]
    shared1 = [ix for ix in a1.inds if ix in b1.inds]
    mk.same(f"{tag}: exactly one label joins the two tensors", len(shared1), 1)
    if len(shared1) != 1:
        return
    d0 = int(np.prod([a0.ind_size(ix) for ix in shared0]))
    mk.same(f"{tag}: bond not larger than before", a1.ind_size(shared1[0]) <= d0, True)


_CB_OPTS = {
    "right": dict(absorb="right"),
    "left": dict(absorb="left"),
    "both": dict(absorb="both"),
    "right_svd": dict(absorb="right", method="svd"),
    "right_named": dict(absorb="right", bond_ind="x"),
    "swap": dict(absorb="right", swap_inds="b"),          # move the dangling label b of B over to A (pair 'BA' only)
    "create": dict(absorb="right", create_bond=True),     # no shared label: a size-1 bond is created (pair 'AC' only)
    "create_both": dict(absorb="both", create_bond=True, bond_ind="NEWB"),
}


@obligation(PROP, params=[{"geom": g, "pair": pr, "opt": o,
                           "_tiers": _Q if (g, pr, o) in {("chain3", "AB", "right"), ("chain3", "BC", "left"), ("tri", "AB", "right"),
                                                          ("multi", "AB", "right"), ("chain3", "AB", "both"), ("dim1", "AB", "left"),
                                                          ("hyper3", "CD", "right"), ("chain3d3", "BA", "right"), ("chain3", "BA", "swap"), ("chain3", "AC", "create")} else _T}
                          for g in ("chain3", "tri", "multi", "dim1", "chain3d3", "hyper3", "ring4")
                          for pr in (("AB", "BA", "BC") + (("AC",) if g in ("chain3", "ring4") else ()) if g != "hyper3" else ("CD", "DC"))
                          for o in _CB_OPTS if not (o == "right_named" and (g not in ("chain3", "multi") or pr == "BC"))
                          and not (o == "both" and g in ("chain3d3", "multi", "ring4"))
                          and (o == "swap") == (pr == "BA" and g in ("chain3", "tri", "chain3d3") and o == "swap")
                          and (o.startswith("create")) == (pr == "AC")],
            rounds=2, rounds2=3, wall_s=200, timeout_s=280, max_rows=60000)
def canonize_bond(mk, geom, pair, opt):
    """tensor_canonize_bond / TensorNetwork.canonize_between on one bond: value, labels, the tensor
    flagged through left_inds is an isometry, bond not larger"""
    mk.encodes(tc.tensor_canonize_bond, tc.TensorNetwork.canonize_between, tc.TensorNetwork._canonize_between_tids,
               tc.tensor_make_single_bond, tc.tensor_split, tc.tensor_compress_bond)
    tn, sizes, out = build(mk, geom, kind="real")
    want = dense(tn, out)
    kw = dict(_CB_OPTS[opt])
    t2 = tn.copy()
    t2.canonize_between(pair[0], pair[1], **kw)
    tag = f"canonize_between({pair[0]}, {pair[1]}, {kw})"
    check_value(mk, tag, t2, out, want, sizes)
    check_flags(mk, tag, t2)
    check_bonds_not_larger(mk, tag, tn, t2, pair[0], pair[1], out)
    ab = kw["absorb"]
    iso_tag = {"right": pair[0], "left": pair[1], "both": None}[ab]
    if "swap_inds" in kw:
        mk.same(f"{tag}: the swapped label moved to the other tensor",
                (kw["swap_inds"] in t2[pair[0]].inds, kw["swap_inds"] in t2[pair[1]].inds), (False, True))
    if opt.startswith("create"):
        new = [ix for ix in t2[pair[0]].inds if ix in t2[pair[1]].inds]
        mk.same(f"{tag}: a new size-1 bond joins the two tensors", [t2.ind_size(ix) for ix in new], [1])
        if "bond_ind" in kw:
            mk.same(f"{tag}: the new bond has the requested name", new, [kw["bond_ind"]])
    for t in t2:
        g = tag_of(t)
        if g == iso_tag:
            bnd = [ix for ix in t.inds if ix in t2[pair[1] if g == pair[0] else pair[0]].inds]
            mk.same(f"{tag}: tensor {g} is flagged isometric over every label but the bond",
                    t.left_inds is not None and set(t.left_inds) == set(t.inds) - set(bnd), True)
        elif g not in pair:
            mk.same(f"{tag}: tensor {g} untouched", t.data is tn[g].data, True)


_CMP_OPTS = {}
for _red in (True, False, "left", "right"):
    for _ab in ("both", "left", "right", None):
        _CMP_OPTS[f"red={_red},absorb={_ab}"] = dict(reduced=_red, absorb=_ab)
_CMP_OPTS["default"] = dict()
_CMP_OPTS["max_bond=8"] = dict(max_bond=8)
_CMP_OPTS["eig"] = dict(method="svd:eig")


def _cmp_params():
    out = []
    for g in ("pair", "pairwide", "chain3", "tri", "multi", "dim1"):
        for pr in (("AB",) if g.startswith("pair") else ("AB", "BC")):
            for o in _CMP_OPTS:
                quick = (g, pr, o) in {("pair", "AB", "red=True,absorb=both"), ("pairwide", "AB", "red=True,absorb=right"),
                                       ("chain3", "AB", "red=False,absorb=left"), ("chain3", "BC", "red=left,absorb=right"),
                                       ("pair", "AB", "red=True,absorb=None"), ("multi", "AB", "red=False,absorb=both"),
                                       ("chain3", "AB", "red=right,absorb=left"), ("dim1", "AB", "default")}
                if o in ("eig",) and g not in ("pair", "chain3"):
                    continue
                if o.startswith("red=True") and not (g.startswith("pair") or (g, pr) == ("chain3", "AB")):
                    continue        # two QR + one SVD contract: certificates beyond the budget on the larger networks
                out.append({"geom": g, "pair": pr, "opt": o, "_tiers": _Q if quick else _T})
    return out


@obligation(PROP, params=_cmp_params(), rounds=2, rounds2=3, wall_s=250, timeout_s=330, max_rows=60000)
def compress_bond(mk, geom, pair, opt):
    """tensor_compress_bond / compress_between with NO truncation (cutoff=0.0, max_bond None or
    >= the rank): value (with the returned singular values on the bond when absorb=None), labels,
    isometry flags, bond == min-rank (never larger than before)"""
    mk.encodes(tc.tensor_compress_bond, tc.TensorNetwork.compress_between, tc.TensorNetwork._compress_between_tids,
               tc.tensor_split, tc.tensor_make_single_bond)
    tn, sizes, out = build(mk, geom, kind="real")
    want = dense(tn, out)
    kw = dict(_CMP_OPTS[opt])
    if kw.get("method") == "svd:eig":
        stubs.OPTIONS["eigh_spectrum"] = "pos"
    try:
        t2 = tn.copy()
        ta, tb = t2[pair[0]], t2[pair[1]]
        info = {}
        if opt in ("default", "max_bond=8", "eig"):
            t2.compress_between(pair[0], pair[1], cutoff=0.0, **kw)
            tag = f"compress_between({pair[0]}, {pair[1]}, cutoff=0.0, {kw})"
        else:
            tc.tensor_compress_bond(ta, tb, cutoff=0.0, info=info, **kw)
            tag = f"tensor_compress_bond({pair[0]}, {pair[1]}, cutoff=0.0, {kw})"
    finally:
        stubs.OPTIONS["eigh_spectrum"] = "real"
    shared = [ix for ix in ta.inds if ix in tb.inds]
    mk.same(f"{tag}: exactly one label joins the two tensors", len(shared), 1)
    if kw.get("absorb", "both") is None:
        s = info.get("singular_values")
        mk.same(f"{tag}: singular values returned through info", s is not None and len(s) == ta.ind_size(shared[0]), True)
        mk.eq(f"{tag}: network with the returned singular values on the bond == original", dense_gauged(t2, out, {shared[0]: s}), want)
        mk.same(f"{tag}: outer labels", all(o in t2.ind_map and t2.ind_size(o) == sizes[o] for o in out), True)
    else:
        check_value(mk, tag, t2, out, want, sizes)
    check_flags(mk, tag, t2)
    # no truncation: the new bond is min(old bond, left dimension, right dimension)
    a0, b0 = tn[pair[0]], tn[pair[1]]
    sh0 = [ix for ix in a0.inds if ix in b0.inds]
    d0 = int(np.prod([sizes[i] for i in sh0]))
    dl = int(np.prod([sizes[i] for i in a0.inds if i not in sh0]))
    dr = int(np.prod([sizes[i] for i in b0.inds if i not in sh0]))
    if len(shared) == 1:
        d1 = ta.ind_size(shared[0])
        mk.same(f"{tag}: bond not larger than before", d1 <= d0, True)
        if kw.get("reduced", True) is True:
            mk.same(f"{tag}: bond == min(old bond, left dim, right dim)", d1, min(d0, dl, dr))
    ab = kw.get("absorb", "both")
    if ab in ("left", "right") and kw.get("reduced", True) in (True, False):
        g = pair[0] if ab == "right" else pair[1]
        t = t2[g]
        mk.same(f"{tag}: tensor {g} flagged isometric over every label but the bond",
                t.left_inds is not None and set(t.left_inds) == set(t.inds) - set(shared), True)


@obligation(PROP, params=[{"geom": g, "pair": pr, "fn": f, "smudge": sm,
                           "_tiers": _Q if (g, pr, f, sm) in {("pair", "AB", "compress", 0.0), ("chain3", "AB", "canonize", 0.0), ("multi", "AB", "canonize", 0.0)} else _T,
                           "_mandatory": not (f == "compress" and g in ("multi", "tri"))}
                          for g in ("chain3", "pair", "multi", "tri") for pr in (("AB",) if g != "chain3" else ("AB", "BC"))
                          for f in ("compress", "canonize") for sm in (0.0, 1e-6)],
            rounds=2, rounds2=3, wall_s=250, timeout_s=330, max_rows=60000)
def bond_with_gauges(mk, geom, pair, fn, smudge):
    """tensor_compress_bond / tensor_canonize_bond with a simple-update gauge dictionary: the
    (network, gauges) pair denotes the same tensor before and after (the gauge of the bond is
    replaced / consumed as documented)"""
    mk.encodes(tc.tensor_compress_bond, tc.tensor_canonize_bond, tc.TensorNetwork.gauge_simple_insert, tc.TensorNetwork.gauge_simple_remove,
               tc.tensor_multifuse)
    tn, sizes, out = build(mk, geom, kind="real")
    inner = [ix for ix in tn.ind_map if ix not in out]
    gauges = _gauges_for(mk, tn, inner)
    want = dense_gauged(tn, out, gauges)
    t2 = tn.copy()
    ta, tb = t2[pair[0]], t2[pair[1]]
    g2 = dict(gauges)
    try:
        if fn == "compress":
            tc.tensor_compress_bond(ta, tb, cutoff=0.0, gauges=g2, gauge_smudge=smudge)
        else:
            tc.tensor_canonize_bond(ta, tb, gauges=g2, gauge_smudge=smudge)
    except P.Unsupported as e:
        raise Skip(f"{fn} with gauges, smudge={smudge}: {e}")
    tag = f"tensor_{fn}_bond({pair}, gauges, gauge_smudge={smudge})"
    mk.same(f"{tag}: gauge keys are labels of the network", set(g2) <= set(t2.ind_map), True)
    mk.same(f"{tag}: gauge sizes", all(len(v) == t2.ind_size(k) for k, v in g2.items() if k in t2.ind_map), True)
    mk.eq(f"{tag}: (network, gauges) denotes the same tensor", dense_gauged(t2, out, {k: v for k, v in g2.items() if k in t2.ind_map}), want)
    mk.same(f"{tag}: outer labels", all(o in t2.ind_map and t2.ind_size(o) == sizes[o] for o in out), True)
    shared = [ix for ix in ta.inds if ix in tb.inds]
    if fn == "compress" and len(shared) == 1 and shared[0] in g2:
        s = g2[shared[0]]
        tot = 0
        for v in s:
            tot = tot + v * v
        mk.eq(f"{tag}: the new bond gauge has unit 2-norm", tot, 1)


# ====================================================================== I. regions: canonize_around / gauge_all_* / gauge_local / compress_all

TREES = ("chain3", "star4", "chain3d3", "dim1", "multi", "hyper3")


def _tree_dist(tn, region_tags):
    """graph distance of every tensor (by tag) from the region, ordinary (2-tensor) bonds only"""
    tags = [tag_of(t) for t in tn]
    adj = {g: set() for g in tags}
    for ix, tids in tn.ind_map.items():
        ts = [tag_of(tn.tensor_map[t]) for t in tids]
        for a in ts:
            for b in ts:
                if a != b:
                    adj[a].add(b)
    dist = {g: 0 for g in region_tags}
    frontier = list(region_tags)
    while frontier:
        nxt = []
        for a in frontier:
            for b in adj[a]:
                if b not in dist:
                    dist[b] = dist[a] + 1
                    nxt.append(b)
        frontier = nxt
    return dist, adj


_CA_OPTS = {
    "default": dict(),
    "d1": dict(max_distance=1),
    "d0": dict(max_distance=0),
    "min1": dict(min_distance=1),
    "left": dict(absorb="left"),
    "both": dict(absorb="both"),
    "links": dict(gauge_links=True),
    "links_right": dict(gauge_links=True, link_absorb="right"),
    "eqn": dict(equalize_norms=True),
    "eqn2": dict(equalize_norms=2.0),
    "exclude": dict(exclude_tag="C"),
    "svd": dict(method="svd"),
}


def _ca_params():
    out = []
    for g in ("chain3", "star4", "tri", "ring4", "multi", "dim1", "chain3d3"):
        tags = {"chain3": ("A", "B"), "star4": ("A", "B"), "tri": ("A",), "ring4": ("A",), "multi": ("C",), "dim1": ("A",),
                "hyper3": ("D",), "chain3d3": ("C",)}[g]
        for tg in tags:
            for o in _CA_OPTS:
                if o.startswith("links") and g not in ("tri", "ring4"):
                    continue
                quick = (g, tg, o) in {("chain3", "A", "default"), ("chain3", "B", "default"), ("star4", "B", "default"), ("tri", "A", "default"),
                                       ("chain3", "A", "eqn2"), ("multi", "C", "default"), ("star4", "A", "d1"),
                                       ("chain3", "A", "left"), ("chain3", "A", "exclude")}
                out.append({"geom": g, "tag": tg, "opt": o, "_tiers": _Q if quick else _T})
    return out


@obligation(PROP, params=_ca_params(), rounds=2, rounds2=3, wall_s=250, timeout_s=330, max_rows=60000, solver_timeout_ms=600000)
def canonize_around(mk, geom, tag, opt):
    """canonize_around(tags, ...): value, labels, every flagged tensor isometric; on a tree with
    absorb='right' every tensor within max_distance (and beyond min_distance) of the region is an
    isometry towards the region (all labels but the bond that leads to it)"""
    mk.encodes(tc.TensorNetwork.canonize_around, tc.TensorNetwork._canonize_around_tids, tnw.get_tree_span,
               tc.tensor_canonize_bond, tc.TensorNetwork.strip_exponent)
    tn, sizes, out = build(mk, geom, kind="real")
    want = dense(tn, out)
    kw = dict(_CA_OPTS[opt])
    ex = kw.pop("exclude_tag", None)
    if ex is not None:
        kw["exclude"] = list(tn._get_tids_from_tags(ex))
    t2 = tn.canonize_around(tag, **kw)
    lab = f"canonize_around({tag}, {_CA_OPTS[opt]})"
    check_value(mk, lab, t2, out, want, sizes)
    check_flags(mk, lab, t2)
    mk.same(f"{lab}: receiver not modified (inplace=False)", all(t.left_inds is None for t in tn), True)
    if geom in TREES and kw.get("absorb", "right") == "right" and not kw.get("equalize_norms"):
        dist, adj = _tree_dist(tn, [tag])
        lo, hi = kw.get("min_distance", 0), kw.get("max_distance", None)
        for t in t2:
            g = tag_of(t)
            d = dist[g]
            if d == 0 or d <= lo or (hi is not None and d > hi) or g == ex or (ex and geom == "chain3" and tag == "A" and g == "C"):
                continue
            parent = [b for b in adj[g] if dist[b] == d - 1]
            bnd = [ix for ix in t.inds if any(ix in t2[b].inds for b in parent)]
            over = tuple(ix for ix in t.inds if ix not in bnd)
            mk.same(f"{lab}: tensor {g} (distance {d}) flagged as isometry towards the region",
                    t.left_inds is not None and set(t.left_inds) == set(over), True)
            iso_goal(mk, f"{lab}: tensor {g} (distance {d}) is an isometry towards the region", t, over)
    if kw.get("equalize_norms") not in (None, False, True):
        v = kw["equalize_norms"]
        for t in t2:
            if t.data is not tn[tag_of(t)].data:
                eq_clear(mk, f"{lab}: touched tensor {tag_of(t)} has squared norm value**2", norm2(t), v * v)


@obligation(PROP, params=[{"geom": "hyper3", "tag": "D"}, {"geom": "hyper3", "tag": "A", "_tiers": _T}],
            rounds=2, wall_s=250, timeout_s=330, max_rows=15000)
def canonize_around_hyper(mk, geom, tag):
    """canonize_around on a network with a hyper index (a label on three tensors): the spanning tree
    runs through the hyper index (its holders are neighbours), a pairwise QR gauge on it is not a
    gauge of the network - the value must still be the same (or the call rejected)"""
    mk.encodes(tc.TensorNetwork.canonize_around, tc.TensorNetwork._canonize_around_tids, tnw.get_tree_span, tc.tensor_canonize_bond)
    tn, sizes, out = build(mk, geom, kind="real")
    want = dense(tn, out)
    try:
        t2 = tn.canonize_around(tag)
    except (ValueError, NotImplementedError) as e:
        mk.note(f"rejected: {type(e).__name__}: {e}"[:120])
        mk.same("rejected cleanly", True, True)
        return
    check_value(mk, f"canonize_around({tag}) on a hyper-index network", t2, out, want, sizes)
    check_flags(mk, f"canonize_around({tag}) on a hyper-index network", t2)


_GA_OPTS = {
    "canonize": dict(method="canonize", max_iterations=1),
    "canonize_right": dict(method="canonize", max_iterations=1, absorb="right"),
    "canonize_eqn": dict(method="canonize", max_iterations=1, equalize_norms=True),
    "canonize_eqn1": dict(method="canonize", max_iterations=1, equalize_norms=1.0),
    "canonize2": dict(method="canonize", max_iterations=2),
    "simple": dict(method="simple", max_iterations=1, smudge=0.0),
    "simple_smudge": dict(method="simple", max_iterations=1),
    "simple_eqn": dict(method="simple", max_iterations=1, smudge=0.0, equalize_norms=True),
    "simple_power": dict(method="simple", max_iterations=1, smudge=0.0, power=0.5),
    "simple_nofuse": dict(method="simple", max_iterations=1, smudge=0.0, fuse_multibonds=False),
}


@obligation(PROP, params=[{"geom": g, "opt": o, "_tiers": _Q if (g, o) in {("pair", "canonize"), ("chain3", "canonize_right"), ("pair", "simple"),
                                                                          ("pair", "canonize_eqn1"), ("pair", "simple_eqn")} else _T,
                           "_mandatory": g in ("pair", "chain3") or o.startswith("canonize")}
                          for g in ("pair", "chain3", "tri", "multi", "hyper3") for o in _GA_OPTS
                          if not (o == "simple_nofuse" and g != "multi")],
            rounds=2, rounds2=3, wall_s=280, timeout_s=360, max_rows=60000)
def gauge_all(mk, geom, opt):
    """gauge_all(method=canonize / simple) with one (two) sweeps: value, labels, isometry flags"""
    mk.encodes(tc.TensorNetwork.gauge_all, tc.TensorNetwork.gauge_all_canonize, tc.TensorNetwork.gauge_all_simple,
               tc.tensor_gauge_simple_bond, tc.tensor_compress_bond, tc.tensor_canonize_bond)
    tn, sizes, out = build(mk, geom, kind="real")
    want = dense(tn, out)
    kw = dict(_GA_OPTS[opt])
    try:
        t2 = tn.gauge_all(**kw)
    except P.Unsupported as e:
        raise Skip(f"gauge_all({kw}): {e}")
    lab = f"gauge_all({kw})"
    check_value(mk, lab, t2, out, want, sizes)
    check_flags(mk, lab, t2)


@obligation(PROP, params=[{"geom": g, "start": s, "_tiers": _Q if (g, s) == ("pair", "none") else _T, "_mandatory": g == "pair"}
                          for g in ("pair", "chain3", "multi") for s in ("none", "given")],
            rounds=2, rounds2=3, wall_s=280, timeout_s=360, max_rows=60000)
def gauge_all_simple_tracked(mk, geom, start):
    """gauge_all_simple(gauges=dict): the gauges are tracked externally - the (network, gauges)
    pair denotes the same tensor; stored gauges have unit 2-norm"""
    mk.encodes(tc.TensorNetwork.gauge_all_simple, tc.tensor_gauge_simple_bond)
    tn, sizes, out = build(mk, geom, kind="real")
    inner = [ix for ix in tn.ind_map if ix not in out]
    gauges = {} if start == "none" else _gauges_for(mk, tn, inner[:1])
    want = dense_gauged(tn, out, gauges)
    g2 = dict(gauges)
    info = {}
    t2 = tn.gauge_all_simple(max_iterations=1, smudge=0.0, gauges=g2, info=info)
    lab = f"gauge_all_simple(max_iterations=1, smudge=0.0, gauges={start})"
    mk.same(f"{lab}: gauge keys are labels of the network", set(g2) <= set(t2.ind_map), True)
    mk.eq(f"{lab}: (network, gauges) denotes the same tensor", dense_gauged(t2, out, {k: v for k, v in g2.items() if k in t2.ind_map}), want)
    mk.same(f"{lab}: outer labels", all(o in t2.ind_map and t2.ind_size(o) == sizes[o] for o in out), True)
    mk.same(f"{lab}: info", (info.get("iterations"), "exponent" in info), (1, False))
    for k, s in g2.items():
        tot = 0
        for v in s:
            tot = tot + v * v
        eq_clear(mk, f"{lab}: gauge {k} has unit 2-norm", tot, 1)


@obligation(PROP, params=[{"geom": g, "opt": o, "_tiers": _Q if (g, o) in {("chain3", "canonize")} else _T}
                          for g in ("chain3", "tri") for o in ("canonize", "canonize_d0", "simple")],
            rounds=2, rounds2=3, wall_s=280, timeout_s=360, max_rows=60000, mandatory=False)
def gauge_local(mk, geom, opt):
    """gauge_local(tags, max_distance, method): value, labels, flags; tensors outside the local
    region are untouched"""
    mk.encodes(tc.TensorNetwork.gauge_local, tc.TensorNetwork._gauge_local_tids, tc.TensorNetwork._select_local_tids)
    tn, sizes, out = build(mk, geom, kind="real")
    want = dense(tn, out)
    kw = {"canonize": dict(method="canonize", max_distance=1), "canonize_d0": dict(method="canonize", max_distance=0, max_iterations=1),
          "simple": dict(method="simple", max_distance=1, smudge=0.0)}[opt]
    try:
        t2 = tn.gauge_local("A", **kw)
    except P.Unsupported as e:
        raise Skip(f"gauge_local({kw}): {e}")
    lab = f"gauge_local('A', {kw})"
    check_value(mk, lab, t2, out, want, sizes)
    check_flags(mk, lab, t2)
    if geom == "chain3":
        mk.same(f"{lab}: tensor C (distance 2) untouched", t2["C"].data is tn["C"].data, True)
    if opt == "canonize_d0":
        mk.same(f"{lab}: nothing to gauge in a one-tensor region", all(t2[g].data is tn[g].data for g in "ABC"), True)


_CALL = {
    "all_basic": ("compress_all", dict(cutoff=0.0, canonize=False)),
    "all_default": ("compress_all", dict(cutoff=0.0)),
    "all_basic_d1": ("compress_all", dict(cutoff=0.0, mode="basic", tree_gauge_distance=1)),
    "all_maxbond": ("compress_all", dict(cutoff=0.0, max_bond=8, canonize=False)),
    "tree": ("compress_all_tree", dict(cutoff=0.0)),
    "1d": ("compress_all_1d", dict(cutoff=0.0)),
    "1d_nocanon": ("compress_all_1d", dict(cutoff=0.0, canonize=False)),
    "simple": ("compress_all_simple", dict(cutoff=0.0, max_iterations=1, smudge=0.0)),
    "between_canon": ("compress_between", dict(cutoff=0.0, canonize_distance=1)),
    "between_eqn": ("compress_between", dict(cutoff=0.0, equalize_norms=1.0)),
    "between_maxbond": ("compress_between", dict(cutoff=0.0, max_bond=2)),
    "between_maxbond_left": ("compress_between", dict(cutoff=0.0, max_bond=4, absorb="left")),
}


@obligation(PROP, params=[{"geom": g, "opt": o,
                           "_tiers": _Q if (g, o) in {("pair", "all_basic"), ("pairwide", "tree"), ("pairwide", "between_maxbond"),
                                                      ("pairwide", "between_maxbond_left"), ("pair", "1d")} else _T,
                           "_mandatory": g.startswith("pair") and o != "all_default"}
                          for g in ("pair", "pairwide", "chain3", "chain3d3", "multi", "tri") for o in _CALL
                          if not (o == "all_default" and g != "pair")
                          and not (g in ("chain3d3", "multi", "tri") and o in ("all_basic", "all_basic_d1", "all_maxbond", "simple", "between_canon"))],
            rounds=2, rounds2=3, wall_s=280, timeout_s=360, max_rows=60000)
def compress_all(mk, geom, opt):
    """compress_all / compress_all_tree / compress_all_1d / compress_all_simple / compress_between with
    no truncation (cutoff=0.0, max_bond None or not below the rank): value, labels, flags, bonds
    never larger than before"""
    mk.encodes(tc.TensorNetwork.compress_all, tc.TensorNetwork.compress_all_tree, tc.TensorNetwork.compress_all_1d,
               tc.TensorNetwork.compress_all_simple, tc.TensorNetwork.compress_between, tc.TensorNetwork._compress_between_tids,
               tc.choose_local_compress_gauge_settings, tc.tensor_compress_bond)
    tn, sizes, out = build(mk, geom, kind="real")
    want = dense(tn, out)
    meth, kw = _CALL[opt]
    try:
        if meth == "compress_between":
            t2 = tn.copy()
            t2.compress_between("A", "B", **kw)
        else:
            t2 = getattr(tn, meth)(**kw)
    except P.Unsupported as e:
        raise Skip(f"{meth}({kw}): {e}")
    lab = f"{meth}({kw})"
    check_value(mk, lab, t2, out, want, sizes)
    check_flags(mk, lab, t2)
    # bonds between every pair of tensors: product of shared sizes never grows
    for a, b in itertools.combinations([tag_of(t) for t in tn], 2):
        s0 = int(np.prod([sizes[ix] for ix in tn[a].inds if ix in tn[b].inds]))
        s1 = int(np.prod([t2[a].ind_size(ix) for ix in t2[a].inds if ix in t2[b].inds]))
        mk.same(f"{lab}: total bond size between {a} and {b} not larger", s1 <= s0, True)


# ====================================================================== J. decomposition based simplifications (S, P, L)

SPL_GEOMS = {
    "pairwide": ("P", True),     # bond 3 between two 2x3 matrices: the pair compresses to bond 2
    "multi": ("P", True),        # a (2,2) multibond compresses to bond 2
    "chain3": ("P", False),
    "tri2": ("L", True),         # triangle: the loop is replaced by two tensors
    "tri": ("L", False),
    "ring4": ("L", None),
    "chain3d3": ("P", True),
}


def _spl_params():
    out = []
    for g, (p, fires) in SPL_GEOMS.items():
        for inplace in (True, False):
            for eqn in (False, 1.0):
                quick = (g, inplace, eqn) in {("pairwide", True, False), ("pairwide", False, False), ("tri2", True, False), ("tri2", False, False), ("multi", True, 1.0)}
                out.append({"geom": g, "p": p, "inplace": inplace, "eqn": eqn, "_tiers": _Q if quick else _T,
                            "_mandatory": g in ("pairwide", "tri2", "chain3")})
    for g in ("chain3", "tri", "pair"):
        out.append({"geom": g, "p": "S", "inplace": False, "eqn": False, "_tiers": _Q if g == "chain3" else _T})
    return out


@obligation(PROP, params=_spl_params(), rounds=2, rounds2=3, wall_s=280, timeout_s=360, max_rows=60000, exc_is_violation=True,
            allow_exc=(P.Unsupported,))
def decomposition_simplify(mk, geom, p, inplace, eqn):
    """split_simplify / pair_simplify / loop_simplify with no truncation (cutoff 0): value, labels,
    flags; plain and in-place spellings (an exception of the real code is a violation)"""
    mk.encodes(tc.TensorNetwork.split_simplify, tc.TensorNetwork.pair_simplify, tc.TensorNetwork.loop_simplify,
               tc.tensor_fuse_squeeze, tc.TensorNetwork.compute_contracted_inds, tnw.gen_loops, tc.tensor_split)
    tn, sizes, out = build(mk, geom, kind="real")
    want = dense(tn, out)
    name = {"S": "split_simplify", "P": "pair_simplify", "L": "loop_simplify"}[p]
    kw = dict(atol=0.0) if p == "S" else dict(cutoff=0.0, output_inds=out)
    if eqn is not False:
        kw["equalize_norms"] = eqn
    before = shape_summary(tn)
    if inplace:
        t2 = tn.copy()
        r = getattr(t2, name + "_")(**kw)
        mk.same(f"{name}_ returns the network itself", r is t2, True)
    else:
        t2 = getattr(tn, name)(**kw)
    lab = f"{name}{'_' if inplace else ''}({kw})"
    mk.note(f"{geom}: {lab} {before} -> {shape_summary(t2)}")
    check_value(mk, lab, t2, out, want, sizes)
    check_flags(mk, lab, t2)
    mk.same(f"{lab}: never more entries than before", shape_summary(t2)[2] <= before[2], True)


@obligation(PROP, params=[{"shape": s} for s in ("outer", "outer3")], numeric_required=True)
def split_simplify_lowrank_numeric(mk, shape):
    """numeric-only supplement: split_simplify on rank-deficient tensors (an exact outer product):
    the decomposition fires (rank detection by the real SVD, which the contract stub does not model)"""
    mk.encodes(tc.TensorNetwork.split_simplify)
    if mk.sym:
        mk.note("numeric-only: the SVD stub returns full-rank factors; rank-deficient inputs run in the numeric cross-run")
        mk.same("numeric-only obligation", True, True)
        return
    u = mk.array("u", (2, 2), "real")
    v = mk.array("v", (2, 2), "real")
    w = mk.array("w", (2, 2), "real")
    T = np.einsum("ax,by->abxy", u, v)
    ts = [qtn.Tensor(T, "abxy", tags="T"), qtn.Tensor(w, "xc", tags="W")]
    if shape == "outer3":
        ts.append(qtn.Tensor(mk.array("z", (2, 2), "real"), "yd", tags="Z"))
    tn = qtn.TensorNetwork(ts)
    tn.exponent = float(mk.scalar("e", "real"))
    out = tuple(tn.outer_inds())
    sizes = {o: tn.ind_size(o) for o in out}
    want = dense(tn, out)
    for kw in (dict(), dict(equalize_norms=1.0), dict(atol=1e-10)):
        t2 = tn.split_simplify(**kw)
        check_value(mk, f"split_simplify({kw}) on an outer product", t2, out, want, sizes)
        mk.same(f"split_simplify({kw}): the outer product was split", t2.num_tensors > tn.num_tensors, True)
    t3 = tn.full_simplify("ADCRS", output_inds=out)
    check_value(mk, "full_simplify('ADCRS') on an outer product", t3, out, want, sizes)
    t3 = tn.compress_simplify(output_inds=out)
    check_value(mk, "compress_simplify() on an outer product", t3, out, want, sizes)


_FSL = [("pairwide", "RPL"), ("tri2", "L"), ("tri2", "RPL"), ("multi", "P"), ("chain3", "ADCRS"), ("chain3", "SR"), ("pairwide", "PR")]


@obligation(PROP, params=[{"geom": g, "seq": s, "_tiers": _Q if (g, s) in {("pairwide", "RPL"), ("tri2", "L")} else _T,
                           "_mandatory": (g, s) in {("pairwide", "RPL"), ("tri2", "L"), ("chain3", "SR")}} for g, s in _FSL],
            rounds=2, rounds2=3, wall_s=280, timeout_s=360, max_rows=60000, exc_is_violation=True, allow_exc=(P.Unsupported,))
def full_simplify_lapack(mk, geom, seq):
    """full_simplify with sequences containing S / P / L (atol=0.0: no truncation)"""
    mk.encodes(tc.TensorNetwork.full_simplify, tc.TensorNetwork.split_simplify, tc.TensorNetwork.pair_simplify, tc.TensorNetwork.loop_simplify)
    tn, sizes, out = build(mk, geom, kind="pos" if mk.sym else "real")
    want = dense(tn, out)
    t2 = tn.full_simplify(seq, output_inds=out, atol=0.0)
    lab = f"full_simplify('{seq}', atol=0.0)"
    mk.note(f"{geom}: {lab} {shape_summary(tn)} -> {shape_summary(t2)}")
    check_value(mk, lab, t2, out, want, sizes)
    check_flags(mk, lab, t2)


# ====================================================================== K. balance_bonds

@obligation(PROP, params=[{"shape": s} for s in ("vec-vec", "vec-mat1", "mat1-mat1")])
def balance_bond_symbolic(mk, shape):
    """tensor_balance_bond(t1, t2, smudge=0.0) where the squared column norms are monomials (every
    other dimension has size 1): value kept, column norms on both sides of the bond equal"""
    mk.encodes(tc.tensor_balance_bond, tc.Tensor.multiply_index_diagonal)
    D = 3
    s1, i1 = {"vec-vec": ((D,), "x"), "vec-mat1": ((D,), "x"), "mat1-mat1": ((1, D), "ax")}[shape]
    s2, i2 = {"vec-vec": ((D,), "x"), "vec-mat1": ((D, 1), "xb"), "mat1-mat1": ((D, 1, 1), "xbc")}[shape]
    t1 = qtn.Tensor(mk.array("A", s1, "pos"), i1, tags="A")
    t2 = qtn.Tensor(mk.array("B", s2, "pos"), i2, tags="B")
    tn = qtn.TensorNetwork([t1, t2])
    out = tuple(tn.outer_inds())
    sizes = {o: tn.ind_size(o) for o in out}
    want = dense(tn, out)
    t3 = tn.copy()
    tc.tensor_balance_bond(t3["A"], t3["B"], smudge=0.0)
    check_value(mk, "tensor_balance_bond(A, B, smudge=0.0)", t3, out, want, sizes)
    for k in range(D):
        na = norm2(t3["A"].isel({"x": k}))
        nb = norm2(t3["B"].isel({"x": k}))
        mk.eq(f"tensor_balance_bond: column {k} of the bond has the same squared norm on both sides", na, nb)


@obligation(PROP, params=[{"geom": g} for g in ("chain3", "tri", "ring4", "chain3d3", "hyper3")], numeric_required=True)
def balance_bonds_numeric(mk, geom):
    """numeric-only supplement: balance_bonds / tensor_balance_bond on generic tensors take the
    power 1/4 of a ratio of sums of squares (not a rational function): checked on random complex data"""
    mk.encodes(tc.TensorNetwork.balance_bonds, tc.tensor_balance_bond)
    if mk.sym:
        mk.note("numeric-only: (x / y)**0.25 of non-monomial quantities is outside the symbolic engine")
        mk.same("numeric-only obligation", True, True)
        return
    tn, sizes, out = build(mk, geom, kind="cplx")
    want = dense(tn, out)
    t2 = tn.balance_bonds()
    check_value(mk, "balance_bonds()", t2, out, want, sizes)
    t3 = tn.copy()
    r = t3.balance_bonds_()
    mk.same("balance_bonds_ returns the network itself", r is t3, True)
    check_value(mk, "balance_bonds_()", t3, out, want, sizes)
    t4 = tn.copy()
    tc.tensor_balance_bond(t4["C"], t4["D"] if geom in ("ring4", "hyper3") else t4["B"], smudge=0.0)
    check_value(mk, "tensor_balance_bond(smudge=0.0)", t4, out, want, sizes)
    ta, tb = t4["C"], (t4["D"] if geom in ("ring4", "hyper3") else t4["B"])
    (ix,) = ta.bonds(tb)
    for k in range(ta.ind_size(ix)):
        mk.eq(f"tensor_balance_bond(smudge=0.0): column {k} balanced", norm2(ta.isel({ix: k})), norm2(tb.isel({ix: k})), tol=1e-9)


@obligation(PROP, params=[{"geom": g, "unitary": u} for g in ("chain3", "tri", "multi") for u in (True, False)], numeric_required=True)
def gauge_all_random_numeric(mk, geom, unitary):
    """numeric-only supplement: gauge_all_random draws its gauges from quimb's RNG"""
    mk.encodes(tc.TensorNetwork.gauge_all_random)
    if mk.sym:
        mk.note("numeric-only: random gauges come from the library's RNG")
        mk.same("numeric-only obligation", True, True)
        return
    tn, sizes, out = build(mk, geom, kind="cplx")
    want = dense(tn, out)
    for it in (1, 2):
        t2 = tn.gauge_all_random(max_iterations=it, unitary=unitary, seed=7)
        check_value(mk, f"gauge_all_random(max_iterations={it}, unitary={unitary})", t2, out, want, sizes)
    t2 = tn.gauge_all(method="random", seed=3)
    check_value(mk, "gauge_all(method='random')", t2, out, want, sizes)


# ====================================================================== L. compositions with LAPACK based rewrites

def _step(mk, tn, op, out):
    """one rewrite (in place on a copy) by name"""
    t = tn.copy()
    if op == "canonAB":
        t.canonize_between("A", "B")
    elif op == "canonBA":
        t.canonize_between("B", "A")
    elif op == "canonCB":
        t.canonize_between("C", "B")
    elif op == "compressAB":
        t.compress_between("A", "B", cutoff=0.0)
    elif op == "compressAB_left":
        t.compress_between("A", "B", cutoff=0.0, absorb="left")
    elif op == "aroundA":
        t.canonize_around_("A")
    elif op == "aroundC":
        t.canonize_around_("C")
    elif op == "fuse":
        t.fuse_multibonds_()
    elif op == "squeeze":
        t.squeeze_(exclude=out)
    elif op == "eqn":
        t.equalize_norms_(1.0)
    elif op == "eqnNone":
        t.equalize_norms_()
    elif op == "rank":
        t.rank_simplify_(output_inds=out)
    elif op == "gaugeU":
        (bond,) = t["A"].bonds(t["B"])
        U = mk.array("U", (2, 2), "real")
        t.insert_gauge(U, "A", "B", Uinv=_inv2(U))
    elif op == "strip":
        t.strip_exponent(t["A"], 2.0)
    elif op == "flipx":
        (bond,) = t["A"].bonds(t["B"])
        t.flip_([bond])
    elif op == "conj":
        t = t.conj()
    else:
        raise ValueError(op)
    return t


_COMPOSE = [
    ("chain3", ("canonAB", "canonCB")), ("chain3", ("canonAB", "canonBA")), ("chain3", ("canonAB", "compressAB")),
    ("chain3", ("compressAB_left", "canonAB")), ("chain3", ("canonAB", "eqn")), ("chain3", ("eqn", "canonAB")),
    ("chain3", ("canonAB", "strip")), ("chain3", ("canonAB", "gaugeU")), ("chain3", ("aroundA", "aroundC")),
    ("chain3", ("aroundC", "rank")), ("chain3", ("canonAB", "squeeze")), ("chain3", ("canonAB", "flipx")), ("chain3", ("canonAB", "conj")),
    ("multi", ("fuse", "canonAB")), ("multi", ("canonAB", "fuse")), ("multi", ("canonCB", "fuse")),
    ("dim1", ("canonAB", "squeeze")), ("dim1", ("squeeze", "canonAB")), ("dim1", ("aroundC", "squeeze")),
    ("tri", ("canonAB", "canonCB")), ("tri", ("canonAB", "eqnNone")),
    ("chain3", ("canonAB", "canonCB", "compressAB")), ("chain3", ("aroundA", "eqn", "aroundC")),
]
_COMPOSE_QUICK = {("chain3", ("canonAB", "canonCB")), ("chain3", ("canonAB", "eqn")), ("multi", ("canonAB", "fuse")), ("dim1", ("canonAB", "squeeze")),
                  ("chain3", ("canonAB", "gaugeU")), ("chain3", ("canonAB", "flipx")), ("chain3", ("canonAB", "conj"))}


@obligation(PROP, params=[{"geom": g, "ops": ops, "_tiers": _Q if (g, ops) in _COMPOSE_QUICK else _T,
                           "_mandatory": len(ops) == 2 and "compressAB" not in ops} for g, ops in _COMPOSE],
            rounds=2, rounds2=3, wall_s=280, timeout_s=360, max_rows=60000)
def compose_lapack(mk, geom, ops):
    """sequences of two or three rewrites where at least one is QR / SVD based: after every step the
    value and the outer labels are the original ones and every tensor still flagged through
    left_inds is an isometry (a flag set by a previous step must be dropped or stay true)"""
    mk.encodes(tc.TensorNetwork.canonize_between, tc.TensorNetwork.compress_between, tc.TensorNetwork.canonize_around,
               tc.TensorNetwork.fuse_multibonds, tc.TensorNetwork.squeeze, tc.TensorNetwork.equalize_norms, tc.TensorNetwork.rank_simplify,
               tc.TensorNetwork.insert_gauge, tc.TensorNetwork.strip_exponent, tc.TensorNetwork.flip, tc.TensorNetwork.conj,
               tc.Tensor.modify, tc.Tensor.fuse, tc.Tensor.squeeze)
    tn, sizes, out = build(mk, geom, kind="real")
    want = dense(tn, out)
    t = tn
    done = []
    for op in ops:
        t = _step(mk, t, op, out)
        done.append(op)
        lab = " ; ".join(done)
        check_value(mk, lab, t, out, want if "conj" not in done else conj(want), sizes)
        check_flags(mk, lab, t)


_GRADED_OPS = {
    "canonize_between(A,B)": lambda tn: tn.canonize_between("A", "B"),
    "canonize_between(B,A)": lambda tn: tn.canonize_between("B", "A"),
    "canonize_between(A,B,absorb=left)": lambda tn: tn.canonize_between("A", "B", absorb="left"),
    "canonize_between(A,B,absorb=both)": lambda tn: tn.canonize_between("A", "B", absorb="both"),
    "canonize_between(B,C,absorb=both)": lambda tn: tn.canonize_between("B", "C", absorb="both"),
    "canonize_between(A,B,method=svd)": lambda tn: tn.canonize_between("A", "B", method="svd"),
    "compress_between(A,B,cutoff=0.0)": lambda tn: tn.compress_between("A", "B", cutoff=0.0),
    "compress_between(B,C,cutoff=0.0,reduced=False)": lambda tn: tn.compress_between("B", "C", cutoff=0.0, reduced=False),
    "compress_between(A,B,cutoff=0.0,absorb=left)": lambda tn: tn.compress_between("A", "B", cutoff=0.0, absorb="left"),
    "canonize_around(C)": lambda tn: tn.canonize_around("C"),
    "canonize_around(A,absorb=both)": lambda tn: tn.canonize_around("A", absorb="both"),
    "gauge_all_canonize": lambda tn: tn.gauge_all_canonize(),
    "gauge_all_canonize(absorb=both)": lambda tn: tn.gauge_all_canonize(absorb="both"),
    "compress_all(cutoff=0.0)": lambda tn: tn.compress_all(cutoff=0.0),
    "fuse_multibonds;squeeze": lambda tn: tn.fuse_multibonds().squeeze(),
    "equalize_norms(1.0)": lambda tn: tn.equalize_norms(1.0),
    "balance_bonds": lambda tn: tn.balance_bonds(),
}


@obligation(PROP, params=[{"op": o, "_tiers": _Q} for o in _GRADED_OPS], numeric=True, timeout_s=120)
def graded_data_no_silent_truncation(mk, op):
    """LABELLED NUMERIC-ONLY SUPPLEMENT (third round).  'Compression with no truncation' and every canonisation / gauging call
    made WITHOUT asking for truncation must not truncate: on a 3-chain A-B-C whose middle tensor has singular values (1, 1e-12)
    and whose last tensor amplifies the small direction by 1e12 (so the dense value depends on it at order one), the value over
    the outer labels is preserved and no bond shrinks.  Symbolic runs cannot see this: singular values are generic symbols there
    and a default relative cutoff of 1e-10 never bites (a truncating path found by the solver does not replay on random data and
    ends inconclusive); the magnitudes are the point here."""
    mk.encodes(tc.tensor_canonize_bond, tc.tensor_compress_bond, tc.TensorNetwork.canonize_between, tc.TensorNetwork.compress_between,
               tc.TensorNetwork.canonize_around, tc.TensorNetwork.gauge_all_canonize, tc.TensorNetwork.compress_all)
    if mk.sym:
        mk.note("numeric-only: magnitudes of singular values against default cutoffs")
        mk.same("numeric-only cell (symbolic run skipped)", True, True)
        return
    rng = np.random.default_rng(mk.rng.randint(0, 10 ** 6))
    U, _ = np.linalg.qr(rng.normal(size=(2, 2)))
    V, _ = np.linalg.qr(rng.normal(size=(2, 2)))
    A = rng.normal(size=(2, 2))
    B = U @ np.diag([1.0, 1e-12]) @ V.T
    C = V @ np.diag([1.0, 1e12]) @ rng.normal(size=(2, 2))
    tn = qtn.TensorNetwork([qtn.Tensor(A, ("a", "x"), tags="A"), qtn.Tensor(B, ("x", "y"), tags="B"), qtn.Tensor(C, ("y", "c"), tags="C")])
    want = A @ B @ C
    import warnings
    with warnings.catch_warnings():
        warnings.simplefilter("ignore")
        work = tn.copy()
        out = _GRADED_OPS[op](work)
        if out is None:            # canonize_between / compress_between work in place and return nothing
            out = work
    mk.eq(f"[numeric-only] {op}: dense value preserved on graded data (no silent truncation)",
          np.asarray(out.to_dense(("a",), ("c",))), want, tol=1e-3)
    mk.same(f"[numeric-only] {op}: no bond shrank", all(out.ind_size(ix) == 2 for ix in out.inner_inds()), True)
    mk.eq(f"[numeric-only] {op}: the caller's network is untouched", np.asarray(tn.to_dense(("a",), ("c",))), want, tol=1e-3)


_FLAG_OPS = {
    "isel(a=0)": lambda t: t.isel({"a": 0}),
    "isel(b=1)": lambda t: t.isel({"b": 1}),
    "isel(k=0)": lambda t: t.isel({"k": 0}),
    "isel(a=slice(0,1))": lambda t: t.isel({"a": slice(0, 1)}),
    "isel(b=slice(None))": lambda t: t.isel({"b": slice(None)}),
    "isel(k=slice(0,1))": lambda t: t.isel({"k": slice(0, 1)}),
    "isel(a=0,k=1)": lambda t: t.isel({"a": 0, "k": 1}),
    "squeeze": lambda t: t.squeeze(),
    "squeeze(exclude=a)": lambda t: t.squeeze(exclude=("a",)),
    "transpose(k,a,b)": lambda t: t.transpose("k", "a", "b"),
    "reindex(a->z)": lambda t: t.reindex({"a": "z"}),
    "reindex(k->z)": lambda t: t.reindex({"k": "z"}),
    "conj": lambda t: t.conj(),
    "H": lambda t: t.H,
    "copy": lambda t: t.copy(),
    "t * 2": lambda t: t * 2.0,
    "2 * t": lambda t: 2.0 * t,
    "t / 2": lambda t: t / 2.0,
    "-t": lambda t: -t,
    "t + t": lambda t: t + t,
    "multiply(3)": lambda t: t.multiply(3.0),
    "fuse(ab)": lambda t: t.fuse({"ab": ("a", "b")}),
    "fuse(bk)": lambda t: t.fuse({"bk": ("b", "k")}),
    "sum_reduce(a)": lambda t: t.sum_reduce("a"),
    "sum_reduce(k)": lambda t: t.sum_reduce("k"),
    "new_ind(z,2)": lambda t: t.new_ind("z", size=2),
    "new_ind_with_identity": lambda t: t.new_ind_with_identity("z", ("a",), ("y",)) if hasattr(t, "new_ind_with_identity") else None,
    "expand_ind(k,3)": lambda t: t.expand_ind("k", 3),
    "expand_ind(a,3)": lambda t: t.expand_ind("a", 3),
    "flip(a)": lambda t: t.flip("a"),
    "flip(k)": lambda t: t.flip("k"),
    "astype(complex128)": lambda t: t.astype("complex128"),
    "multiply_index_diagonal(k)": lambda t: t.multiply_index_diagonal("k", np.array([2.0, 3.0])[: t.ind_size("k")]),
    "multiply_index_diagonal(a)": lambda t: t.multiply_index_diagonal("a", np.array([2.0, 3.0])[: t.ind_size("a")]),
    "gate(k)": lambda t: t.gate(np.array([[1.0, 2.0], [0.5, -1.0]]), "k"),
    "gate(a)": lambda t: t.gate(np.array([[1.0, 2.0], [0.5, -1.0]]), "a"),
}


@obligation(PROP, params=[{"dims": dm, "_tiers": _Q if dm == (2, 2) else _T, "_mandatory": dm == (2, 2)} for dm in ((2, 2), (1, 3), (2, 1))],
            rounds=2, wall_s=280, timeout_s=360, max_rows=60000, exc_is_violation=False)
def isometry_flag_under_tensor_methods(mk, dims):
    """third round, promised form (iii) as ONE STEP from an arbitrary flagged isometry: Q[a,b,k] is the isometric factor of a
    real QR decomposition (flag left_inds=(a,b) set by the library, Q^T Q = I from the decomposition contract).  After every
    tensor-level method that returns a tensor -- selections and slices of left / right labels, squeeze, transposes, renames,
    conjugation, scalings, sums, fusions, reductions, new / expanded labels, flips, one-label gates -- a result that still
    carries left_inds must BE an isometry from exactly those labels (the flag is dropped or stays true), and its labels exist."""
    mk.encodes(tc.Tensor.isel, tc.Tensor.squeeze, tc.Tensor.transpose, tc.Tensor.reindex, tc.Tensor.conj, tc.Tensor.fuse, tc.Tensor.sum_reduce,
               tc.Tensor.new_ind, tc.Tensor.expand_ind, tc.Tensor.flip, tc.Tensor.astype, tc.Tensor.multiply_index_diagonal, tc.Tensor.gate,
               tc.Tensor.modify, tc.Tensor.normalize)
    da, db = dims
    T = qtn.Tensor(mk.array("T", (da, db, 2), "real"), ("a", "b", "c"), tags="T")
    Q, R = T.split(("a", "b"), method="qr", get="tensors", bond_ind="k")
    mk.same("the library flags the QR factor as an isometry from (a, b)", tuple(Q.left_inds or ()), ("a", "b"))
    iso_goal(mk, "premise: the flagged factor is an isometry (decomposition contract)", Q, ("a", "b"))
    ops = dict(_FLAG_OPS)
    ops["normalize"] = lambda t: t.normalize()
    for nm, f in ops.items():
        q = Q.copy()
        try:
            r = f(q)
        except (ValueError, KeyError, TypeError, IndexError, AttributeError, NotImplementedError) as e:
            mk.note(f"{nm}: rejected for dims {dims} ({type(e).__name__})")
            continue
        if not isinstance(r, qtn.Tensor):
            continue
        li = r.left_inds
        if li is None:
            mk.same(f"{nm}: flag dropped", True, True)
            continue
        li = tuple(li)
        mk.same(f"{nm}: left_inds {li} are labels of the result {r.inds}", set(li) <= set(r.inds), True)
        if set(li) <= set(r.inds):
            iso_goal(mk, f"{nm}: result still flagged over {li} is an isometry from those labels", r, li)


@obligation(PROP, params=[{"absorb": None, "then": th, "_tiers": _Q if th in ("rank", "resolve") else _T} for th in ("rank", "canonize", "resolve", "fullR", "eqn")],
            rounds=2, rounds2=3, wall_s=280, timeout_s=360, max_rows=60000)
def split_then_pass(mk, absorb, then):
    """a diagonal (singular value) tensor produced by a previous decomposition: Tensor.split(absorb=None)
    gives a network whose bond carries the values as a vector on a hyper index; that network is fed
    to a second rewrite"""
    mk.encodes(tc.tensor_split, tc.TensorNetwork.rank_simplify, tc.TensorNetwork.diagonal_reduce, tc.TensorNetwork.hyperinds_resolve,
               tc.TensorNetwork.full_simplify, tc.TensorNetwork.equalize_norms)
    T = qtn.Tensor(mk.array("T", (2, 2, 2), "real"), "abc", tags="T")
    W = qtn.Tensor(mk.array("W", (2, 2), "real"), "cd", tags="W")
    sub = T.split(("a",), absorb=None, cutoff=0.0, bond_ind="k")
    tn = qtn.TensorNetwork([sub, W])
    e = mk.scalar("e", "real")
    tn.exponent = e if mk.sym else float(e)
    out = ("a", "b", "d")
    sizes = dict(a=2, b=2, d=2)
    want = ref.sum_of_products([(T.data, T.inds), (W.data, W.inds)], out) * (10 ** tn.exponent)
    check_value(mk, "Tensor.split(absorb=None) inside a network", tn, out, want, sizes)
    if then == "rank":
        t2 = tn.rank_simplify(output_inds=out)
    elif then == "canonize":
        t2 = tn.gauge_all_canonize(max_iterations=1)
    elif then == "resolve":
        t2 = tn.hyperinds_resolve(output_inds=out)
    elif then == "fullR":
        t2 = tn.full_simplify("R", output_inds=out)
    else:
        t2 = tn.equalize_norms(1.0)
    check_value(mk, f"split(absorb=None) ; {then}", t2, out, want, sizes)
    check_flags(mk, f"split(absorb=None) ; {then}", t2)


@obligation(PROP, params=[{"geom": g, "op": o} for g in ("pair", "chain3") for o in ("canonize_right", "canonize_left", "compress_right", "around")],
            tiers=_T, rounds=2, rounds2=3, wall_s=280, timeout_s=360, max_rows=60000)
def complex_entries(mk, geom, op):
    """QR / SVD based rewrites on COMPLEX symbolic entries (conj-pair symbols, complex stub factors)"""
    mk.encodes(tc.tensor_canonize_bond, tc.tensor_compress_bond, tc.TensorNetwork.canonize_around)
    tn, sizes, out = build(mk, geom, kind="cplx")
    want = dense(tn, out)
    t2 = tn.copy()
    if op == "canonize_right":
        t2.canonize_between("A", "B")
    elif op == "canonize_left":
        t2.canonize_between("A", "B", absorb="left")
    elif op == "compress_right":
        t2.compress_between("A", "B", cutoff=0.0, absorb="right", reduced=False)
    else:
        t2.canonize_around_("A")
    check_value(mk, f"{op} (complex)", t2, out, want, sizes)
    check_flags(mk, f"{op} (complex)", t2)


@obligation(PROP, params=[{"geom": "pair", "opt": o, "_tiers": _Q if o == "canonize_eqn1" else _T}
                          for o in ("canonize_eqn1", "canonize_eqnTrue", "simple_eqnTrue")],
            rounds=2, wall_s=280, timeout_s=360, max_rows=20000)
def gauge_local_equalize(mk, geom, opt):
    """gauge_local(tags, method=..., equalize_norms=...): the option is forwarded to gauge_all_canonize /
    gauge_all_simple running on a *virtual* sub-network; the factors they strip must end up in the
    network the user holds (value over the same labels, including its exponent)"""
    mk.encodes(tc.TensorNetwork.gauge_local, tc.TensorNetwork._gauge_local_tids, tc.TensorNetwork._select_local_tids,
               tc.TensorNetwork.gauge_all_canonize, tc.TensorNetwork.gauge_all_simple, tc.TensorNetwork.strip_exponent)
    tn, sizes, out = build(mk, geom, kind="real")
    want = dense(tn, out)
    kw = {"canonize_eqn1": dict(method="canonize", max_distance=1, equalize_norms=1.0),
          "canonize_eqnTrue": dict(method="canonize", max_distance=1, equalize_norms=True),
          "simple_eqnTrue": dict(method="simple", max_distance=1, smudge=0.0, equalize_norms=True)}[opt]
    t2 = tn.gauge_local("A", **kw)
    lab = f"gauge_local('A', {kw})"
    check_value(mk, lab, t2, out, want, sizes)
    check_flags(mk, lab, t2)


GEOMS["hyperbond"] = ([("A", "axh"), ("B", "xhb"), ("C", "hc")], dict(a=2, b=2, c=2, x=2, h=2), "abc")


@obligation(PROP, params=[{"op": o, "_tiers": _Q if o in ("gauge_all_canonize", "fuse_multibonds") else _T}
                          for o in ("gauge_all_canonize", "gauge_all_simple", "compress_all", "fuse_multibonds", "rank_simplify", "pair_simplify_")],
            rounds=2, wall_s=280, timeout_s=360, max_rows=20000)
def hyper_shared_pair(mk, op):
    """two tensors that share an ordinary bond x AND a hyper index h (h also sits on a third tensor):
    the sweeps that document skipping labels 'not on exactly two tensors' must keep the value (the
    pairwise fusing of *all* shared labels must not swallow h)"""
    mk.encodes(tc.TensorNetwork.gauge_all_canonize, tc.TensorNetwork.gauge_all_simple, tc.TensorNetwork.compress_all,
               tc.tensor_make_single_bond, tc.tensor_multifuse, tc.group_inds, tc.TensorNetwork.fuse_multibonds)
    tn, sizes, out = build(mk, "hyperbond", kind="real")
    want = dense(tn, out)
    if op == "gauge_all_canonize":
        t2 = tn.gauge_all_canonize(max_iterations=1)
    elif op == "gauge_all_simple":
        t2 = tn.gauge_all_simple(max_iterations=1, smudge=0.0)
    elif op == "compress_all":
        t2 = tn.compress_all(cutoff=0.0, canonize=False)
    elif op == "fuse_multibonds":
        t2 = tn.fuse_multibonds()
    elif op == "rank_simplify":
        t2 = tn.rank_simplify(output_inds=out)
    else:
        t2 = tn.copy()
        t2.pair_simplify_(cutoff=0.0, output_inds=out)
    check_value(mk, f"{op} on a pair sharing a bond and a hyper index", t2, out, want, sizes)
    check_flags(mk, f"{op} on a pair sharing a bond and a hyper index", t2)


@obligation(PROP, params=[{"method": m, "_tiers": _Q if m == "qr" else _T} for m in ("qr", "svd", "mgs")],
            rounds=2, rounds2=3, wall_s=250, timeout_s=330, max_rows=60000)
def isometrize_flagged(mk, method):
    """TensorNetwork.isometrize on tensors carrying left_inds (here: arbitrary tensors flagged by hand):
    the promised form - every flagged tensor is an isometry from its left_inds afterwards; unflagged
    tensors are rejected unless allow_no_left_inds"""
    mk.encodes(tc.TensorNetwork.isometrize, tc.Tensor.isometrize)
    tn, sizes, out = build(mk, "chain3", kind="real")
    mk.raises("isometrize() with an unflagged tensor is rejected", lambda: tn.isometrize(method=method), (ValueError,))
    t1 = tn.copy()
    t1["A"].modify(left_inds=("a",))
    t1["B"].modify(left_inds=("b", "y"))
    t2 = t1.isometrize(method=method, allow_no_left_inds=True)
    mk.same("isometrize: labels unchanged", [set(t.inds) for t in t2], [set(t.inds) for t in tn])
    mk.same("isometrize: flags kept", [t.left_inds for t in t2], [("a",), ("b", "y"), None])
    check_flags(mk, f"isometrize(method={method})", t2)
    mk.eq("isometrize: unflagged tensor untouched", t2["C"].transpose(*tn["C"].inds).data, tn["C"].data)


# ====================================================================== M. gauge dictionaries on size-1 bonds / multibonds holding one

# size-1 bonds carrying a (non-unit) simple-update weight: raw singular values stored with renorm=False, user weights
GEOMS["one2"] = ([("A", "as"), ("B", "sb")], dict(a=2, b=3, s=1), "ab")
GEOMS["oneone2"] = ([("A", "ast"), ("B", "stb")], dict(a=2, b=2, s=1, t=1), "ab")
GEOMS["onemulti2"] = ([("A", "axs"), ("B", "xsb")], dict(a=2, b=2, x=2, s=1), "ab")
GEOMS["one3"] = ([("A", "as"), ("B", "sby"), ("C", "yc")], dict(a=2, b=2, c=2, s=1, y=2), "abc")
GEOMS["oneone3"] = ([("A", "ast"), ("B", "stby"), ("C", "yc")], dict(a=2, b=2, c=2, s=1, t=1, y=2), "abc")
GEOMS["onemulti3"] = ([("A", "axs"), ("B", "xsby"), ("C", "ytc"), ("D", "td")], dict(a=2, b=2, c=2, d=2, x=2, s=1, y=2, t=1), "abcd")

_G1_OPS = {
    # LAPACK-free
    "fuse_squeeze": "free", "fuse_squeeze_BA": "free", "fuse_nosqueeze": "free", "make_single_bond": "free",
    "fuse_multibonds": "free", "fuse_multibonds_": "free", "fuse_then_fuse_squeeze": "free", "squeeze_all_pairs": "free",
    "insert_squeeze_remove": "free",
    # QR / SVD based
    "simple_bond_then_squeeze": "lapack", "compress_all": "lapack", "compress_all_simple": "lapack", "gauge_all_simple": "lapack",
    "compress_between": "lapack", "canonize_between": "lapack", "contract_compressed": "lapack", "contract_around": "lapack",
}


def _g1_params():
    out = []
    for g in ("one2", "oneone2", "onemulti2", "one3", "oneone3", "onemulti3"):
        for o, kind in _G1_OPS.items():
            two = g.endswith("2")
            if kind == "lapack" and not two and o not in ("simple_bond_then_squeeze", "contract_compressed", "canonize_between"):
                continue            # several SVD contracts on three / four tensors: beyond the certificate budget
            if o == "compress_all" and g != "one2":
                continue            # multibonds: see compress_all_gauges_multibond (own obligation)
            if (g, o) == ("onemulti3", "simple_bond_then_squeeze"):
                continue
            quick = (kind == "free" and g in ("one3", "oneone2", "onemulti3", "one2")) or \
                    (g, o) in {("one2", "simple_bond_then_squeeze"), ("one2", "compress_all"), ("oneone2", "compress_all_simple"),
                               ("one2", "gauge_all_simple"), ("onemulti2", "compress_between"), ("one2", "canonize_between"),
                               ("one3", "contract_compressed"), ("oneone2", "contract_compressed"), ("one3", "simple_bond_then_squeeze")}
            out.append({"geom": g, "op": o, "_tiers": _Q if quick else _T,
                        "_mandatory": kind == "free" or two})
    return out


@obligation(PROP, params=_g1_params(), rounds=2, rounds2=3, wall_s=200, timeout_s=280, max_rows=40000)
def gauged_size1_bonds(mk, geom, op):
    """every rewrite that takes a simple-update gauge dictionary and may fuse or squeeze, on networks with
    a size-1 bond (alone, doubled, or inside a multibond) that carries an arbitrary positive weight:
    the (network, gauges) pair - the network with every stored weight re-absorbed - denotes the same
    tensor before and after; gauge keys stay labels of the network, gauge sizes stay the label sizes"""
    mk.encodes(tc.tensor_fuse_squeeze, tc.tensor_make_single_bond, tc.tensor_multifuse, tc.TensorNetwork.fuse_multibonds,
               tc.tensor_gauge_simple_bond, tc.TensorNetwork.compress_all, tc.TensorNetwork.compress_all_simple,
               tc.TensorNetwork.gauge_all_simple, tc.TensorNetwork._compress_between_tids, tc.tensor_compress_bond,
               tc.tensor_canonize_bond, tc.TensorNetwork.gauge_simple_insert, tc.TensorNetwork.gauge_simple_remove,
               tc.TensorNetwork.contract_compressed, tc.TensorNetwork._contract_compressed_tid_sequence)
    lapack = _G1_OPS[op] == "lapack"
    tn, sizes, out = build(mk, geom, kind="real" if lapack else "cplx")
    inner = [ix for ix in tn.ind_map if ix not in out]
    gauges = _gauges_for(mk, tn, inner)
    want = dense_gauged(tn, out, gauges)
    t2 = tn.copy()
    g2 = dict(gauges)
    ta, tb = t2["A"], t2["B"]
    scalar = None
    try:
        if op == "fuse_squeeze":
            tc.tensor_fuse_squeeze(ta, tb, gauges=g2)
        elif op == "fuse_squeeze_BA":
            tc.tensor_fuse_squeeze(tb, ta, gauges=g2)
        elif op == "fuse_nosqueeze":
            tc.tensor_fuse_squeeze(ta, tb, squeeze=False, gauges=g2)
        elif op == "make_single_bond":
            tc.tensor_make_single_bond(ta, tb, gauges=g2)
        elif op == "fuse_multibonds":
            t2 = tn.fuse_multibonds(gauges=g2)
        elif op == "fuse_multibonds_":
            t2.fuse_multibonds_(gauges=g2)
        elif op == "fuse_then_fuse_squeeze":
            t2.fuse_multibonds_(gauges=g2)
            tc.tensor_fuse_squeeze(ta, tb, gauges=g2)
        elif op == "squeeze_all_pairs":
            # what the compressed contraction does before every step: fuse + squeeze every neighbouring pair
            for tid in list(t2.tensor_map):
                for tid_n in list(t2._get_neighbor_tids(tid)):
                    tc.tensor_fuse_squeeze(t2.tensor_map[tid], t2.tensor_map[tid_n], gauges=g2)
        elif op == "insert_squeeze_remove":
            # absorb the gauges, squeeze the size-1 bonds of the plain network, nothing left to re-absorb
            t2.gauge_simple_insert(g2, remove=True)
            t2.squeeze_(exclude=out)
        elif op == "simple_bond_then_squeeze":
            # the raw (unnormalised) singular values stored by the simple-update step are the weight of the bond
            g2 = {k: v for k, v in g2.items() if k not in ta.inds or k not in tb.inds}
            want = dense_gauged(tn, out, g2)
            tc.tensor_gauge_simple_bond(ta, tb, g2, smudge=0.0)
            mk.eq(f"{op}: (network, gauges) after tensor_gauge_simple_bond(renorm=False)",
                  dense_gauged(t2, out, {k: v for k, v in g2.items() if k in t2.ind_map}), want)
            tc.tensor_fuse_squeeze(ta, tb, gauges=g2)
        elif op == "compress_all":
            t2 = tn.compress_all(cutoff=0.0, canonize=False, gauges=g2, gauge_smudge=0.0)
        elif op == "compress_all_simple":
            t2 = tn.compress_all_simple(cutoff=0.0, max_iterations=1, smudge=0.0, gauges=g2)
        elif op == "gauge_all_simple":
            t2 = tn.gauge_all_simple(max_iterations=1, smudge=0.0, gauges=g2)
        elif op == "compress_between":
            t2.compress_between("A", "B", cutoff=0.0, gauges=g2, gauge_smudge=0.0)
        elif op == "canonize_between":
            t2.canonize_between("A", "B", gauges=g2, gauge_smudge=0.0)
        elif op in ("contract_compressed", "contract_around"):
            # a finite bond cap that never truncates here: the fuse / squeeze bookkeeping runs, the gauges are
            # re-absorbed at the end; the result is the plain gauged value
            if op == "contract_compressed":
                r = tn.contract_compressed(optimize="greedy", max_bond=64, cutoff=0.0, gauges=g2, output_inds=out,
                                           tree_gauge_distance=0, gauge_smudge=0.0)
            else:
                r = tn.contract_around("A", max_bond=64, cutoff=0.0, gauges=g2, tree_gauge_distance=0, gauge_smudge=0.0)
            if isinstance(r, qtn.TensorNetwork):
                t2, g2 = r, {}
            elif isinstance(r, qtn.Tensor):
                t2, g2 = qtn.TensorNetwork([r]), {}
                t2.exponent = 0.0
            else:
                scalar = r
    except P.Unsupported as e:
        raise Skip(f"{op}: {e}")
    lab = f"{op} with gauges on {inner}"
    if scalar is not None:
        mk.eq(f"{lab}: gauged value", scalar, want)
        return
    keys_ok = set(g2) <= set(t2.ind_map)
    mk.same(f"{lab}: remaining gauge keys are labels of the network", keys_ok, True)
    if keys_ok:
        mk.same(f"{lab}: gauge sizes are the label sizes", all(len(np.asarray(v).reshape(-1)) == t2.ind_size(k) for k, v in g2.items()), True)
    mk.same(f"{lab}: outer labels", all(o in t2.ind_map and t2.ind_size(o) == sizes[o] for o in out), True)
    mk.same(f"{lab}: no new dangling label", set(t2.outer_inds()) <= set(out), True)
    if op in ("contract_compressed", "contract_around"):
        # the exponent of the receiver is part of the value
        mk.eq(f"{lab}: result == gauged value of the receiver", dense(t2, out), want)
    else:
        mk.eq(f"{lab}: (network, gauges) denotes the same tensor",
              dense_gauged(t2, out, {k: np.asarray(v).reshape(-1) for k, v in g2.items() if k in t2.ind_map}), want)
    if op.startswith("fuse_squeeze") or op in ("fuse_then_fuse_squeeze", "squeeze_all_pairs", "simple_bond_then_squeeze"):
        sh = [ix for ix in t2["A"].inds if ix in t2["B"].inds]
        mk.same(f"{lab}: at most one label joins A and B, none of size 1", (len(sh) <= 1, [ix for ix in sh if t2.ind_size(ix) == 1]), (True, []))


@obligation(PROP, params=[{"geom": g} for g in ("oneone2", "onemulti2", "multi")], tiers=_T, mandatory=False, rounds=2, wall_s=200, timeout_s=280,
            max_rows=15000, exc_is_violation=True, allow_exc=(P.Unsupported,))
def compress_all_gauges_multibond(mk, geom):
    """compress_all(..., gauges=dict) (the option is forwarded to every compress_between / tensor_compress_bond,
    which document it) on a network with a multibond: compress_all fuses the multibonds first - the gauge
    dictionary must follow (as fuse_multibonds(gauges=) / compress_between(gauges=) do)"""
    mk.encodes(tc.TensorNetwork.compress_all, tc.TensorNetwork.fuse_multibonds, tc.TensorNetwork._compress_between_tids, tc.tensor_multifuse)
    tn, sizes, out = build(mk, geom, kind="real")
    inner = [ix for ix in tn.ind_map if ix not in out]
    gauges = _gauges_for(mk, tn, inner)
    want = dense_gauged(tn, out, gauges)
    g2 = dict(gauges)
    t2 = tn.compress_all(cutoff=0.0, canonize=False, gauges=g2, gauge_smudge=0.0)
    lab = f"compress_all(cutoff=0.0, canonize=False, gauges on {inner})"
    keys_ok = set(g2) <= set(t2.ind_map)
    mk.same(f"{lab}: remaining gauge keys are labels of the network", keys_ok, True)
    mk.eq(f"{lab}: (network, gauges) denotes the same tensor",
          dense_gauged(t2, out, {k: v for k, v in g2.items() if k in t2.ind_map and len(v) == t2.ind_size(k)}), want)


# ====================================================================== N. requested outputs that are also bonds (hyper outputs)

# networks on which each pass FIRES and a requested output label is at the same time a bond: shared by exactly the two
# tensors of a pair / by tensors of a loop / by a structured tensor and its neighbour (what diagonal_reduce leaves behind)
HO_GEOMS = {
    "ho_pair": ([("A", "ahx", "g"), ("B", "xhb", "g")], dict(a=2, b=2, h=2, x=3), "abh"),
    "ho_multi": ([("A", "ahxy", "g"), ("B", "xyhb", "g")], dict(a=2, b=2, h=2, x=2, y=2), "abh"),
    "ho_pair3": ([("A", "ahx", "g"), ("B", "xhby", "g"), ("C", "yc", "g")], dict(a=2, b=2, c=2, h=2, x=3, y=2), "abch"),
    "ho_chain": ([("A", "ah", "g"), ("B", "hby", "g"), ("C", "yc", "g")], dict(a=2, b=2, c=2, h=2, y=2), "abch"),
    "ho_only": ([("A", "hx", "g"), ("B", "xh", "g")], dict(h=2, x=3), "h"),
    "ho_loop": ([("A", "axz", "g"), ("B", "xby", "g"), ("C", "yz", "g")], dict(a=2, b=2, x=2, y=2, z=2), "abx"),
    "ho_loop2": ([("A", "axz", "g"), ("B", "xby", "g"), ("C", "yz", "g")], dict(a=2, b=2, x=2, y=2, z=2), "abxz"),
    "ho_diag": ([("A", "ah", "g"), ("D", "hy", "d01"), ("B", "yb", "g")], dict(a=2, b=2, h=2, y=2), "abh"),
    "ho_diag2": ([("A", "ay", "g"), ("D", "yh", "d01"), ("B", "hb", "g")], dict(a=2, b=2, h=2, y=2), "abh"),
    "ho_anti": ([("A", "ah", "g"), ("X", "hy", "x01"), ("B", "yb", "g")], dict(a=2, b=2, h=2, y=2), "abh"),
    "ho_anti2": ([("A", "ay", "g"), ("X", "yh", "x01"), ("B", "hb", "g")], dict(a=2, b=2, h=2, y=2), "abh"),
    "ho_col": ([("A", "ah", "g"), ("V", "hy", "c1=1"), ("B", "yb", "g")], dict(a=2, b=2, h=2, y=2), "abh"),
    "ho_col0": ([("A", "ah", "g"), ("V", "hy", "c0=1"), ("B", "yb", "g")], dict(a=2, b=2, h=2, y=2), "abh"),
    "ho_copy": ([("A", "ax", "g"), ("K", "xhz", "copy", 1), ("B", "hb", "g"), ("C", "zc", "g")], dict(a=2, b=2, c=2, x=2, h=2, z=2), "abch"),
}
SGEOMS.update(HO_GEOMS)

# pass -> networks on which it fires (others: must leave the value alone all the same)
_HO_FIRES = {
    "R": ["ho_pair", "ho_chain", "ho_loop", "ho_only", "ho_diag", "ho_copy", "ho_pair3"],
    "D": ["ho_diag", "ho_diag2", "ho_copy", "ho_pair"],
    "A": ["ho_anti", "ho_anti2", "ho_pair"],
    "C": ["ho_col", "ho_col0", "ho_pair"],
    "S": ["ho_pair", "ho_chain"],
    "P": ["ho_pair", "ho_multi", "ho_pair3", "ho_only", "ho_chain", "ho_diag"],
    "L": ["ho_loop", "ho_loop2", "ho_pair"],
    "F:ADCR": ["ho_diag", "ho_anti", "ho_col", "ho_copy", "ho_pair"],
    "F:ADCRP": ["ho_pair", "ho_diag"],
    "F:P": ["ho_pair", "ho_multi"],
    "F:PR": ["ho_pair", "ho_pair3"],
    "F:RPL": ["ho_loop", "ho_pair3"],
    "F:DP": ["ho_diag2", "ho_pair"],
    "F:L": ["ho_loop"],
    "F:ADCRSLP": ["ho_pair", "ho_loop"],
    "compress_simplify": ["ho_pair", "ho_diag", "ho_loop"],
}
_HO_QUICK = {("R", "ho_pair"), ("R", "ho_chain"), ("R", "ho_loop"), ("D", "ho_diag"), ("D", "ho_diag2"), ("D", "ho_copy"), ("A", "ho_anti"),
             ("A", "ho_anti2"), ("C", "ho_col"), ("C", "ho_col0"), ("S", "ho_pair"), ("P", "ho_pair"), ("P", "ho_multi"), ("P", "ho_only"),
             ("L", "ho_loop"), ("L", "ho_loop2"), ("F:ADCR", "ho_diag"), ("F:ADCR", "ho_copy"), ("F:ADCRP", "ho_pair"),
             ("F:P", "ho_multi"), ("F:PR", "ho_pair"), ("F:RPL", "ho_loop"), ("F:DP", "ho_diag2"), ("F:L", "ho_loop"),
             ("compress_simplify", "ho_pair"), ("compress_simplify", "ho_diag"), ("R", "ho_only")}


@obligation(PROP, params=[{"p": p, "geom": g, "_tiers": _Q if (p, g) in _HO_QUICK else _T,
                           "_mandatory": not (p in ("F:ADCRSLP", "F:RPL") or (p, g) in {("P", "ho_pair3"), ("F:PR", "ho_pair3")})}
                          for p, gs in _HO_FIRES.items() for g in gs],
            rounds=2, rounds2=3, max_paths=300, wall_s=200, timeout_s=280, max_rows=40000, exc_is_violation=True, allow_exc=(P.Unsupported,))
def hyper_output_pass(mk, p, geom):
    """every simplification pass that accepts `output_inds` (rank_simplify, diagonal_reduce, antidiag_gauge,
    column_reduce, pair_simplify, loop_simplify, full_simplify with several sequences, compress_simplify; and
    split_simplify, which takes none), called with EXPLICIT outputs that contain a label which is also a bond
    (a hyper output), on networks where the pass fires: the tensor over exactly the requested labels is kept,
    every requested label survives with its size, plain and in-place spellings"""
    mk.encodes(tc.TensorNetwork.rank_simplify, tc.TensorNetwork.diagonal_reduce, tc.TensorNetwork.antidiag_gauge,
               tc.TensorNetwork.column_reduce, tc.TensorNetwork.split_simplify, tc.TensorNetwork.pair_simplify,
               tc.TensorNetwork.loop_simplify, tc.TensorNetwork.full_simplify, tc.TensorNetwork.compress_simplify,
               tc.TensorNetwork.compute_contracted_inds, tc.tensor_fuse_squeeze)
    if p == "compress_simplify" and mk.sym:
        mk.note("numeric-only: compress_simplify truncates with atol=1e-6 and sorts by a hierarchical clustering of the data")
        mk.same("numeric-only cell", True, True)
        return
    tn, sizes, out = sbuild(mk, geom, kind="pos" if mk.sym else "real")
    want = dense(tn, out)
    before = shape_summary(tn)
    if p == "compress_simplify":
        t2 = tn.compress_simplify(output_inds=out, atol=1e-10)
        check_value(mk, "compress_simplify(output_inds=hyper outputs)", t2, out, want, sizes)
        return
    name = {"R": "rank_simplify", "D": "diagonal_reduce", "A": "antidiag_gauge", "C": "column_reduce", "S": "split_simplify",
            "P": "pair_simplify", "L": "loop_simplify"}.get(p, "full_simplify")
    t2 = apply_pass(tn, p, out, atol=0.0)
    lab = f"{name}{'(' + repr(p[2:]) + ')' if p.startswith('F:') else ''} with output_inds={out}"
    mk.note(f"{geom}: {lab} (tensors, indices, entries) {before} -> {shape_summary(t2)}")
    check_value(mk, lab, t2, out, want, sizes)
    check_flags(mk, lab, t2)
    # in-place spelling, outputs given as a list in another order
    t3 = tn.copy()
    oo = list(reversed(out))
    if p.startswith("F:"):
        r = t3.full_simplify_(p[2:], output_inds=oo, atol=0.0)
    elif p == "S":
        r = t3.split_simplify_(atol=0.0)
    elif p in ("P", "L"):
        r = getattr(t3, name + "_")(output_inds=oo, cutoff=0.0)
    elif p == "R":
        r = t3.rank_simplify_(output_inds=oo)
    else:
        r = getattr(t3, name + "_")(output_inds=oo, atol=0.0)
    mk.same(f"{lab}: the in-place spelling returns the network itself", r is t3, True)
    check_value(mk, lab + " (in place, reversed list)", t3, out, want, sizes)
    # the result fed to a second pass with the same outputs
    if not p.startswith("F:"):
        for q in ("R", "P") if p != "P" else ("R", "D"):
            try:
                t4 = apply_pass(t2, q, out, atol=0.0)
            except P.Unsupported as e:
                mk.note(f"skipped: {p} ; {q}: {e}")
                continue
            check_value(mk, f"{lab} ; then {q}", t4, out, want, sizes)


# ====================================================================== cells beyond the certificate budget
# Cells of the option grids above whose certificates (two QR + one SVD contract per bond, several bonds per
# sweep) were not found within the per-obligation budget (Q-CERT 'unknown' / CPU timeout) in the build run.
# They are demoted to clearly labelled NUMERIC-ONLY supplements: the symbolic pass only records the note, the
# same harness runs on random float data against the independent reference (required to succeed).  The
# operations themselves are certified symbolically on the smaller networks ('pair', 'pairwide', 'chain3').
_UNREACHED = {
    "bond_with_gauges[geom=multi,pair=AB,fn=compress,smudge=0.0]",
    "bond_with_gauges[geom=multi,pair=AB,fn=compress,smudge=1e-06]",
    "bond_with_gauges[geom=tri,pair=AB,fn=compress,smudge=1e-06]",
    "canonize_around[geom=chain3,tag=A,opt=both]",
    "canonize_around[geom=chain3,tag=B,opt=both]",
    "canonize_around[geom=chain3d3,tag=C,opt=both]",
    "canonize_around[geom=dim1,tag=A,opt=both]",
    "canonize_around[geom=multi,tag=C,opt=both]",
    "canonize_around[geom=ring4,tag=A,opt=both]",
    "canonize_around[geom=ring4,tag=A,opt=links]",
    "canonize_around[geom=star4,tag=A,opt=both]",
    "canonize_around[geom=star4,tag=A,opt=left]",
    "canonize_around[geom=star4,tag=B,opt=both]",
    "canonize_around[geom=tri,tag=A,opt=both]",
    "compress_all[geom=chain3,opt=1d_nocanon]",
    "compress_all[geom=chain3,opt=all_basic]",
    "compress_all[geom=chain3,opt=all_basic_d1]",
    "compress_all[geom=chain3,opt=all_maxbond]",
    "compress_all[geom=chain3,opt=simple]",
    "compress_all[geom=chain3,opt=tree]",
    "compress_all[geom=chain3d3,opt=1d_nocanon]",
    "compress_all[geom=chain3d3,opt=between_eqn]",
    "compress_all[geom=chain3d3,opt=tree]",
    "compress_all[geom=multi,opt=1d_nocanon]",
    "compress_all[geom=multi,opt=between_eqn]",
    "compress_all[geom=multi,opt=tree]",
    "compress_all[geom=pair,opt=all_basic_d1]",
    "compress_all[geom=pair,opt=all_default]",
    "compress_all[geom=pairwide,opt=all_basic_d1]",
    "compress_all[geom=tri,opt=1d_nocanon]",
    "compress_all[geom=tri,opt=tree]",
    "compress_bond[geom=multi,pair=AB,opt=default]",
    "gauge_all[geom=chain3,opt=canonize2]",
    "gauge_all[geom=chain3,opt=canonize]",
    "gauge_all[geom=chain3,opt=canonize_eqn1]",
    "gauge_all[geom=chain3,opt=canonize_eqn]",
    "gauge_all[geom=chain3,opt=simple]",
    "gauge_all[geom=chain3,opt=simple_eqn]",
    "gauge_all[geom=chain3,opt=simple_power]",
    "gauge_all[geom=chain3,opt=simple_smudge]",
    "gauge_all[geom=hyper3,opt=canonize2]",
    "gauge_all[geom=multi,opt=canonize2]",
    "gauge_all[geom=multi,opt=canonize]",
    "gauge_all[geom=multi,opt=canonize_eqn1]",
    "gauge_all[geom=multi,opt=canonize_eqn]",
    "gauge_all[geom=multi,opt=simple]",
    "gauge_all[geom=multi,opt=simple_eqn]",
    "gauge_all[geom=multi,opt=simple_nofuse]",
    "gauge_all[geom=multi,opt=simple_power]",
    "gauge_all[geom=multi,opt=simple_smudge]",
    "gauge_all[geom=pair,opt=canonize2]",
    "gauge_all[geom=tri,opt=canonize2]",
    "gauge_all[geom=tri,opt=canonize]",
    "gauge_all[geom=tri,opt=canonize_eqn1]",
    "gauge_all[geom=tri,opt=canonize_eqn]",
    "gauge_all[geom=tri,opt=simple]",
    "gauge_all[geom=tri,opt=simple_eqn]",
    "gauge_all[geom=tri,opt=simple_power]",
    "gauge_all[geom=tri,opt=simple_smudge]",
    "gauge_all_simple_tracked[geom=chain3,start=given]",
    "gauge_all_simple_tracked[geom=chain3,start=none]",
    "gauge_all_simple_tracked[geom=multi,start=given]",
    "gauge_all_simple_tracked[geom=multi,start=none]",
    "gauge_local[geom=tri,opt=canonize]",
    "gauge_local[geom=tri,opt=simple]",
}


def _numeric_only(fn):
    def wrapped(mk, **kw):
        if mk.sym:
            mk.note("numeric-only: certificate for this (geometry, option) cell is beyond the budget; checked on random float data")
            mk.same("numeric-only cell", True, True)
            return
        return fn(mk, **kw)
    wrapped.__name__ = fn.__name__
    wrapped.__doc__ = fn.__doc__
    return wrapped


from qv import harness as _H
for _ob in _H.REGISTRY[PROP]:
    if _ob.name in _UNREACHED:
        _ob.fn = _numeric_only(_ob.fn)
        _ob.opts = dict(_ob.opts, numeric_required=True)
META["outside"].append(f"{len(_UNREACHED)} (geometry, option) cells of canonize_around(absorb='both' / gauge_links on ring4), gauge_all(canonize / simple) "
                       "beyond two tensors, compress_all* beyond two tensors, tensor_compress_bond with gauges on multibonds / loops: "
                       "certificates not found within the budget -> numeric-only supplements (listed in props/c04.py:_UNREACHED); the operations "
                       "are certified symbolically on the two-tensor networks and, for single bonds, on every geometry")
