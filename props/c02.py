"""C02 - network index / tag / ownership maps stay exact under any mutation history.

The *labels* are symbolic: an index or tag label is a `str` subclass whose equality is decided
by the solver (engine SX), with a constant hash, so every dict / oset lookup inside the real
TensorNetwork code forks on "are these two labels the same string?".  Each scenario program
(<= 4 public operations on <= 3 tensors in <= 3 networks) is therefore executed once per
consistent aliasing pattern of its labels (up to Bell(n) patterns), including the patterns no
hand-written test uses: a label repeated on one tensor, a rename onto a label that already
exists, an outer label of one network equal to an inner label of the other.  After every step
an oracle re-scans the tensors and compares with the library's lookup structures.
"""
import gc
import itertools
import pickle

import numpy as np

import quimb.tensor as qtn
from quimb.tensor import tensor_core as tc
from quimb.utils import oset

from qv import sx
from qv.harness import obligation, Skip

PROP = "C02"
META = {
    "bounds": {
        "quick": {"labels": "<= 6 symbolic index labels + <= 3 symbolic tags per scenario", "tensors": "<= 3 (rank <= 2, all dims 2)",
                  "networks": "<= 3 (copies, virtual views, combinations)", "history": "<= 4 operations", "scenarios": "hand-picked + all ordered pairs of the core vocabulary"},
        "thorough": {"history": "all ordered triples of the core vocabulary on the two-tensor start state"},
    },
    "outside": ["labels manipulated as strings by the library (site-tag formatting / regular expressions): plain concrete tags are used there",
                "symbolic labels never alias concrete strings (different hash)", "histories longer than 4", "structured 1D/2D/3D subclasses",
                "tensor data (all ones): C02 is about bookkeeping"],
    "assumptions": ["CPython dict / set semantics: keys with equal hash are compared with ==",
                    "for a label repeated on ONE tensor the statement does not define inner/outer: the answer of the library's own fresh constructor on the same tensors is demanded"],
}


def T(inds, tags=()):
    return qtn.Tensor(np.ones((2,) * len(inds)), tuple(inds), tags=tags)


# ---------------------------------------------------------------------- oracle

def scan(tn):
    imap, tmap = {}, {}
    for tid, t in tn.tensor_map.items():
        for ix in t.inds:
            imap.setdefault(ix, set()).add(tid)
        for tg in t.tags:
            tmap.setdefault(tg, set()).add(tid)
    return imap, tmap


def as_plain(m):
    return {k: set(v) for k, v in m.items()}


_REP = [False]


def verify(mk, nets, tag):
    """nets: dict name -> live TensorNetwork"""
    live = {id(n): n for n in nets.values()}
    for name, tn in nets.items():
        imap, tmap = scan(tn)
        # known finding: a modify / reindex step executed while some tensor carries a label repeated on itself
        # (the step creates, removes or renames such a repetition) updates the owners through label sets; goals
        # after such a step (and for the rest of that history, the stale state persists) carry a marker.  Repetitions that exist from the start, or that
        # are met by pop / add / copy / combine steps, are NOT marked: there the library must be exact.
        R = " [repeated-label-history]" if _REP[0] else ""
        mk.same(f"{tag}: {name}.ind_map == fresh scan", as_plain(tn.ind_map), imap)
        mk.same(f"{tag}: {name}.tag_map == fresh scan", as_plain(tn.tag_map), tmap)
        fresh = qtn.TensorNetwork([t.copy() for t in tn.tensor_map.values()])
        mk.same(f"{tag}: {name}.inner_inds == fresh constructor{R}", set(tn.inner_inds()), set(fresh.inner_inds()))
        mk.same(f"{tag}: {name}.outer_inds == fresh constructor{R}", set(tn.outer_inds()), set(fresh.outer_inds()))
        mk.same(f"{tag}: {name} inner/outer partition the labels", set(tn.inner_inds()) | set(tn.outer_inds()), set(imap))
        mk.same(f"{tag}: {name} inner/outer disjoint", set(tn.inner_inds()) & set(tn.outer_inds()), set())
        # selection returns exactly the carriers
        for tg, tids in tmap.items():
            mk.same(f"{tag}: {name}.select_tensors tag", {id(t) for t in tn.select_tensors(tg)}, {id(tn.tensor_map[i]) for i in tids})
        for ix, tids in imap.items():
            mk.same(f"{tag}: {name}._get_tids_from_inds", set(tn._get_tids_from_inds(ix)), tids)
        # ownership: every contained tensor notifies this network with the right tid
        for tid, t in tn.tensor_map.items():
            ent = t.owners.get(hash(tn))
            mk.same(f"{tag}: {name} registered as owner of tensor {tid}", ent is not None and ent[0]() is tn and ent[1] == tid, True)
        try:
            tn.check()
            ok = True
        except Exception as e:      # the library's own invariant check
            ok = f"{type(e).__name__}: {e}"[:120]
        mk.same(f"{tag}: {name}.check() passes{R}", ok, True)
    # every owner entry of every tensor refers to a live network that really holds it there
    seen = set()
    for tn in nets.values():
        for t in tn.tensor_map.values():
            if id(t) in seen:
                continue
            seen.add(id(t))
            t.check_owners()
            for key, (ref, tid) in t.owners.items():
                o = ref()
                good = o is not None and o.tensor_map.get(tid) is t
                mk.same(f"{tag}: owner entry of a tensor points to a network holding it", good, True)


# ---------------------------------------------------------------------- scenario steps
# a step is (name, function(mk, st)) mutating st = {"nets": {...}, "L": labels, "G": tags, ...}

def s_add(net, inds, tags, virtual):
    def f(mk, st):
        t = T([st["L"][i] for i in inds], [st["G"][g] for g in tags])
        st["loose"].append(t)
        st["nets"][net].add_tensor(t, virtual=virtual)
    return (f"add({net},{inds},{tags},virtual={virtual})", f)


def s_pop(net, k):
    def f(mk, st):
        tn = st["nets"][net]
        tids = sorted(tn.tensor_map)
        if k >= len(tids):
            raise Skip("nothing to pop")
        st["loose"].append(tn.pop_tensor(tids[k]))
    return (f"pop({net},{k})", f)


def s_reindex_tensor(net, k, old, new):
    def f(mk, st):
        tn = st["nets"][net]
        tids = sorted(tn.tensor_map)
        if k >= len(tids):
            raise Skip("no such tensor")
        tn.tensor_map[tids[k]].reindex_({st["L"][old]: st["L"][new]})
    return (f"tensor{k}@{net}.reindex_(L{old}->L{new})", f)


def s_reindex_net(net, old, new):
    def f(mk, st):
        st["nets"][net].reindex_({st["L"][old]: st["L"][new]})
    return (f"{net}.reindex_(L{old}->L{new})", f)


def s_modify_inds(net, k, inds):
    def f(mk, st):
        tn = st["nets"][net]
        tids = sorted(tn.tensor_map)
        if k >= len(tids):
            raise Skip("no such tensor")
        t = tn.tensor_map[tids[k]]
        if t.ndim != len(inds):
            raise Skip("rank mismatch")
        t.modify(inds=[st["L"][i] for i in inds])
    return (f"tensor{k}@{net}.modify(inds={inds})", f)


def s_retag_tensor(net, k, old, new):
    def f(mk, st):
        tn = st["nets"][net]
        tids = sorted(tn.tensor_map)
        if k >= len(tids):
            raise Skip("no such tensor")
        tn.tensor_map[tids[k]].retag_({st["G"][old]: st["G"][new]})
    return (f"tensor{k}@{net}.retag_(G{old}->G{new})", f)


def s_retag_net(net, old, new):
    def f(mk, st):
        st["nets"][net].retag_({st["G"][old]: st["G"][new]})
    return (f"{net}.retag_(G{old}->G{new})", f)


def s_add_tag(net, k, g):
    def f(mk, st):
        tn = st["nets"][net]
        tids = sorted(tn.tensor_map)
        if k >= len(tids):
            raise Skip("no such tensor")
        tn.tensor_map[tids[k]].add_tag(st["G"][g])
    return (f"tensor{k}@{net}.add_tag(G{g})", f)


def s_drop_tag(net, k, g):
    def f(mk, st):
        tn = st["nets"][net]
        tids = sorted(tn.tensor_map)
        if k >= len(tids):
            raise Skip("no such tensor")
        tn.tensor_map[tids[k]].drop_tags(st["G"][g])
    return (f"tensor{k}@{net}.drop_tags(G{g})", f)


def s_copy(src, dst, virtual):
    def f(mk, st):
        st["nets"][dst] = st["nets"][src].copy(virtual=virtual)
    return (f"{dst}={src}.copy(virtual={virtual})", f)


def s_drop(net):
    def f(mk, st):
        st["nets"].pop(net, None)
        gc.collect()
    return (f"del {net}; gc", f)


def s_select(src, dst, g, virtual=True):
    def f(mk, st):
        st["nets"][dst] = st["nets"][src].select(st["G"][g], virtual=virtual)
    return (f"{dst}={src}.select(G{g},virtual={virtual})", f)


def s_setitem(net, g, inds):
    def f(mk, st):
        tn = st["nets"][net]
        tg = st["G"][g]
        try:
            n = len(tn._get_tids_from_tags(tg, which="all"))
        except KeyError:
            n = 0
        if n != 1:
            # documented: __setitem__ needs exactly one match
            mk.raises(f"{net}[G{g}] = T with {n} matches is rejected",
                      lambda: tn.__setitem__(tg, T([st["L"][i] for i in inds], [tg])), (KeyError, ValueError))
            return
        tn[tg] = T([st["L"][i] for i in inds], [tg])
    return (f"{net}[G{g}]=T({inds})", f)


def s_pickle(net):
    def f(mk, st):
        st["nets"][net] = pickle.loads(pickle.dumps(st["nets"][net]))
    return (f"{net}=unpickle(pickle({net}))", f)


def s_partition(src, g, a, b, inplace=False):
    def f(mk, st):
        t1, t2 = st["nets"][src].partition(st["G"][g], inplace=inplace)
        st["nets"][a], st["nets"][b] = t1, t2
    return (f"{a},{b}={src}.partition(G{g},inplace={inplace})", f)


def s_combine(a, b, dst, op):
    def f(mk, st):
        A, B = st["nets"][a], st["nets"][b]
        preA = [(id(t), tuple(t.inds)) for t in A.tensor_map.values()]
        outerA, outerB = set(A.outer_inds()), set(B.outer_inds())
        innerA = set(A.inner_inds())
        # axis positions carrying each inner bond of B before the combination
        bondsB = {}
        for tid, t in B.tensor_map.items():
            for ax, ix in enumerate(t.inds):
                if ix in B._inner_inds:
                    bondsB.setdefault(ix, []).append((tid, ax))
        C = (A | B) if op == "|" else (A & B)
        st["nets"][dst] = C
        labs = set(C.ind_map)
        mk.same(f"{dst}: outer labels of {a} not renamed", outerA <= labs, True)
        mk.same(f"{dst}: outer labels of {b} not renamed", outerB <= labs, True)
        mk.same(f"{dst}: labels of {a} untouched", [(id(t), tuple(t.inds)) for t in A.tensor_map.values()], preA)
        # no bond of B coincides with a bond of A afterwards
        ntA = len(preA)
        Cts = list(C.tensor_map.values())
        # every axis of B's tensors that carried an OUTER label of B still carries that very label (it may
        # well coincide with a label - even a bond - of A: it then joins it, it is never renamed)
        for k_, (tid_, t_) in enumerate(B.tensor_map.items()):
            for ax_, ix_ in enumerate(t_.inds):
                if ix_ in outerB:
                    mk.same(f"{dst}: outer label of {b} kept on its axis", Cts[ntA + k_].inds[ax_] == ix_, True)
        for ix, pos in bondsB.items():
            # tensors of B come after those of A in C; locate by order
            tB = list(B.tensor_map)
            (tid0, ax0) = pos[0]
            k = tB.index(tid0)
            newlab = Cts[ntA + k].inds[ax0]
            mk.same(f"{dst}: bond of {b} does not coincide with a bond of {a}", newlab in innerA, False)
            # and the bond of B is still one bond (all its positions carry the same label)
            for (tid, ax) in pos:
                mk.same(f"{dst}: bond of {b} stays one bond", Cts[ntA + tB.index(tid)].inds[ax] == newlab, True)
    return (f"{dst}={a}{op}{b}", f)


def s_contract_ind(net, ix):
    def f(mk, st):
        tn = st["nets"][net]
        lab = st["L"][ix]
        if lab not in tn.ind_map or len(tn.ind_map[lab]) < 2:
            raise Skip("not a shared index")
        tn.contract_ind(lab)
    return (f"{net}.contract_ind(L{ix})", f)


def s_isel(net, ix):
    def f(mk, st):
        tn = st["nets"][net]
        lab = st["L"][ix]
        if lab not in tn.ind_map:
            raise Skip("no such index")
        tn.isel_({lab: 0})
    return (f"{net}.isel_(L{ix}=0)", f)


def s_fuse_multibonds(net):
    def f(mk, st):
        st["nets"][net].fuse_multibonds_()
    return (f"{net}.fuse_multibonds_()", f)


def run(mk, start, steps, nlabels=6, ntags=3):
    mk.encodes(tc.TensorNetwork.add_tensor, tc.TensorNetwork.add_tensor_network, tc.TensorNetwork._link_inds,
               tc.TensorNetwork._unlink_inds, tc.TensorNetwork._link_tags, tc.TensorNetwork._unlink_tags,
               tc.TensorNetwork.pop_tensor, tc.TensorNetwork._modify_tensor_inds, tc.TensorNetwork._modify_tensor_tags,
               tc.Tensor.modify, tc.Tensor.add_owner, tc.Tensor.remove_owner, tc.Tensor.check_owners,
               tc.TensorNetwork.copy, tc.TensorNetwork.check, oset)
    L = [mk.label(f"L{i}") for i in range(nlabels)]
    G = [mk.label(f"G{i}") for i in range(ntags)]
    st = {"L": L, "G": G, "nets": {}, "loose": []}
    _REP[0] = False
    if start == "two":       # A = {t0(L0,L1)[G0], t1(L2,L3)[G1]}
        st["nets"]["A"] = qtn.TensorNetwork([T([L[0], L[1]], [G[0]]), T([L[2], L[3]], [G[1]])])
    elif start == "three":   # A = {t0(L0,L1)[G0], t1(L2,L3)[G1], t2(L4)[G2]}
        st["nets"]["A"] = qtn.TensorNetwork([T([L[0], L[1]], [G[0]]), T([L[2], L[3]], [G[1]]), T([L[4]], [G[2]])])
    elif start == "pair":    # two networks
        st["nets"]["A"] = qtn.TensorNetwork([T([L[0], L[1]], [G[0]]), T([L[1], L[2]], [G[1]])])
        st["nets"]["B"] = qtn.TensorNetwork([T([L[3], L[4]], [G[0]]), T([L[4], L[5]], [G[2]])])
    elif start == "one":
        st["nets"]["A"] = qtn.TensorNetwork([T([L[0], L[1]], [G[0]])])
    verify(mk, st["nets"], "start")
    def _reps():
        return {id(t): len(set(t.inds)) != len(t.inds) for tn in st["nets"].values() for t in tn.tensor_map.values()}

    for k, (name, fn) in enumerate(steps):
        before = _reps()
        try:
            fn(mk, st)
            after = _reps()
            if any(tok in name for tok in (".modify(inds", ".reindex_(")) and (any(before.values()) or any(after.values())):
                _REP[0] = True          # sticky for the rest of this history
        except Skip as e:
            mk.note(f"step {k} {name}: skipped ({e})")
            continue
        except (KeyError, ValueError) as e:
            # a rejection by the library (e.g. renaming a label that is not there): state must
            # still be consistent
            mk.note(f"step {k} {name}: rejected {type(e).__name__}")
        verify(mk, st["nets"], f"after step {k} {name}")


def P_(start, *steps, tiers=("quick", "thorough"), nl=6, nt=3):
    return {"start": start, "prog": " ; ".join(s[0] for s in steps), "_steps": steps, "_tiers": tiers, "nl": nl, "nt": nt}


_PROGS = [
    P_("one", s_pop("A", 0), nl=2, nt=1),
    P_("two", s_pop("A", 0), nl=4, nt=2),
    P_("two", s_pop("A", 1), s_add("A", (0, 2), (0,), True), nl=4, nt=2),
    P_("two", s_reindex_tensor("A", 0, 0, 2), nl=4, nt=2),
    P_("two", s_reindex_tensor("A", 0, 0, 4), s_pop("A", 0), nl=5, nt=2),
    P_("two", s_reindex_net("A", 1, 2), s_reindex_net("A", 2, 3), nl=4, nt=2),
    P_("two", s_modify_inds("A", 0, (3, 0)), s_pop("A", 1), nl=4, nt=2),
    P_("two", s_retag_tensor("A", 0, 0, 1), s_pop("A", 1), nl=4, nt=2),
    P_("two", s_retag_net("A", 0, 1), s_drop_tag("A", 0, 1), nl=4, nt=2),
    P_("two", s_add_tag("A", 1, 0), s_retag_net("A", 0, 2), s_pop("A", 0), nl=4, nt=3),
    P_("two", s_copy("A", "B", True), s_reindex_tensor("B", 0, 0, 2), nl=4, nt=2),
    P_("two", s_copy("A", "B", True), s_drop("B"), s_reindex_tensor("A", 0, 1, 3), nl=4, nt=2),
    P_("two", s_copy("A", "B", True), s_pop("B", 0), s_reindex_tensor("A", 0, 0, 3), nl=4, nt=2),
    P_("two", s_copy("A", "B", False), s_reindex_net("B", 0, 2), s_pop("A", 1), nl=4, nt=2),
    P_("two", s_select("A", "B", 0), s_retag_tensor("B", 0, 0, 1), s_drop("B"), s_pop("A", 0), nl=4, nt=2),
    P_("two", s_select("A", "B", 1), s_reindex_net("B", 2, 0), nl=4, nt=2),
    P_("two", s_setitem("A", 0, (2, 1)), s_pop("A", 1), nl=4, nt=2),
    P_("two", s_pickle("A"), s_reindex_tensor("A", 1, 2, 0), s_pop("A", 0), nl=4, nt=2),
    P_("two", s_partition("A", 0, "B", "C"), s_reindex_tensor("B", 0, 2, 0), nl=4, nt=2),
    P_("two", s_partition("A", 1, "B", "C", True), s_add("A", (3, 1), (1,), False), nl=4, nt=2),
    P_("three", s_pop("A", 2), s_reindex_tensor("A", 0, 1, 4), nl=5, nt=3),
    P_("three", s_contract_ind("A", 1), s_pop("A", 0), nl=5, nt=3),
    P_("three", s_isel("A", 1), s_reindex_net("A", 0, 2), nl=5, nt=3),
    P_("three", s_fuse_multibonds("A"), s_pop("A", 0), nl=5, nt=3),
    P_("pair", s_combine("A", "B", "C", "|"), nl=6, nt=3),
    P_("pair", s_combine("A", "B", "C", "&"), nl=6, nt=3),
    P_("pair", s_combine("A", "B", "C", "|"), s_reindex_tensor("C", 0, 0, 5), nl=6, nt=3, tiers=("thorough",)),
    P_("pair", s_combine("A", "B", "C", "|"), s_drop("C"), s_pop("B", 0), nl=6, nt=3, tiers=("thorough",)),
    P_("pair", s_reindex_net("B", 4, 1), s_combine("A", "B", "C", "&"), s_pop("C", 3), nl=6, nt=3, tiers=("thorough",)),
]

# all ordered pairs / triples of a core vocabulary on the two-tensor start state
_CORE = [s_pop("A", 0), s_reindex_tensor("A", 0, 0, 2), s_reindex_tensor("A", 1, 3, 1), s_reindex_net("A", 1, 2),
         s_modify_inds("A", 0, (2, 2)), s_retag_tensor("A", 0, 0, 1), s_add_tag("A", 1, 0), s_drop_tag("A", 0, 0),
         s_add("A", (1, 3), (1,), True), s_copy("A", "B", True), s_drop("B"), s_setitem("A", 1, (0, 0)), s_pickle("A")]
for a, b in itertools.permutations(range(len(_CORE)), 2):
    quick = (a + 3 * b) % 4 == 0
    _PROGS.append(P_("two", _CORE[a], _CORE[b], nl=4, nt=2, tiers=("quick", "thorough") if quick else ("thorough",)))
for a, b, c in itertools.permutations(range(len(_CORE)), 3):
    if (a * 7 + b * 3 + c) % 11 == 0:
        _PROGS.append(P_("two", _CORE[a], _CORE[b], _CORE[c], nl=4, nt=2, tiers=("thorough",)))

_STEPS = {}
_PARAMS = []
for i, p in enumerate(_PROGS):
    key = f"{i:03d}"
    _STEPS[key] = p["_steps"]
    _PARAMS.append({"n": key, "start": p["start"], "prog": p["prog"], "nl": p["nl"], "nt": p["nt"], "_tiers": p["_tiers"]})


@obligation(PROP, params=_PARAMS, max_paths=6000, wall_s=500, timeout_s=600, numeric=True)
def scenario(mk, n, start, prog, nl, nt):
    run(mk, start, _STEPS[n], nl, nt)
