"""C02 - network index / tag / ownership maps stay exact under any mutation history.

The *labels* are symbolic: an index or tag label is a `str` subclass whose equality is decided
by the solver (engine SX), with a constant hash, so every dict / oset lookup inside the real
TensorNetwork code forks on "are these two labels the same string?".  Each scenario program
(<= 4 public operations on <= 3 tensors in <= 3 networks) is therefore executed once per
consistent aliasing pattern of its labels (up to Bell(n) patterns), including the patterns no
hand-written test uses: a label repeated on one tensor, a rename onto a label that already
exists, an outer label of one network equal to an inner label of the other.  After every step
an oracle re-scans the tensors and compares with the library's lookup structures.
"""
import copy as _copy
import gc
import itertools
import pickle

import numpy as np

import quimb.tensor as qtn
from quimb.tensor import tensor_core as tc
from quimb.utils import oset

from qv import sx
from qv.harness import obligation, Skip

PROP = "C02"
META = {
    "bounds": {
        "quick": {"labels": "<= 6 symbolic index labels + <= 3 symbolic tags per scenario", "tensors": "<= 3 (rank <= 2, all dims 2)",
                  "networks": "<= 4 (copies, virtual views, combinations, norm networks with their ket / bra layers)", "history": "<= 4 operations", "scenarios": "hand-picked + all ordered pairs of the core vocabulary (1/4 of them) + ordered pairs (second vocabulary: deep copy, remove_all_tensors, delete, make_norm(False | '*'), tensor deep copy) x core vocabulary in both orders (1/7 of them)",
                  "duplicates": "every non-virtual way of duplicating a network (copy(deep=True), copy.deepcopy, copy.copy, TensorNetwork(tn)) or one tensor (copy(), copy(deep=True), copy.copy, copy.deepcopy, pickle), followed by <= 2 mutations on either side; both sides re-scanned after every step",
                  "emptying": "remove_all_tensors / delete(tags, which=all|any) followed by <= 2 add_tensor or an in-place combination (&=, |=); in-place &= / |= on the two-network start",
                  "norm networks": "make_norm for mangle_append in {'*', '_b', None, False, '', True} x layer_tags in {default, None}, return_all, output_inds = outer labels; conj(mangle_inner) & tn; tn | tn.H; on 2 tensors, <= 4 labels",
                  "oset": "every public operation of quimb.utils.oset (+ oset_union, oset_intersection, tags_to_oset) on 3 sets of <= 3 elements drawn from 5 symbolic elements: content against an ordered list model, independence of results and operands"},
        "thorough": {"history": "all ordered pairs + 1/11 of the ordered triples of the core vocabulary, all pairs second vocabulary x core vocabulary in both orders, the in-place combinations on the 6-label two-network start"},
    },
    "outside": ["labels manipulated as strings by the library (site-tag formatting / regular expressions): plain concrete tags are used there",
                "symbolic labels never alias concrete strings (different hash)", "histories longer than 4", "structured 1D/2D/3D subclasses",
                "tensor data (all ones): C02 is about bookkeeping",
                "the library's own in-place re-use of an emptied network inside tensor_network_1d_compress(inplace=True) (structured 1D): the emptying primitive itself is covered",
                "a label of the ket layer that is literally the mangled string of another (e.g. 'x' and 'x*' with mangle_append='*'): documented deterministic mangling",
                ],
    "assumptions": ["CPython dict / set semantics: keys with equal hash are compared with ==",
                    "for a label repeated on ONE tensor the statement does not define inner/outer: the answer of the library's own fresh constructor on the same tensors is demanded"],
}


def T(inds, tags=()):
    return qtn.Tensor(np.ones((2,) * len(inds)), tuple(inds), tags=tags)


# ---------------------------------------------------------------------- oracle

def scan(tn):
    imap, tmap = {}, {}
    for tid, t in tn.tensor_map.items():
        for ix in t.inds:
            imap.setdefault(ix, set()).add(tid)
        for tg in t.tags:
            tmap.setdefault(tg, set()).add(tid)
    return imap, tmap


def as_plain(m):
    return {k: set(v) for k, v in m.items()}


_REP = [False]


def verify(mk, nets, tag):
    """nets: dict name -> live TensorNetwork"""
    live = {id(n): n for n in nets.values()}
    for name, tn in nets.items():
        imap, tmap = scan(tn)
        # known finding: a modify / reindex step executed while some tensor carries a label repeated on itself
        # (the step creates, removes or renames such a repetition) updates the owners through label sets; goals
        # after such a step (and for the rest of that history, the stale state persists) carry a marker.  Repetitions that exist from the start, or that
        # are met by pop / add / copy / combine steps, are NOT marked: there the library must be exact.
        R = " [repeated-label-history]" if _REP[0] else ""
        mk.same(f"{tag}: {name}.ind_map == fresh scan", as_plain(tn.ind_map), imap)
        mk.same(f"{tag}: {name}.tag_map == fresh scan", as_plain(tn.tag_map), tmap)
        fresh = qtn.TensorNetwork([t.copy() for t in tn.tensor_map.values()])
        mk.same(f"{tag}: {name}.inner_inds == fresh constructor{R}", set(tn.inner_inds()), set(fresh.inner_inds()))
        mk.same(f"{tag}: {name}.outer_inds == fresh constructor{R}", set(tn.outer_inds()), set(fresh.outer_inds()))
        mk.same(f"{tag}: {name} inner/outer partition the labels", set(tn.inner_inds()) | set(tn.outer_inds()), set(imap))
        mk.same(f"{tag}: {name} inner/outer disjoint", set(tn.inner_inds()) & set(tn.outer_inds()), set())
        # selection returns exactly the carriers
        for tg, tids in tmap.items():
            mk.same(f"{tag}: {name}.select_tensors tag", {id(t) for t in tn.select_tensors(tg)}, {id(tn.tensor_map[i]) for i in tids})
        for ix, tids in imap.items():
            mk.same(f"{tag}: {name}._get_tids_from_inds", set(tn._get_tids_from_inds(ix)), tids)
        # ownership: every contained tensor notifies this network with the right tid
        for tid, t in tn.tensor_map.items():
            ent = t.owners.get(hash(tn))
            mk.same(f"{tag}: {name} registered as owner of tensor {tid}", ent is not None and ent[0]() is tn and ent[1] == tid, True)
        try:
            tn.check()
            ok = True
        except Exception as e:      # the library's own invariant check
            ok = f"{type(e).__name__}: {e}"[:120]
        mk.same(f"{tag}: {name}.check() passes{R}", ok, True)
    # every owner entry of every tensor refers to a live network that really holds it there
    seen = set()
    for tn in nets.values():
        for t in tn.tensor_map.values():
            if id(t) in seen:
                continue
            seen.add(id(t))
            t.check_owners()
            for key, (ref, tid) in t.owners.items():
                o = ref()
                good = o is not None and o.tensor_map.get(tid) is t
                mk.same(f"{tag}: owner entry of a tensor points to a network holding it", good, True)


# ---------------------------------------------------------------------- scenario steps
# a step is (name, function(mk, st)) mutating st = {"nets": {...}, "L": labels, "G": tags, ...}

def s_add(net, inds, tags, virtual):
    def f(mk, st):
        t = T([st["L"][i] for i in inds], [st["G"][g] for g in tags])
        st["loose"].append(t)
        st["nets"][net].add_tensor(t, virtual=virtual)
    return (f"add({net},{inds},{tags},virtual={virtual})", f)


def s_pop(net, k):
    def f(mk, st):
        tn = st["nets"][net]
        tids = sorted(tn.tensor_map)
        if k >= len(tids):
            raise Skip("nothing to pop")
        st["loose"].append(tn.pop_tensor(tids[k]))
    return (f"pop({net},{k})", f)


def s_reindex_tensor(net, k, old, new):
    def f(mk, st):
        tn = st["nets"][net]
        tids = sorted(tn.tensor_map)
        if k >= len(tids):
            raise Skip("no such tensor")
        tn.tensor_map[tids[k]].reindex_({st["L"][old]: st["L"][new]})
    return (f"tensor{k}@{net}.reindex_(L{old}->L{new})", f)


def s_reindex_net(net, old, new):
    def f(mk, st):
        st["nets"][net].reindex_({st["L"][old]: st["L"][new]})
    return (f"{net}.reindex_(L{old}->L{new})", f)


def s_modify_inds(net, k, inds):
    def f(mk, st):
        tn = st["nets"][net]
        tids = sorted(tn.tensor_map)
        if k >= len(tids):
            raise Skip("no such tensor")
        t = tn.tensor_map[tids[k]]
        if t.ndim != len(inds):
            raise Skip("rank mismatch")
        t.modify(inds=[st["L"][i] for i in inds])
    return (f"tensor{k}@{net}.modify(inds={inds})", f)


def s_retag_tensor(net, k, old, new):
    def f(mk, st):
        tn = st["nets"][net]
        tids = sorted(tn.tensor_map)
        if k >= len(tids):
            raise Skip("no such tensor")
        tn.tensor_map[tids[k]].retag_({st["G"][old]: st["G"][new]})
    return (f"tensor{k}@{net}.retag_(G{old}->G{new})", f)


def s_retag_net(net, old, new):
    def f(mk, st):
        st["nets"][net].retag_({st["G"][old]: st["G"][new]})
    return (f"{net}.retag_(G{old}->G{new})", f)


def s_add_tag(net, k, g):
    def f(mk, st):
        tn = st["nets"][net]
        tids = sorted(tn.tensor_map)
        if k >= len(tids):
            raise Skip("no such tensor")
        tn.tensor_map[tids[k]].add_tag(st["G"][g])
    return (f"tensor{k}@{net}.add_tag(G{g})", f)


def s_drop_tag(net, k, g):
    def f(mk, st):
        tn = st["nets"][net]
        tids = sorted(tn.tensor_map)
        if k >= len(tids):
            raise Skip("no such tensor")
        tn.tensor_map[tids[k]].drop_tags(st["G"][g])
    return (f"tensor{k}@{net}.drop_tags(G{g})", f)


def s_copy(src, dst, virtual):
    def f(mk, st):
        st["nets"][dst] = st["nets"][src].copy(virtual=virtual)
    return (f"{dst}={src}.copy(virtual={virtual})", f)


def s_drop(net):
    def f(mk, st):
        st["nets"].pop(net, None)
        gc.collect()
    return (f"del {net}; gc", f)


def s_select(src, dst, g, virtual=True):
    def f(mk, st):
        st["nets"][dst] = st["nets"][src].select(st["G"][g], virtual=virtual)
    return (f"{dst}={src}.select(G{g},virtual={virtual})", f)


def s_setitem(net, g, inds):
    def f(mk, st):
        tn = st["nets"][net]
        tg = st["G"][g]
        try:
            n = len(tn._get_tids_from_tags(tg, which="all"))
        except KeyError:
            n = 0
        if n != 1:
            # documented: __setitem__ needs exactly one match
            mk.raises(f"{net}[G{g}] = T with {n} matches is rejected",
                      lambda: tn.__setitem__(tg, T([st["L"][i] for i in inds], [tg])), (KeyError, ValueError))
            return
        tn[tg] = T([st["L"][i] for i in inds], [tg])
    return (f"{net}[G{g}]=T({inds})", f)


def s_pickle(net):
    def f(mk, st):
        st["nets"][net] = pickle.loads(pickle.dumps(st["nets"][net]))
    return (f"{net}=unpickle(pickle({net}))", f)


def s_partition(src, g, a, b, inplace=False):
    def f(mk, st):
        t1, t2 = st["nets"][src].partition(st["G"][g], inplace=inplace)
        st["nets"][a], st["nets"][b] = t1, t2
    return (f"{a},{b}={src}.partition(G{g},inplace={inplace})", f)


def s_combine(a, b, dst, op, inplace=False):
    """C = A | B, C = A & B;  inplace: A |= B, A &= B (dst is then bound to the same object as a)"""
    def f(mk, st):
        A, B = st["nets"][a], st["nets"][b]
        preA = [(id(t), tuple(t.inds)) for t in A.tensor_map.values()]
        outerA, outerB = set(A.outer_inds()), set(B.outer_inds())
        innerA = set(A.inner_inds())
        # axis positions carrying each inner bond of B before the combination
        bondsB = {}
        for tid, t in B.tensor_map.items():
            for ax, ix in enumerate(t.inds):
                if ix in B._inner_inds:
                    bondsB.setdefault(ix, []).append((tid, ax))
        if inplace:
            C = A
            if op == "|":
                C |= B
            else:
                C &= B
            mk.same(f"{a}{op}={b} is in place", C is A, True)
        else:
            C = (A | B) if op == "|" else (A & B)
        st["nets"][dst] = C
        labs = set(C.ind_map)
        mk.same(f"{dst}: outer labels of {a} not renamed", outerA <= labs, True)
        mk.same(f"{dst}: outer labels of {b} not renamed", outerB <= labs, True)
        ntA = len(preA)
        mk.same(f"{dst}: labels of {a} untouched", [(id(t), tuple(t.inds)) for t in A.tensor_map.values()][:ntA], preA)
        # no bond of B coincides with a bond of A afterwards
        Cts = list(C.tensor_map.values())
        # every axis of B's tensors that carried an OUTER label of B still carries that very label (it may
        # well coincide with a label - even a bond - of A: it then joins it, it is never renamed)
        for k_, (tid_, t_) in enumerate(B.tensor_map.items()):
            for ax_, ix_ in enumerate(t_.inds):
                if ix_ in outerB:
                    mk.same(f"{dst}: outer label of {b} kept on its axis", Cts[ntA + k_].inds[ax_] == ix_, True)
        for ix, pos in bondsB.items():
            # tensors of B come after those of A in C; locate by order
            tB = list(B.tensor_map)
            (tid0, ax0) = pos[0]
            k = tB.index(tid0)
            newlab = Cts[ntA + k].inds[ax0]
            mk.same(f"{dst}: bond of {b} does not coincide with a bond of {a}", newlab in innerA, False)
            # and the bond of B is still one bond (all its positions carry the same label)
            for (tid, ax) in pos:
                mk.same(f"{dst}: bond of {b} stays one bond", Cts[ntA + tB.index(tid)].inds[ax] == newlab, True)
    return (f"{a}{op}={b}" if inplace else f"{dst}={a}{op}{b}", f)


def s_contract_ind(net, ix):
    def f(mk, st):
        tn = st["nets"][net]
        lab = st["L"][ix]
        if lab not in tn.ind_map or len(tn.ind_map[lab]) < 2:
            raise Skip("not a shared index")
        tn.contract_ind(lab)
    return (f"{net}.contract_ind(L{ix})", f)


def s_isel(net, ix):
    def f(mk, st):
        tn = st["nets"][net]
        lab = st["L"][ix]
        if lab not in tn.ind_map:
            raise Skip("no such index")
        tn.isel_({lab: 0})
    return (f"{net}.isel_(L{ix}=0)", f)


def s_fuse_multibonds(net):
    def f(mk, st):
        st["nets"][net].fuse_multibonds_()
    return (f"{net}.fuse_multibonds_()", f)


def s_dup(src, dst, how):
    """the non-virtual ways of duplicating a network: the result must be fully independent of the source"""
    def f(mk, st):
        A = st["nets"][src]
        if how == "copy(deep=True)":
            B = A.copy(deep=True)
        elif how == "copy.deepcopy":
            B = _copy.deepcopy(A)
        elif how == "copy.copy":
            B = _copy.copy(A)
        elif how == "TensorNetwork(tn)":
            B = qtn.TensorNetwork(A)
        else:
            raise ValueError(how)
        st["nets"][dst] = B
        mk.same(f"{dst}={how}: no tensor shared with {src}", {id(t) for t in A.tensor_map.values()} & {id(t) for t in B.tensor_map.values()}, set())
        # no lookup container shared either (a mutation of one network must not reach the other)
        shared = [nm for nm in ("ind_map", "tag_map", "tensor_map", "_inner_inds", "_outer_inds") if getattr(A, nm) is getattr(B, nm)]
        mk.same(f"{dst}={how}: no lookup container shared with {src}", shared, [])
    return (f"{dst}={how}({src})", f)


def s_tensor_dup(net, k, dst, how):
    """duplicate ONE tensor of a network; the duplicate belongs to nobody and is then mutated inside its own network"""
    def f(mk, st):
        tn = st["nets"][net]
        tids = sorted(tn.tensor_map)
        if k >= len(tids):
            raise Skip("no such tensor")
        t = tn.tensor_map[tids[k]]
        d = {"copy()": lambda: t.copy(), "copy(deep=True)": lambda: t.copy(deep=True), "copy.copy": lambda: _copy.copy(t),
             "copy.deepcopy": lambda: _copy.deepcopy(t), "pickle": lambda: pickle.loads(pickle.dumps(t))}[how]()
        mk.same(f"{how} of a tensor: a new tensor owned by no network", (d is t, len(d.owners)), (False, 0))
        mk.same(f"{how} of a tensor: same labels and tags", (tuple(d.inds) == tuple(t.inds), set(d.tags)), (True, set(t.tags)))
        st["nets"][dst] = qtn.TensorNetwork([d], virtual=True)
        pre = (tuple(t.inds), list(t.tags))
        d.add_tag(st["G"][-1])
        d.reindex_({t.inds[0]: st["L"][-1]})
        d.drop_tags(st["G"][0])
        mk.same(f"{how} of a tensor: the original does not see changes of the duplicate", (tuple(t.inds), list(t.tags)), pre)
    return (f"{dst}=[{how}(tensor{k}@{net})]+mutate", f)


def s_remove_all(net):
    def f(mk, st):
        tn = st["nets"][net]
        st["loose"].extend(tn.tensor_map.values())
        tn.remove_all_tensors()
        mk.same(f"{net}.remove_all_tensors(): empty", (len(tn.tensor_map), len(tn.ind_map), len(tn.tag_map), tuple(tn.inner_inds()), tuple(tn.outer_inds())), (0, 0, 0, (), ()))
    return (f"{net}.remove_all_tensors()", f)


def s_delete(net, gs, which):
    def f(mk, st):
        tn = st["nets"][net]
        tags = [st["G"][g] for g in gs]
        hit = [all(tg in t.tags for tg in tags) if which == "all" else any(tg in t.tags for tg in tags) for t in tn.tensor_map.values()]
        keep = [id(t) for t, h in zip(tn.tensor_map.values(), hit) if not h]
        st["loose"].extend(tn.tensor_map.values())
        tn.delete(tags, which=which)
        mk.same(f"{net}.delete: exactly the matching tensors are removed", [id(t) for t in tn.tensor_map.values()], keep)
    return (f"{net}.delete(G{gs},which={which})", f)


def s_make_norm(src, dst, mangle_append, layer_tags=("KET", "BRA"), via="make_norm", oi=False):
    """N = <A|A> as a network: the ket layer keeps every label, the bra layer keeps every OUTER label on its axis and
    carries, for every bond of A, one fresh label that coincides with no label of the ket layer nor with another bond
    (documented values of mangle_append: str, False, None)"""
    def f(mk, st):
        A = st["nets"][src]
        pre = [tuple(t.inds) for t in A.tensor_map.values()]
        outer, inner = set(A.outer_inds()), set(A.inner_inds())
        if via == "make_norm" and oi:       # output_inds given explicitly (= the outer labels)
            N = A.make_norm(mangle_append=mangle_append, layer_tags=layer_tags, output_inds=tuple(A.outer_inds()))
        elif via == "make_norm":
            N = A.make_norm(mangle_append=mangle_append, layer_tags=layer_tags)
        elif via == "return_all":
            N, ket, bra = A.make_norm(mangle_append=mangle_append, layer_tags=layer_tags, return_all=True)
            st["nets"][dst + "_ket"], st["nets"][dst + "_bra"] = ket, bra
        elif via == "conj&":        # the same construction through the public pieces
            N = A & A.conj(mangle_inner=mangle_append)
        elif via == "H|":
            N = A | A.H
        st["nets"][dst] = N
        n = len(pre)
        ts = list(N.tensor_map.values())
        mk.same(f"{dst}: two layers", len(ts), 2 * n)
        mk.same(f"{dst}: labels of {src} untouched", [tuple(t.inds) for t in A.tensor_map.values()], pre)
        ketlabs = set()
        for k in range(n):
            ketlabs |= set(ts[k].inds)
        newlab = {}
        for k, inds in enumerate(pre):
            mk.same(f"{dst}: ket layer keeps its labels", tuple(ts[k].inds) == inds, True)
            for ax, ix in enumerate(inds):
                nl = ts[n + k].inds[ax]
                if ix in outer:
                    mk.same(f"{dst}: outer label of {src} kept on its axis of the bra layer", nl == ix, True)
                elif ix in inner:
                    if ix not in newlab:
                        newlab[ix] = nl
                    mk.same(f"{dst}: bond of the bra layer stays one bond", nl == newlab[ix], True)
                    mk.same(f"{dst}: bond of the bra layer does not coincide with a label of the ket layer", nl in ketlabs, False)
        vals = list(newlab.values())
        for i in range(len(vals)):
            for j in range(i):
                mk.same(f"{dst}: distinct bonds of the bra layer stay distinct", vals[i] == vals[j], False)
    return (f"{dst}={src}.{via}(mangle_append={mangle_append!r},layer_tags={layer_tags}" + (",output_inds=outer" if oi else "") + ")", f)


def run(mk, start, steps, nlabels=6, ntags=3):
    mk.encodes(tc.TensorNetwork.add_tensor, tc.TensorNetwork.add_tensor_network, tc.TensorNetwork._link_inds,
               tc.TensorNetwork._unlink_inds, tc.TensorNetwork._link_tags, tc.TensorNetwork._unlink_tags,
               tc.TensorNetwork.pop_tensor, tc.TensorNetwork._modify_tensor_inds, tc.TensorNetwork._modify_tensor_tags,
               tc.Tensor.modify, tc.Tensor.add_owner, tc.Tensor.remove_owner, tc.Tensor.check_owners,
               tc.TensorNetwork.copy, tc.TensorNetwork.check, oset)
    L = [mk.label(f"L{i}") for i in range(nlabels)]
    G = [mk.label(f"G{i}") for i in range(ntags)]
    st = {"L": L, "G": G, "nets": {}, "loose": []}
    _REP[0] = False
    if start == "two":       # A = {t0(L0,L1)[G0], t1(L2,L3)[G1]}
        st["nets"]["A"] = qtn.TensorNetwork([T([L[0], L[1]], [G[0]]), T([L[2], L[3]], [G[1]])])
    elif start == "three":   # A = {t0(L0,L1)[G0], t1(L2,L3)[G1], t2(L4)[G2]}
        st["nets"]["A"] = qtn.TensorNetwork([T([L[0], L[1]], [G[0]]), T([L[2], L[3]], [G[1]]), T([L[4]], [G[2]])])
    elif start == "pair":    # two networks
        st["nets"]["A"] = qtn.TensorNetwork([T([L[0], L[1]], [G[0]]), T([L[1], L[2]], [G[1]])])
        st["nets"]["B"] = qtn.TensorNetwork([T([L[3], L[4]], [G[0]]), T([L[4], L[5]], [G[2]])])
    elif start == "one":
        st["nets"]["A"] = qtn.TensorNetwork([T([L[0], L[1]], [G[0]])])
    elif start == "pair5":   # two networks with one bond each on 5 labels (the 6-label "pair" costs ~8x the paths)
        st["nets"]["A"] = qtn.TensorNetwork([T([L[0], L[1]], [G[0]]), T([L[1], L[2]], [G[1]])])
        st["nets"]["B"] = qtn.TensorNetwork([T([L[3], L[4]], [G[0]]), T([L[4], L[0]], [G[1]])])
    elif start == "bond":    # A = {t0(L0,L1)[G0], t1(L1,L2)[G1]}: a bond in every aliasing pattern
        st["nets"]["A"] = qtn.TensorNetwork([T([L[0], L[1]], [G[0]]), T([L[1], L[2]], [G[1]])])
    verify(mk, st["nets"], "start")
    def _reps():
        return {id(t): len(set(t.inds)) != len(t.inds) for tn in st["nets"].values() for t in tn.tensor_map.values()}

    for k, (name, fn) in enumerate(steps):
        before = _reps()
        try:
            fn(mk, st)
            after = _reps()
            # (norm networks mangle the bra layer by reindexing its tensors in place: the same mechanism)
            if any(tok in name for tok in (".modify(inds", ".reindex_(", ".make_norm(", ".return_all(", ".conj&(", ".H|(", "]+mutate")) and (any(before.values()) or any(after.values())):
                _REP[0] = True          # sticky for the rest of this history
        except Skip as e:
            mk.note(f"step {k} {name}: skipped ({e})")
            continue
        except (KeyError, ValueError) as e:
            # a rejection by the library (e.g. renaming a label that is not there): state must
            # still be consistent
            mk.note(f"step {k} {name}: rejected {type(e).__name__}")
        verify(mk, st["nets"], f"after step {k} {name}")


def P_(start, *steps, tiers=("quick", "thorough"), nl=6, nt=3):
    return {"start": start, "prog": " ; ".join(s[0] for s in steps), "_steps": steps, "_tiers": tiers, "nl": nl, "nt": nt}


_PROGS = [
    P_("one", s_pop("A", 0), nl=2, nt=1),
    P_("two", s_pop("A", 0), nl=4, nt=2),
    P_("two", s_pop("A", 1), s_add("A", (0, 2), (0,), True), nl=4, nt=2),
    P_("two", s_reindex_tensor("A", 0, 0, 2), nl=4, nt=2),
    P_("two", s_reindex_tensor("A", 0, 0, 4), s_pop("A", 0), nl=5, nt=2),
    P_("two", s_reindex_net("A", 1, 2), s_reindex_net("A", 2, 3), nl=4, nt=2),
    P_("two", s_modify_inds("A", 0, (3, 0)), s_pop("A", 1), nl=4, nt=2),
    P_("two", s_retag_tensor("A", 0, 0, 1), s_pop("A", 1), nl=4, nt=2),
    P_("two", s_retag_net("A", 0, 1), s_drop_tag("A", 0, 1), nl=4, nt=2),
    P_("two", s_add_tag("A", 1, 0), s_retag_net("A", 0, 2), s_pop("A", 0), nl=4, nt=3),
    P_("two", s_copy("A", "B", True), s_reindex_tensor("B", 0, 0, 2), nl=4, nt=2),
    P_("two", s_copy("A", "B", True), s_drop("B"), s_reindex_tensor("A", 0, 1, 3), nl=4, nt=2),
    P_("two", s_copy("A", "B", True), s_pop("B", 0), s_reindex_tensor("A", 0, 0, 3), nl=4, nt=2),
    P_("two", s_copy("A", "B", False), s_reindex_net("B", 0, 2), s_pop("A", 1), nl=4, nt=2),
    P_("two", s_select("A", "B", 0), s_retag_tensor("B", 0, 0, 1), s_drop("B"), s_pop("A", 0), nl=4, nt=2),
    P_("two", s_select("A", "B", 1), s_reindex_net("B", 2, 0), nl=4, nt=2),
    P_("two", s_setitem("A", 0, (2, 1)), s_pop("A", 1), nl=4, nt=2),
    P_("two", s_pickle("A"), s_reindex_tensor("A", 1, 2, 0), s_pop("A", 0), nl=4, nt=2),
    P_("two", s_partition("A", 0, "B", "C"), s_reindex_tensor("B", 0, 2, 0), nl=4, nt=2),
    P_("two", s_partition("A", 1, "B", "C", True), s_add("A", (3, 1), (1,), False), nl=4, nt=2),
    P_("three", s_pop("A", 2), s_reindex_tensor("A", 0, 1, 4), nl=5, nt=3),
    P_("three", s_contract_ind("A", 1), s_pop("A", 0), nl=5, nt=3),
    P_("three", s_isel("A", 1), s_reindex_net("A", 0, 2), nl=5, nt=3),
    P_("three", s_fuse_multibonds("A"), s_pop("A", 0), nl=5, nt=3),
    P_("pair", s_combine("A", "B", "C", "|"), nl=6, nt=3),
    P_("pair", s_combine("A", "B", "C", "&"), nl=6, nt=3),
    P_("pair", s_combine("A", "B", "C", "|"), s_reindex_tensor("C", 0, 0, 5), nl=6, nt=3, tiers=("thorough",)),
    P_("pair", s_combine("A", "B", "C", "|"), s_drop("C"), s_pop("B", 0), nl=6, nt=3, tiers=("thorough",)),
    P_("pair", s_reindex_net("B", 4, 1), s_combine("A", "B", "C", "&"), s_pop("C", 3), nl=6, nt=3, tiers=("thorough",)),
]

# all ordered pairs / triples of a core vocabulary on the two-tensor start state
_CORE = [s_pop("A", 0), s_reindex_tensor("A", 0, 0, 2), s_reindex_tensor("A", 1, 3, 1), s_reindex_net("A", 1, 2),
         s_modify_inds("A", 0, (2, 2)), s_retag_tensor("A", 0, 0, 1), s_add_tag("A", 1, 0), s_drop_tag("A", 0, 0),
         s_add("A", (1, 3), (1,), True), s_copy("A", "B", True), s_drop("B"), s_setitem("A", 1, (0, 0)), s_pickle("A")]
for a, b in itertools.permutations(range(len(_CORE)), 2):
    quick = (a + 3 * b) % 4 == 0
    _PROGS.append(P_("two", _CORE[a], _CORE[b], nl=4, nt=2, tiers=("quick", "thorough") if quick else ("thorough",)))
for a, b, c in itertools.permutations(range(len(_CORE)), 3):
    if (a * 7 + b * 3 + c) % 11 == 0:
        _PROGS.append(P_("two", _CORE[a], _CORE[b], _CORE[c], nl=4, nt=2, tiers=("thorough",)))

# ---- second vocabulary (appended so that the numbering of the programs above is stable): non-virtual duplicates that
# must be independent of their source, emptying + re-use of a network, in-place combination, norm networks for every
# documented value of mangle_append
_PROGS2 = []
for how in ("copy(deep=True)", "copy.deepcopy", "copy.copy", "TensorNetwork(tn)"):
    # mutate the duplicate, then the source, and the other way round (verify() re-scans BOTH networks after every step)
    _PROGS2.append(P_("bond", s_dup("A", "B", how), s_reindex_net("B", 1, 3), s_pop("A", 1), nl=4, nt=2))
    _PROGS2.append(P_("two", s_dup("A", "B", how), s_retag_net("A", 0, 1), s_pop("B", 0), nl=4, nt=2))
_PROGS2 += [
    P_("two", s_dup("A", "B", "copy(deep=True)"), s_add("B", (1, 3), (1,), False), s_reindex_tensor("A", 1, 3, 1), nl=4, nt=2),
    P_("bond", s_dup("A", "B", "copy.deepcopy"), s_delete("B", (1,), "all"), s_reindex_net("A", 0, 3), nl=4, nt=2),
    P_("bond", s_dup("A", "B", "copy.deepcopy"), s_dup("B", "C", "copy(deep=True)"), s_reindex_tensor("C", 0, 1, 3), nl=4, nt=2),
    P_("bond", s_pickle("A"), s_dup("A", "B", "copy(deep=True)"), s_drop("A"), s_reindex_net("B", 1, 0), nl=3, nt=2),
    # emptying and re-use
    P_("bond", s_remove_all("A"), s_add("A", (1, 3), (1,), False), s_add("A", (3, 0), (0,), True), nl=4, nt=2),
    P_("two", s_remove_all("A"), s_add("A", (1, 3), (1,), True), s_add("A", (2, 0), (0,), False), nl=4, nt=2),
    P_("bond", s_copy("A", "B", True), s_remove_all("A"), s_add("A", (1, 0), (0,), True), s_reindex_net("B", 1, 3), nl=4, nt=2),
    P_("bond", s_delete("A", (0, 1), "any"), s_add("A", (1, 3), (1,), False), nl=4, nt=2),
    P_("two", s_add_tag("A", 1, 0), s_delete("A", (0, 1), "all"), s_add("A", (3, 1), (1,), False), nl=4, nt=2),
    P_("pair5", s_remove_all("A"), s_add("A", (1, 3), (1,), False), s_combine("A", "B", "A", "&", inplace=True), nl=5, nt=2),
    P_("pair5", s_remove_all("A"), s_add("A", (1, 2), (0,), True), s_combine("A", "B", "A", "|", inplace=True), nl=5, nt=2),
    P_("pair5", s_combine("A", "B", "A", "&", inplace=True), s_pop("A", 2), nl=5, nt=2),
    P_("pair5", s_combine("A", "B", "A", "|", inplace=True), s_reindex_net("B", 4, 1), nl=5, nt=2),
    P_("pair", s_remove_all("A"), s_add("A", (1, 3), (1,), False), s_combine("A", "B", "A", "&", inplace=True), nl=6, nt=3, tiers=("thorough",)),
    P_("pair", s_combine("A", "B", "A", "&", inplace=True), nl=6, nt=3, tiers=("thorough",)),
    P_("pair", s_combine("A", "B", "A", "|", inplace=True), nl=6, nt=3, tiers=("thorough",)),
]
for m in ("*", None, False, "", True, "_b"):
    _PROGS2.append(P_("bond", s_make_norm("A", "N", m), s_reindex_tensor("N", 0, 0, 3), nl=4, nt=2))
_PROGS2 += [
    P_("two", s_make_norm("A", "N", False, None), nl=4, nt=2),
    P_("two", s_make_norm("A", "N", None, None), nl=4, nt=2),
    P_("two", s_make_norm("A", "N", "", ("KET", "BRA"), "return_all"), s_pop("N_bra", 0), nl=4, nt=2),
    P_("two", s_make_norm("A", "N", "*", ("KET", "BRA"), "return_all"), s_pop("N_ket", 1), nl=4, nt=2),
    P_("bond", s_make_norm("A", "N", False, None, "conj&"), nl=3, nt=2),
    P_("bond", s_make_norm("A", "N", True, None, "conj&"), nl=3, nt=2),
    P_("bond", s_make_norm("A", "N", None, None, "H|"), nl=3, nt=2),
]
for how in ("copy()", "copy(deep=True)", "copy.copy", "copy.deepcopy", "pickle"):
    _PROGS2.append(P_("two", s_tensor_dup("A", 0, "D", how), s_pop("A", 0), nl=4, nt=2))
_PROGS2 += [
    P_("bond", s_make_norm("A", "N", "*", ("KET", "BRA"), "make_norm", True), nl=3, nt=2),
    P_("bond", s_make_norm("A", "N", False, ("KET", "BRA"), "make_norm", True), nl=3, nt=2),
    P_("bond", s_make_norm("A", "N", None, None, "make_norm", True), nl=3, nt=2),
]
# all ordered pairs (second vocabulary, core vocabulary) in both orders on the two-tensor start state
_CORE2 = [s_dup("A", "B", "copy(deep=True)"), s_remove_all("A"), s_delete("A", (0,), "any"), s_make_norm("A", "N", False), s_make_norm("A", "N", "*"),
          s_tensor_dup("A", 0, "D", "copy.deepcopy")]
for i, x in enumerate(_CORE2):
    for j, y in enumerate(_CORE):
        for o, (u, v) in enumerate(((x, y), (y, x))):
            quick = (2 * i + 3 * j + o) % 7 == 0
            _PROGS2.append(P_("two", u, v, nl=4, nt=2, tiers=("quick", "thorough") if quick else ("thorough",)))
_PROGS += _PROGS2

_STEPS = {}
_PARAMS = []
for i, p in enumerate(_PROGS):
    key = f"{i:03d}"
    _STEPS[key] = p["_steps"]
    _PARAMS.append({"n": key, "start": p["start"], "prog": p["prog"], "nl": p["nl"], "nt": p["nt"], "_tiers": p["_tiers"]})


@obligation(PROP, params=_PARAMS, max_paths=6000, wall_s=500, timeout_s=600, numeric=True)
def scenario(mk, n, start, prog, nl, nt):
    run(mk, start, _STEPS[n], nl, nt)


# ---------------------------------------------------------------------- the ordered set behind every lookup structure
# ind_map / tag_map entries, the inner / outer caches and Tensor.tags are quimb.utils.oset objects.  Every value-returning
# operation must give a set that is INDEPENDENT of its operands (mutating either side never reaches the other), every
# in-place operation must touch its receiver only, and the content must agree with an ordered-unique list model
# (order of the first operand) - for every aliasing pattern of 5 symbolic elements.

def _uniq(seq):
    out = []
    for x in seq:
        if not any(x == y for y in out):
            out.append(x)
    return out


def _isin(x, M):
    return any(x == y for y in M)


_OSET_PURE = {
    "a.copy()": (lambda a, b, c: a.copy(), lambda A, B, C: list(A)),
    "copy.copy(a)": (lambda a, b, c: _copy.copy(a), lambda A, B, C: list(A)),
    "copy.deepcopy(a)": (lambda a, b, c: _copy.deepcopy(a), lambda A, B, C: list(A)),
    "copy.deepcopy({k:[a]})": (lambda a, b, c: _copy.deepcopy({"k": [a, a]})["k"][1], lambda A, B, C: list(A)),
    "unpickle(pickle(a))": (lambda a, b, c: pickle.loads(pickle.dumps(a)), lambda A, B, C: list(A)),
    "oset(a)": (lambda a, b, c: oset(a), lambda A, B, C: list(A)),
    "oset.from_dict(dict)": (lambda a, b, c: oset.from_dict(dict.fromkeys(a)), lambda A, B, C: list(A)),
    "tags_to_oset(a)": (lambda a, b, c: tc.tags_to_oset(a), lambda A, B, C: list(A)),
    "a.union()": (lambda a, b, c: a.union(), lambda A, B, C: list(A)),
    "a.union(b)": (lambda a, b, c: a.union(b), lambda A, B, C: _uniq(A + B)),
    "a.union(b,c)": (lambda a, b, c: a.union(b, c), lambda A, B, C: _uniq(A + B + C)),
    "a.union(list)": (lambda a, b, c: a.union(list(b)), lambda A, B, C: _uniq(A + B)),
    "a|b": (lambda a, b, c: a | b, lambda A, B, C: _uniq(A + B)),
    "a.intersection()": (lambda a, b, c: a.intersection(), lambda A, B, C: list(A)),
    "a.intersection(b)": (lambda a, b, c: a.intersection(b), lambda A, B, C: [x for x in A if _isin(x, B)]),
    "a.intersection(b,c)": (lambda a, b, c: a.intersection(b, c), lambda A, B, C: [x for x in A if _isin(x, B) and _isin(x, C)]),
    "a&b": (lambda a, b, c: a & b, lambda A, B, C: [x for x in A if _isin(x, B)]),
    "a.difference(b)": (lambda a, b, c: a.difference(b), lambda A, B, C: [x for x in A if not _isin(x, B)]),
    "a.difference(b,c)": (lambda a, b, c: a.difference(b, c), lambda A, B, C: [x for x in A if not _isin(x, B) and not _isin(x, C)]),
    "a-b": (lambda a, b, c: a - b, lambda A, B, C: [x for x in A if not _isin(x, B)]),
    "oset_union([a,b,c])": (lambda a, b, c: tc.oset_union([a, b, c]), lambda A, B, C: _uniq(A + B + C)),
    "oset_intersection([a,b,c])": (lambda a, b, c: tc.oset_intersection([a, b, c]), lambda A, B, C: [x for x in A if _isin(x, B) and _isin(x, C)]),
    "oset_intersection([a])": (lambda a, b, c: tc.oset_intersection([a]), lambda A, B, C: list(A)),
}


def _oset_inplace(L):
    x = L[3]
    def rm(M, x):
        return [y for y in M if not (y == x)]
    return {
        "a.add(x)": (lambda a, b, c: a.add(x), lambda A, B, C: _uniq(A + [x])),
        "a.discard(x)": (lambda a, b, c: a.discard(x), lambda A, B, C: rm(A, x)),
        "a.remove(x)": (lambda a, b, c: a.remove(x), lambda A, B, C: rm(A, x) if _isin(x, A) else KeyError),
        "a.update(b)": (lambda a, b, c: a.update(b), lambda A, B, C: _uniq(A + B)),
        "a.update(b,c)": (lambda a, b, c: a.update(b, c), lambda A, B, C: _uniq(A + B + C)),
        "a.update(list)": (lambda a, b, c: a.update(list(b)), lambda A, B, C: _uniq(A + B)),
        "a|=b": (lambda a, b, c: a.__ior__(b), lambda A, B, C: _uniq(A + B)),
        "a.intersection_update(b)": (lambda a, b, c: a.intersection_update(b), lambda A, B, C: [y for y in A if _isin(y, B)]),
        "a.intersection_update(b,c)": (lambda a, b, c: a.intersection_update(b, c), lambda A, B, C: [y for y in A if _isin(y, B) and _isin(y, C)]),
        "a&=b": (lambda a, b, c: a.__iand__(b), lambda A, B, C: [y for y in A if _isin(y, B)]),
        "a.difference_update(b)": (lambda a, b, c: a.difference_update(b), lambda A, B, C: [y for y in A if not _isin(y, B)]),
        "a.difference_update(b,c)": (lambda a, b, c: a.difference_update(b, c), lambda A, B, C: [y for y in A if not _isin(y, B) and not _isin(y, C)]),
        "a-=b": (lambda a, b, c: a.__isub__(b), lambda A, B, C: [y for y in A if not _isin(y, B)]),
        "a.popleft()": (lambda a, b, c: a.popleft(), lambda A, B, C: A[1:]),
        "a.popright()": (lambda a, b, c: a.popright(), lambda A, B, C: A[:-1]),
        "a.pop()": (lambda a, b, c: a.pop(), lambda A, B, C: A[:-1]),
        "a.clear()": (lambda a, b, c: a.clear(), lambda A, B, C: []),
    }


@obligation(PROP, params=[{"group": "value-returning"}, {"group": "in-place"}], max_paths=4000, wall_s=300, timeout_s=400, numeric=True)
def oset_ops(mk, group):
    mk.encodes(oset, tc.oset_union, tc.oset_intersection, tc.tags_to_oset)
    L = [mk.label(f"L{i}") for i in range(5)]
    src = (L[0], L[1], L[2]), (L[3], L[4]), (L[4], L[2])

    def fresh():
        a, b, c = (oset(s) for s in src)
        return (a, b, c), [_uniq(list(s)) for s in src]

    (a, b, c), (A, B, C) = fresh()
    mk.same("oset(iterable) keeps first occurrences in order", [list(a), list(b), list(c)], [A, B, C])
    mk.same("len / contains", [len(a), all(x in a for x in A), L[3] in a], [len(A), True, _isin(L[3], A)])
    mk.same("== compares content", [a == oset(A), b == oset(B), a == b], [True, True, len(A) == len(B) and all(_isin(x, B) for x in A)])
    if group == "value-returning":
        for name, (op, model) in _OSET_PURE.items():
            (a, b, c), (A, B, C) = fresh()
            r = op(a, b, c)
            M = model(A, B, C)
            mk.same(f"{name}: content", list(r), M)
            mk.same(f"{name}: is an oset", type(r) is oset, True)
            mk.same(f"{name}: operands unchanged", [list(a), list(b), list(c)], [A, B, C])
            mk.same(f"{name}: a new object", any(r is o for o in (a, b, c)), False)
            # mutate the result: the operands must not see it
            r.add("zz")
            if M:
                r.discard(M[0])
            mk.same(f"{name}: operands unchanged by mutating the result", [list(a), list(b), list(c)], [A, B, C])
            M2 = M[1:] + ["zz"]
            # mutate the operands: the result must not see it
            a.add("yy"); a.popleft(); b.clear(); c.discard(L[4])
            mk.same(f"{name}: result unchanged by mutating the operands", list(r), M2)
            r.clear()
            mk.same(f"{name}: operands unchanged by clearing the result", [list(a), list(b), list(c)],
                    [A[1:] + ["yy"], [], [y for y in C if not (y == L[4])]])
    else:
        for name, (op, model) in _oset_inplace(L).items():
            (a, b, c), (A, B, C) = fresh()
            held = a.copy()          # a duplicate taken before the in-place operation
            M = model(A, B, C)
            if M is KeyError:
                mk.raises(f"{name}: absent element is rejected", lambda: op(a, b, c), (KeyError,))
                M = A
            else:
                ret = op(a, b, c)
                if name in ("a|=b", "a&=b", "a-=b"):
                    mk.same(f"{name}: returns the receiver", ret is a, True)
                if name == "a.popleft()":
                    mk.same(f"{name}: returns the first element", ret == A[0], True)
                if name in ("a.popright()", "a.pop()"):
                    mk.same(f"{name}: returns the last element", ret == A[-1], True)
            mk.same(f"{name}: receiver content", list(a), M)
            mk.same(f"{name}: other operands unchanged", [list(b), list(c)], [B, C])
            mk.same(f"{name}: earlier copy of the receiver unchanged", list(held), A)
