"""C01 - a tensor network denotes one value; every contraction route returns it.

Every route of the real library is run on networks whose entries are symbols (real and
conj-pair complex) and whose stored exponent is a symbol; each result is compared, entry by
entry as a polynomial identity decided by z3, with an independent sum-of-products reference
(qv/ref.py).  (mantissa, exponent) results are compared as mantissa * 10**exponent.
"""
import itertools

import numpy as np

import quimb.tensor as qtn
from quimb.tensor import tensor_core as tc
from quimb.tensor import contraction as qcontr

from qv import poly as P
from qv import ref
from qv.harness import obligation, Skip

PROP = "C01"
META = {
    "bounds": {
        "quick": {"tensors": "<= 4", "labels": "<= 6", "rank": "<= 3", "dims": "{1,2,3}",
                  "geometries": "chain, loop, hyper-index (label on 3 tensors), disconnected, scalar tensor, ring4, MPS(L=3)",
                  "optimize": "None, greedy, auto, explicit paths", "exponent": "symbolic and default"},
        "thorough": {"tensors": "<= 4", "dims": "{1,2,3}", "optimize": "adds all linear explicit paths, optimal, ContractionTree",
                     "extra": "repeated label on one tensor, more output permutations"},
    },
    "outside": ["floating point rounding", "optimality of paths", "sliced contraction / > 4 tensors",
                "cotengra's max-abs choice of the stripped factor (abstracted by an arbitrary positive factor)",
                "jax/torch/cupy backends"],
    "assumptions": ["max(abs(x)) used for exponent stripping is replaced by an arbitrary positive factor 10**E",
                    "realify_scalar (dropping a numerically negligible imaginary part) is the identity on exact scalars"],
}

# ---------------------------------------------------------------------- geometries
# name -> (list of (tag, inds, kind), sizes, candidate output label tuples (None = infer))
GEOMS = {
    "chain3": ([("A", "ij", "real"), ("B", "jk", "cplx"), ("C", "kl", "real")], dict(i=2, j=2, k=3, l=2),
               [None, ("l", "i")]),
    "loop3": ([("A", "ijk", "cplx"), ("B", "klm", "real"), ("C", "mi", "real")], dict(i=2, j=2, k=2, l=2, m=2),
              [None, ("l", "j")]),
    "hyper3": ([("A", "xa", "real"), ("B", "xb", "cplx"), ("C", "xc", "real")], dict(x=2, a=2, b=2, c=1),
               [("a", "b", "c"), ("x", "a", "b", "c"), ("c", "x", "a", "b")]),
    "hyperscalar": ([("A", "x", "real"), ("B", "x", "real"), ("C", "xy", "cplx"), ("D", "y", "real")], dict(x=3, y=2),
                    [()]),
    "disconnected": ([("A", "ij", "real"), ("B", "jk", "real"), ("C", "lm", "cplx"), ("D", "m", "real")],
                     dict(i=2, j=2, k=1, l=2, m=2), [None, ("l", "k", "i")]),
    "withscalar": ([("S", "", "cplx"), ("A", "ij", "real"), ("B", "ji", "real")], dict(i=2, j=3), [None]),
    "ring4": ([("A", "ij", "real"), ("B", "jk", "real"), ("C", "kl", "cplx"), ("D", "li", "real")],
              dict(i=2, j=2, k=2, l=2), [None]),
    "dim1": ([("A", "ijk", "real"), ("B", "kl", "cplx"), ("C", "lj", "real")], dict(i=1, j=3, k=2, l=1), [None, ("i",)]),
    "repeated": ([("A", "iij", "real"), ("B", "jk", "real")], dict(i=2, j=2, k=2), [("k",)]),
    # degenerate networks (third round): nothing to contract, so the executor may hand back the stored array itself
    "single": ([("A", "ij", "cplx")], dict(i=2, j=3), [None, ("j", "i")]),
    "singlescalar": ([("S", "", "cplx")], dict(), [None]),
    "outer2": ([("A", "i", "real"), ("B", "j", "cplx")], dict(i=2, j=2), [None, ("j", "i")]),
}
QUICK_GEOMS = ["chain3", "loop3", "hyper3", "hyperscalar", "disconnected", "withscalar", "dim1", "single", "singlescalar", "outer2"]


def build(mk, name, exponent="sym"):
    spec, sizes, outs = GEOMS[name]
    ts = []
    for tag, inds, kind in spec:
        data = mk.array(f"{tag}", tuple(sizes[i] for i in inds), kind)
        ts.append(qtn.Tensor(data, tuple(inds), tags=[tag, "ALL"]))
    tn = qtn.TensorNetwork(ts)
    if exponent == "sym":
        tn.exponent = mk.scalar("e", "real") if mk.sym else float(mk.scalar("e", "real"))
    return tn, sizes, outs


def infer_out(tn):
    cnt = {}
    for t in tn.tensor_map.values():
        for i in t.inds:
            cnt[i] = cnt.get(i, 0) + 1
    return tuple(i for i, c in cnt.items() if c == 1)


def as_value(res, out, mk):
    """normalise any return form (scalar / Tensor / (mantissa, exponent)) to an array over `out`"""
    expo = None
    if isinstance(res, tuple):
        res, expo = res
    if isinstance(res, qtn.TensorNetwork):
        val = ref.tn_dense(res, out)
    elif isinstance(res, qtn.Tensor):
        assert set(res.inds) == set(out), (res.inds, out)
        val = res.transpose(*out).data if out else res.data
    else:
        val = np.asarray(res)
    if expo is not None:
        val = val * (10 ** expo)
    return val


def outs_for(tn, outs, hyper):
    res = []
    for o in outs:
        if o is None:
            if hyper:
                continue
            res.append((None, infer_out(tn)))
        else:
            res.append((o, o))
    return res


def all_paths(n):
    """every linear (ssa-free, opt_einsum style) contraction path for n tensors"""
    if n == 1:
        yield ()
        return
    for i, j in itertools.combinations(range(n), 2):
        for rest in all_paths(n - 1):
            yield ((i, j),) + rest


_G_PARAMS = [{"geom": g, "expo": x, "_tiers": ("quick", "thorough") if g in QUICK_GEOMS else ("thorough",)}
             for g in GEOMS for x in ("sym", "default")]


@obligation(PROP, params=_G_PARAMS)
def full_contraction(mk, geom, expo):
    """contract(all) / ^ / explicit optimizers and paths / strip_exponent / preserve_tensor"""
    mk.encodes(tc.tensor_contract, tc.TensorNetwork.contract, tc._gen_output_inds, qcontr.array_contract,
               tc.maybe_realify_scalar)
    tn, sizes, outs = build(mk, geom, expo)
    hyper = geom.startswith("hyper")
    n = tn.num_tensors
    for oarg, out in outs_for(tn, outs, hyper):
        want = ref.tn_dense(tn, out)
        kw = {} if oarg is None else {"output_inds": oarg}
        mk.eq(f"contract(all) out={oarg}", as_value(tn.contract(all, **kw), out, mk), want)
        mk.eq(f"contract(...) out={oarg}", as_value(tn.contract(..., **kw), out, mk), want)
        if oarg is None:
            mk.eq("tn ^ all", as_value(tn ^ all, out, mk), want)
            mk.eq("tn ^ ...", as_value(tn ^ ..., out, mk), want)
        for opt in ("greedy", "auto"):
            mk.eq(f"optimize={opt} out={oarg}", as_value(tn.contract(all, optimize=opt, **kw), out, mk), want)
        paths = list(all_paths(n))
        if not mk.params.get("allpaths"):
            paths = paths[:: max(1, len(paths) // 3)][:3]
        for p in paths:
            try:
                r = tn.contract(all, optimize=p, **kw)
            except Exception as e:   # explicit path rejected (e.g. hyper index handling)
                mk.note(f"explicit path rejected: {type(e).__name__}")
                continue
            mk.eq(f"path={p} out={oarg}", as_value(r, out, mk), want)
        # stripped exponent: (mantissa, exponent)
        r = tn.contract(all, strip_exponent=True, **kw)
        mk.same("strip_exponent returns a pair", isinstance(r, tuple) and len(r) == 2, True)
        mk.eq(f"strip_exponent out={oarg}", as_value(r, out, mk), want)
        r = tn.contract(all, preserve_tensor=True, **kw)
        mk.same("preserve_tensor returns a Tensor", isinstance(r, qtn.Tensor), True)
        mk.eq(f"preserve_tensor out={oarg}", as_value(r, out, mk), want)
        if isinstance(r, qtn.Tensor):
            mk.same("requested output label order", tuple(r.inds), tuple(out))
        # in place: network of one tensor that still denotes the value
        t2 = tn.copy()
        r = t2.contract(all, inplace=True, **kw)
        mk.same("inplace keeps a TensorNetwork", isinstance(r, qtn.TensorNetwork), True)
        mk.eq(f"inplace out={oarg}", as_value(r, out, mk), want)
        t2 = tn.copy()
        r = t2.contract(all, inplace=True, strip_exponent=True, **kw)
        mk.eq(f"inplace+strip out={oarg}", as_value(r, out, mk), want)
        # none of the calls above (all but the last two on copies are out-of-place) may have touched the network itself:
        # it still denotes the same value, and a repeated evaluation gives it again
        mk.eq(f"after all routes out={oarg}: the network still denotes its value (stored arrays untouched)", ref.tn_dense(tn, out), want)
        mk.eq(f"repeated contract(all) out={oarg}", as_value(tn.contract(all, **kw), out, mk), want)


@obligation(PROP, params=[{"geom": g, "expo": x, "allpaths": True} for g in ("loop3", "hyper3", "ring4", "disconnected")
                          for x in ("sym",)], tiers=("thorough",))
def full_contraction_all_paths(mk, geom, expo, allpaths):
    full_contraction(mk, geom, expo)
    tn, sizes, outs = build(mk, geom, "none")
    for oarg, out in outs_for(tn, outs, geom.startswith("hyper")):
        kw = {} if oarg is None else {"output_inds": oarg}
        want = ref.tn_dense(tn, out)
        tree = tn.contraction_tree(optimize="greedy", **kw)
        mk.eq(f"explicit ContractionTree out={oarg}", as_value(tn.contract(all, optimize=tree, **kw), out, mk), want)
        mk.eq(f"optimal out={oarg}", as_value(tn.contract(all, optimize="optimal", **kw), out, mk), want)


def _tag_subsets(tags):
    for r in range(1, len(tags) + 1):
        for s in itertools.combinations(tags, r):
            yield list(s)


@obligation(PROP, params=_G_PARAMS)
def tag_contraction(mk, geom, expo):
    """contract(tags) / contract_tags for every subset of tags, including the subset that
    covers every tensor; plain, in place, stripped."""
    mk.encodes(tc.TensorNetwork.contract_tags, tc.TensorNetwork.contract, tc.TensorNetwork.partition_tensors,
               tc.tensor_contract)
    tn, sizes, outs = build(mk, geom, expo)
    hyper = geom.startswith("hyper")
    tags = [s[0] for s in GEOMS[geom][0]]
    oarg, out = outs_for(tn, outs, hyper)[0] if outs_for(tn, outs, hyper) else (outs[0], outs[0])
    want = ref.tn_dense(tn, out)
    subsets = list(_tag_subsets(tags))
    for sub in subsets:
        covers_all = len(sub) == len(tags)
        kw = {}
        if hyper or (covers_all and oarg is not None):
            if not covers_all:
                # partial contraction of a hyper network needs explicit outputs of the *partial* result
                part = [t for t in tn.tensor_map.values() if any(g in t.tags for g in sub)]
                rest = [t for t in tn.tensor_map.values() if not any(g in t.tags for g in sub)]
                keep = {i for t in rest for i in t.inds} | set(out)
                po = tuple(dict.fromkeys(i for t in part for i in t.inds if i in keep))
                kw = {"output_inds": po}
            else:
                kw = {"output_inds": out}
        for variant in ("plain", "inplace", "strip", "tags_fn"):
            t2 = tn.copy()
            if variant == "plain":
                r = t2.contract(sub, **kw)
            elif variant == "inplace":
                r = t2.contract(sub, inplace=True, **kw)
            elif variant == "strip":
                r = t2.contract(sub, strip_exponent=True, **kw)
            else:
                r = t2.contract_tags(sub, which="any", **kw)
            mk.eq(f"contract({sub}) {variant}", as_value(r, out, mk), want)
        # `which='all'` with the common tag selects everything
    r = tn.contract_tags(["ALL"], which="all", **({"output_inds": out} if (hyper or oarg is not None) else {}))
    mk.eq("contract_tags(['ALL'], which='all')", as_value(r, out, mk), want)


@obligation(PROP, params=[p for p in _G_PARAMS if not p["geom"].startswith("hyper")])
def cumulative_contraction(mk, geom, expo):
    """contract_cumulative / >> for orders of the tags, with and without stripping"""
    mk.encodes(tc.TensorNetwork.contract_cumulative, tc.maybe_unwrap, tc.TensorNetwork.contract_tags)
    tn, sizes, outs = build(mk, geom, expo)
    hyper = geom.startswith("hyper")
    if hyper:
        raise Skip("cumulative contraction of hyper networks needs per-step outputs (covered in tag_contraction)")
    tags = [s[0] for s in GEOMS[geom][0]]
    oarg, out = outs_for(tn, outs, hyper)[0]
    want = ref.tn_dense(tn, out)
    perms = list(itertools.permutations(tags))
    perms = perms[:: max(1, len(perms) // 4)][:4] + [tuple(reversed(tags))]
    for seq in perms:
        kw = {} if oarg is None else {"output_inds": out}
        mk.eq(f"cumulative {seq}", as_value(tn.contract_cumulative(list(seq), **kw), out, mk), want)
        mk.eq(f"cumulative {seq} strip", as_value(tn.contract_cumulative(list(seq), strip_exponent=True, **kw), out, mk), want)
        mk.eq(f"cumulative {seq} equalize", as_value(tn.contract_cumulative(list(seq), equalize_norms=True, **kw), out, mk), want)
        if oarg is None:
            mk.eq(f"tn >> {seq}", as_value(tn >> list(seq), out, mk), want)
        t2 = tn.copy()
        r = t2.contract_cumulative(list(seq[:-1]) or list(seq), inplace=True)
        mk.eq(f"cumulative partial inplace {seq[:-1]}", as_value(r, out, mk), want)
        # partial, NOT in place, with every exponent / norm option: the partially contracted network denotes the value, and
        # the receiver still does afterwards (nothing it shares with the result may have been rescaled)
        if len(seq) >= 2:
            for okw in ({}, {"strip_exponent": True}, {"equalize_norms": True}, {"equalize_norms": 1.0}):
                part = tn.contract_cumulative(list(seq[:-1]), **okw)
                pv = part[0] * 10 ** part[1] if isinstance(part, tuple) else part
                mk.eq(f"cumulative partial {seq[:-1]} {okw}: result denotes the value",
                      ref.tn_dense(pv, out) if hasattr(pv, "tensor_map") else as_value(part, out, mk), want)
                mk.eq(f"cumulative partial {seq[:-1]} {okw}: the receiver still denotes the value", ref.tn_dense(tn, out), want)


@obligation(PROP, params=[{"geom": g, "expo": x} for g in ("chain3", "loop3", "hyper3", "dim1") for x in ("sym", "default")])
def exponent_propagation(mk, geom, expo):
    """copy / select / combine / multiply keep the denoted value (exponent bookkeeping)"""
    mk.encodes(tc.TensorNetwork.copy, tc.TensorNetwork._select_tids, tc.TensorNetwork.add_tensor_network,
               tc.TensorNetwork.select, tc.TensorNetwork.multiply, tc.TensorNetwork.__init__)
    tn, sizes, outs = build(mk, geom, expo)
    hyper = geom.startswith("hyper")
    out = outs_for(tn, outs, hyper)[0][1] if outs_for(tn, outs, hyper) else outs[0]
    want = ref.tn_dense(tn, out)
    mk.eq("copy()", ref.tn_dense(tn.copy(), out), want)
    mk.eq("copy(deep=True)", ref.tn_dense(tn.copy(deep=True), out), want)
    mk.eq("TensorNetwork(tn)", ref.tn_dense(qtn.TensorNetwork(tn), out), want)
    mk.eq("select('ALL', with_exponent=True)", ref.tn_dense(tn.select("ALL", with_exponent=True), out), want)
    # a second network with its own exponent: product of values
    B = mk.array("Z", (2,), "real")
    tn2 = qtn.TensorNetwork([qtn.Tensor(B, ("zz",), tags="Z")])
    e2 = mk.scalar("e2", "real")
    tn2.exponent = e2 if mk.sym else float(e2)
    both = tn | tn2
    want2 = ref.sum_of_products([(want, out), (ref.tn_dense(tn2, ("zz",)), ("zz",))], tuple(out) + ("zz",))
    mk.eq("tn | tn2 (exponents add)", ref.tn_dense(both, tuple(out) + ("zz",)), want2)
    mk.eq("(tn | tn2).contract(all)", as_value(both.contract(all, output_inds=tuple(out) + ("zz",)), tuple(out) + ("zz",), mk), want2)
    both = tn & tn2
    mk.eq("tn & tn2 (virtual)", ref.tn_dense(both, tuple(out) + ("zz",)), want2)
    q = mk.scalar("q", "pos")
    c = q ** tn.num_tensors
    mk.eq("multiply(c, spread_over='all')", ref.tn_dense(tn.multiply(c, spread_over="all"), out), want * c)
    mk.eq("multiply(c, spread_over=1)", ref.tn_dense(tn.multiply(c, spread_over=1), out), want * c)
    z = mk.scalar("z", "cplx")
    mk.eq("multiply(z complex, spread_over=1)", ref.tn_dense(tn.multiply(z, spread_over=1), out), want * z)


@obligation(PROP, params=[{"geom": g} for g in ("chain3", "loop3", "dim1", "hyper3")])
def dense_norm_overlap_trace(mk, geom):
    mk.encodes(tc.TensorNetwork.to_dense, tc.TensorNetwork.norm, tc.TensorNetwork.overlap, tc.TensorNetwork.trace,
               tc.TensorNetwork.conj, tc.TensorNetwork.__matmul__)
    tn, sizes, outs = build(mk, geom, "sym")
    hyper = geom.startswith("hyper")
    out = (outs_for(tn, outs, hyper) or [(outs[0], outs[0])])[0][1]
    want = ref.tn_dense(tn, out)
    # to_dense with groupings
    if len(out) >= 2:
        d = tn.to_dense(out[:1], out[1:])
        mk.eq("to_dense([o0],[rest])", d, want.reshape(d.shape))
        d = tn.to_dense(out[1:], out[:1])
        wt = ref.tn_dense(tn, tuple(out[1:]) + tuple(out[:1]))
        mk.eq("to_dense([rest],[o0])", d, wt.reshape(d.shape))
    d = tn.to_dense(out)
    mk.eq("to_dense(all outer)", d, want.reshape(d.shape))
    if hyper:
        return
    # norm: squared norm equals sum |entry|^2
    nrm = tn.norm()
    tot = 0
    for v in want.reshape(-1):
        tot = tot + v * v.conjugate()
    mk.eq("norm()**2", nrm * nrm, tot)
    # overlap with a second network over the same outer labels
    tn2, _, _ = build_second(mk, out, sizes)
    w2 = ref.tn_dense(tn2, out)
    ov = 0
    for a, b in zip(want.reshape(-1), w2.reshape(-1)):
        ov = ov + a * b.conjugate()      # documented: <O, T> = Tr(O^dag T), `other` is conjugated
    mk.eq("overlap(other)", tn.overlap(tn2), ov)
    ov2 = 0
    for a, b in zip(want.reshape(-1), w2.reshape(-1)):
        ov2 = ov2 + a * b
    mk.eq("tn @ other (no conjugation)", tn @ tn2, ov2)
    # explicit output_inds: the labels in the list are shared by ket and bra, every other label is
    # summed independently in each layer ("the indices to mangle are those not in this list")
    import itertools as _it
    for n in range(len(out) + 1):
        for S in _it.combinations(out, n):
            rest = tuple(i for i in out if i not in S)
            ket = ref.sum_of_products([(want, tuple(out))], tuple(S))
            oth = ref.sum_of_products([(w2, tuple(out))], tuple(S))
            tot_s, ov_s = 0, 0
            for a, b in zip(np.asarray(ket, dtype=object if mk.sym else complex).reshape(-1),
                            np.asarray(oth, dtype=object if mk.sym else complex).reshape(-1)):
                tot_s = tot_s + a * (a.conjugate() if mk.sym else np.conj(a))
                ov_s = ov_s + a * (b.conjugate() if mk.sym else np.conj(b))
            mk.eq(f"norm(output_inds={S}, squared=True)", tn.norm(output_inds=S, squared=True), tot_s)
            mk.eq(f"make_norm(output_inds={S}) contracted", tn.make_norm(output_inds=S).contract(all, output_inds=()), tot_s)
            mk.eq(f"overlap(other, output_inds={S})", tn.overlap(tn2, output_inds=S), ov_s)
            mk.eq(f"make_overlap(other, output_inds={S}) contracted", tn.make_overlap(tn2, output_inds=S).contract(all, output_inds=()), ov_s)
    # trace over a pair of equal-size outer labels
    pairs = [(a, b) for a in out for b in out if a < b and sizes[a] == sizes[b]]
    if pairs:
        a, b = pairs[0]
        rest = tuple(i for i in out if i not in (a, b))
        wt = ref.sum_of_products([(want, tuple("D" if i in (a, b) else i for i in out))], rest, )
        r = tn.trace(a, b)
        mk.eq(f"trace({a},{b})", as_value(r, rest, mk), wt)


def build_second(mk, out, sizes):
    data = mk.array("W", tuple(sizes[i] for i in out), "cplx")
    tn2 = qtn.TensorNetwork([qtn.Tensor(data, tuple(out), tags="W")])
    e = mk.scalar("ew", "real")
    tn2.exponent = e if mk.sym else float(e)
    return tn2, None, None


@obligation(PROP, params=[{"geom": g} for g in ("chain3", "loop3", "dim1")])
def linear_operator(mk, geom):
    """TNLinearOperator: matvec / matmat / adjoint / transpose / conj / to_dense"""
    mk.encodes(tc.TNLinearOperator, tc.TNLinearOperator._matvec, tc.TNLinearOperator._matmat,
               tc.TNLinearOperator._adjoint, tc.TNLinearOperator._transpose, tc.TNLinearOperator.to_dense)
    tn, sizes, outs = build(mk, geom, "sym")
    out = infer_out(tn)
    left, right = out[:1], out[1:]
    if not right:
        left, right = (), out
    want = ref.tn_dense(tn, tuple(left) + tuple(right))
    dl = int(np.prod([sizes[i] for i in left])) if left else 1
    dr = int(np.prod([sizes[i] for i in right])) if right else 1
    M = want.reshape(dl, dr)
    op = tc.TNLinearOperator(tn, left_inds=left, right_inds=right)
    mk.same("shape", tuple(op.shape), (dl, dr))
    v = mk.array("v", (dr,), "cplx")
    mk.eq("A @ v", op @ v, ref.matmul(M, v))
    V = mk.array("V", (dr, 2), "cplx")
    mk.eq("A @ V (matmat)", op @ V, ref.matmul(M, V))
    u = mk.array("u", (dl,), "cplx")
    mk.eq("A.H @ u", op.H @ u, ref.matmul(ref.dag(M), u))
    mk.eq("A.T @ u", op.T @ u, ref.matmul(M.T, u))
    mk.eq("A.conj() @ v", op.conj() @ v, ref.matmul(np.conj(M) if not mk.sym else ref.dag(M).T, v))
    mk.eq("to_dense()", op.to_dense(), M)
    mk.eq("A.H.to_dense()", op.H.to_dense(), ref.dag(M))
    mk.eq("rmatvec", op.rmatvec(u), ref.matmul(ref.dag(M), u))
    if not mk.sym:
        # the stored exponent need not be a python float: an int, a numpy.float32 (what equalize_norms_(value)
        # accumulates on float32 / complex64 networks) ... must all scale the operator
        base = ref.tn_dense(tn, tuple(left) + tuple(right), with_exponent=False).reshape(dl, dr)
        for ex in (2, np.float32(0.5), np.float64(-1.25), 1.5):
            t2 = tn.copy()
            t2.exponent = ex
            o2 = tc.TNLinearOperator(t2, left_inds=left, right_inds=right)
            mk.eq(f"stored exponent of type {type(ex).__name__}: to_dense() == 10**e * M", o2.to_dense(), base * 10.0 ** float(ex), tol=1e-6)
            mk.eq(f"stored exponent of type {type(ex).__name__}: A @ v", o2 @ v, (base * 10.0 ** float(ex)) @ v, tol=1e-6)
    # every word of length <= 3 over the derivations {H, T, conj}: dense form, action, trace, astype
    import itertools as _it
    conjM = ref.dag(M).T
    acts = {"H": (lambda X: ref.dag(X)), "T": (lambda X: X.T), "C": (lambda X: ref.dag(X).T)}
    gets = {"H": (lambda o: o.H), "T": (lambda o: o.T), "C": (lambda o: o.conj())}
    for n in (1, 2, 3):
        for word in _it.product("HTC", repeat=n):
            o, X = op, M
            for w in word:
                o, X = gets[w](o), acts[w](X)
            name = ".".join(word)
            mk.same(f"A.{name}: shape", tuple(o.shape), tuple(X.shape))
            mk.eq(f"A.{name}: to_dense()", o.to_dense(), X)
            x = v if X.shape[1] == dr else u
            y = u if X.shape[0] == dl else v
            mk.eq(f"A.{name} @ x", o @ x, ref.matmul(X, x))
            if n <= 2:
                mk.eq(f"A.{name}: rmatvec", o.rmatvec(y), ref.matmul(ref.dag(X), y))
                mk.eq(f"A.{name} @ X (matmat)", o @ (V if X.shape[1] == dr else mk.array("U2", (dl, 2), "cplx")),
                      ref.matmul(X, V if X.shape[1] == dr else mk.array("U2", (dl, 2), "cplx")))
                if dl == dr:
                    mk.eq(f"A.{name}: trace()", o.trace(), ref.trace(X))
                if not mk.sym:
                    mk.eq(f"A.{name}: astype(complex128).to_dense()", o.astype("complex128").to_dense(), X)


@obligation(PROP, params=[{"L": 3, "cyclic": False}, {"L": 3, "cyclic": True}, {"L": 4, "cyclic": False}])
def structured_1d(mk, L, cyclic):
    """1D structured contraction (`^ ...`, slices) of an MPS-with-itself overlap network and of
    the bare MPS, with a stored exponent"""
    from quimb.tensor.tn1d import core as c1
    mk.encodes(c1.TensorNetwork1DFlat.contract_structured if hasattr(c1, "TensorNetwork1DFlat") else c1.TensorNetwork1D.contract_structured,
               tc.TensorNetwork.contract)
    D, d = 2, 2
    arrays = []
    for i in range(L):
        if cyclic:
            shp = (D, D, d)
        else:
            shp = (D, d) if i in (0, L - 1) else (D, D, d)
        arrays.append(mk.array(f"T{i}", shp, "cplx" if i == 1 else "real"))
    mps = qtn.MatrixProductState(arrays)
    e = mk.scalar("e", "real")
    mps.exponent = e if mk.sym else float(e)
    out = tuple(f"k{i}" for i in range(L))
    want = ref.tn_dense(mps, out)
    mk.eq("mps ^ ...", as_value(mps ^ ..., out, mk), want)
    mk.eq("mps ^ all", as_value(mps ^ all, out, mk), want)
    mk.eq("mps.contract(..., strip_exponent)", as_value(mps.contract(..., strip_exponent=True), out, mk), want)
    mk.eq("mps ^ slice(0, 2)", as_value(mps ^ slice(0, 2), out, mk), want)
    mk.eq("mps ^ slice(L-1, 0, -1)", as_value(mps ^ slice(L - 1, 0, -1), out, mk), want)
    mk.eq("mps.to_dense()", mps.to_dense().reshape(-1), want.reshape(-1))
    ov = mps.H & mps
    tot = 0
    for v in want.reshape(-1):
        tot = tot + v * v.conjugate()
    mk.eq("(mps.H & mps) ^ ...", as_value(ov ^ ..., (), mk), tot)
    mk.eq("(mps.H & mps) ^ all", as_value(ov ^ all, (), mk), tot)
    mk.eq("mps.H @ mps", mps.H @ mps, tot)


@obligation(PROP, numeric=True)
def tiny_complex_values_numeric(mk):
    """[numeric-only supplement] every scalar route on complex networks whose value is tiny (1e-10 ... 1e-20): the
    result keeps its imaginary part and agrees with the reference to 1e-9 RELATIVE accuracy (symbolically the scalar
    'realification' of results is an identity stub, so this float-level behaviour is only visible here)"""
    mk.encodes(tc.maybe_realify_scalar, tc.tensor_contract, tc.TensorNetwork.contract_tags, tc.TensorNetwork.contract_cumulative)
    if mk.sym:
        mk.same("numeric-only obligation", True, True)
        return
    rng = np.random.default_rng(3)
    for scale in (1e-5, 1e-7, 1e-10):
        a = (rng.normal(size=(2, 3)) + 1j * rng.normal(size=(2, 3))) * scale
        b = (rng.normal(size=(3, 2)) + 1j * rng.normal(size=(3, 2))) * scale
        cc = rng.normal(size=(2, 2)) + 1j * rng.normal(size=(2, 2))
        ts = [qtn.Tensor(a, ("x", "y"), tags="A"), qtn.Tensor(b, ("y", "z"), tags="B"), qtn.Tensor(cc, ("z", "x"), tags="C")]
        tn = qtn.TensorNetwork(ts)
        want = np.einsum("xy,yz,zx->", a, b, cc)
        routes = {
            "tensor_contract(*ts)": lambda: tc.tensor_contract(*ts),
            "tn.contract(all)": lambda: tn.contract(all),
            "tn ^ all": lambda: tn ^ all,
            "contract_tags(all)": lambda: tn.contract_tags(all),
            "contract_tags(['A','B','C'], which='any')": lambda: tn.contract_tags(["A", "B", "C"], which="any"),
            "contract_cumulative": lambda: tn.contract_cumulative(["A", "B", "C"]),
            "tn >> tags": lambda: tn >> ["A", "B", "C"],
            "strip_exponent": lambda: (lambda m, e: m * 10 ** e)(*tn.contract(all, strip_exponent=True)),
            "Tensor @ Tensor @ Tensor": lambda: (ts[0] @ ts[1]) @ ts[2],
        }
        for name, fn in routes.items():
            got = complex(fn())
            mk.same(f"[numeric-only] scale {scale}: {name} relative error below 1e-9 (imaginary part kept)",
                    bool(abs(got - want) <= 1e-9 * abs(want)), True)
