"""C19 - all representations of one Hamiltonian denote the same operator.

(a) rank <-> configuration (engine SX).  The real kernels of quimb/operator/configcore.py
    (JIT off = their Python source) are run on a SYMBOLIC rank: bit-vector rank for the
    shift/mask kernels (no symmetry, Z2: a single path, the solver proves the goals for all
    ranks at once), integer rank for the mixed-radix / Pascal-table kernels (U1, U1xU1: the
    `r >= pt[j, k]` branches fork, one path per configuration, the frontier is exhausted).
    Goals: digits in range, unrank(r) in the sector, rank(unrank(r)) == r, unrank strictly
    increasing in lexicographic order, independent position-in-sorted-enumeration reference,
    size identities.  The public HilbertSpace API (labellings, orderings, species, sectors)
    and the configcore dispatchers are driven the same way.
(b) operator semantics.  Concrete term lists with dyadic coefficients, SYMBOLIC basis
    configuration: the real `flatconfig_coupling_numba` / `_check_next_coupled_term` run on
    symbolic bits (each bit is case-split when the kernel reads it) and the produced
    configuration -> coefficient map is compared with an independent operator-string
    reference (explicit case analysis per named operator, fermionic signs counted on
    occupation numbers), before and after the Jordan-Wigner and Pauli rewrites.  The rewrites
    themselves (jordan_wigner_transform / simplify / pauli_decompose, simplify_single_site_ops)
    run on SYMBOLIC complex coefficients and the denotation of their output is compared with
    that of their input.  Every matrix representation (dense, 7 sparse formats, matvec, linear
    operator, ikron, MPO, local terms) is compared with an independent Kronecker-product
    reference of the RAW term list (the representations share the rewritten term list, so
    comparing them with each other cannot see a wrong rewrite); sector matrices with the
    projected reference; predefined models with their documented formulas.
(c) SpinHam1D / MPO_ham_* run with SYMBOLIC real coupling constants, densified, vs the textbook
    sum over bonds and vs the matrix-side generators ham_* (combined from unit responses).
Known defects of the tree under test are isolated in their own obligations: single_site_simplify /
same_site_products, dispatcher_roundtrip[symmetry=1], spinham_build_sparse[cyclic=True],
local_terms_constant, zero_operator, sector_nonconserving, rank_mixed_radix[sizes=(300.2)].
"""
import contextlib
import itertools
import math

import numpy as np
import z3

import quimb as qu
import quimb.tensor as qtn
from quimb.operator import builder as qb
from quimb.operator import configcore as cc
from quimb.operator import hilbertspace as qh
from quimb.operator import SparseOperatorBuilder, HilbertSpace
from quimb.tensor import tensor_builder as tb
from quimb.gen import operators as go

from qv import poly as P
from qv import sx
from qv.harness import obligation

PROP = "C19"
META = {
    "bounds": {
        "quick": {
            "rank kernels": "symbolic rank r over the whole sector; no symmetry / Z2: n in 1..6 (64-bit bit-vectors, all ranks in "
                            "one path); mixed radix: 6 dimension tuples; U1: n <= 5 all k, n = 6 for k in {0,3,6}; U1xU1: "
                            "(na,nb) in {(1,1),(2,1),(2,2),(1,3)} all fillings + 3 larger",
            "HilbertSpace API": "13 constructions: string / tuple / mixed labels, order None / True / sequence / key function / "
                                "'blocked' / 'interleaved', species by function and by dict (incl. a non-involutive blocked "
                                "permutation), all sector spellings, dims by dict and by sequence",
            "coupling semantics": "7 term lists (n = 3..6 sites; 2-site nearest / long range, 3-site, complex and repeated "
                                  "coefficients, fermionic hopping / pairing / interaction, every named operator), symbolic "
                                  "basis configuration, x {plain, pauli_decompose, 'zx'} x {jordan_wigner} where applicable",
            "representations": "14 (term list, rewrite) combinations x 19 representations; second coefficient vector; symbolic "
                               "complex coefficients on one-term builders for n <= 4",
            "sectors": "every sector of Z2 / U1 / U1xU1 of four 5-site conserving models (3 species orderings)",
            "MPO builders": "8 models, L = 3 (+ L = 4 heis / ising, L = 2 isotropic), open and cyclic, symbolic real couplings; "
                            "custom SpinHam1D S = 1/2 and S = 1",
        },
        "thorough": {
            "rank kernels": "no symmetry / Z2 additionally n in {7..10, 16, 31, 62}; mixed radix 9 tuples; U1 n <= 10 all k and "
                            "(12, 6); U1xU1 all (na, nb) <= (4, 4), all fillings",
            "coupling semantics": "adds an 8-site ring (256 configurations)", "representations": "all 36 (term list, rewrite) combinations",
            "sectors": "adds the 6-site grid", "MPO builders": "L in {2, 3, 4} for all 8 models",
            "single_site_simplify": "all triples of named operators",
        },
    },
    "outside": [
        "numba's compilation of the kernels (their Python source is executed); int64 overflow of ranks for n >= 63; Z2 with "
        "a single site (1 << -1 only fails in Python)",
        "SparseOperatorBuilder end-to-end with symbolic coefficients: the public API coerces to a numeric dtype; the MPO state "
        "machine's coefficient placement is exercised on concrete coefficient vectors (two per term list) and one-term builders only",
        "scipy.sparse format conversion and LinearOperator internals; OS scheduling of parallel= (world_rank striding is run)",
        "build_local_ham / LocalHam1D (C11), PEPO builder, 2D / 3D / j1j2 / hardcore-Hubbard / bilinear-biquadratic generators, S > 1",
        "local dimensions above 255 (configurations are documented to be uint8 arrays: HilbertSpace({'a': 300, 'b': 2}) wraps)",
        "rand_operator (its default ops='XYZ' is rejected by the builder: ValueError, reported, no goal)",
        "coefficients within 1e-12 of a cancellation (documented pruning tolerance of the rewrites)",
    ],
    "assumptions": [
        "environment substitution: uint8 configuration buffers (np.empty/zeros/ones(dtype=uint8) inside configcore / hilbertspace) "
        "are unbounded object buffers (a stored bool is stored as 0/1); side condition 'digit <= 255' is a goal for mixed radix",
        "environment substitution: np.int64(r) keeps a symbolic rank as an unbounded integer; bit-vector ranks are 64-bit unsigned "
        "(numba types `r = 0; r = (r << 1) | xi` as int64; with JIT off numpy would promote int | uint8 to uint8 and wrap for "
        "n >= 9, so concrete runs for n >= 9 use the compiled kernels in a child interpreter)",
        "environment substitution: numba.typed.Dict (a plain dict with JIT off) is a list-backed map whose key equality is decided "
        "by the solver",
        "symbolic basis configuration: each input bit is case-split (forked) the first time the kernel reads it",
        "environment substitution in tensor_builder: np.zeros(.., dtype=complex) is an object array and maybe_make_real's "
        "np.allclose test is decided structurally (it only changes the dtype, not the values)",
        "equality tests on symbolic couplings (`jx == jy`, `factor == 0.0`) take the generic (unequal) branch; the equal branch "
        "is reached by passing the same symbol (isotropic variants)",
        "rewrites with symbolic coefficients: coefficients in general position - `abs(c) < atol` is false, `c.imag == 0` is "
        "decided structurally; cancelling coefficients are covered by concrete term lists",
        "for all complex coefficients is discharged by linearity: one-term builders combined with symbolic coefficients, plus two "
        "concrete dyadic coefficient vectors for the multi-term code paths; matrix-side generators ham_* only accept numbers "
        "and are combined from their unit responses (their affinity is checked at one mixed point)",
        "meaning of a term: ordinary operator product, leftmost factor leftmost; with jordan_wigner=True '+' / '-' on register q "
        "are the fermionic c^dag_q / c_q with respect to the Hilbert space's register order",
        "dyadic coefficients: all float arithmetic on the concrete lists is exact, comparisons are exact rational identities",
    ],
}


# ====================================================================== environment proxies

class _CfgBuf(np.ndarray):
    """object-dtype stand-in for a uint8 configuration buffer.  Storing a boolean stores the
    integer 0/1, as a uint8 array does."""

    def __setitem__(self, idx, val):
        if isinstance(val, sx.SymBool):
            val = sx.SymBV(z3.If(val.e, z3.BitVecVal(1, 64), z3.BitVecVal(0, 64)))
        np.ndarray.__setitem__(self, idx, val)


def _cfgbuf(shape, fill=None):
    a = np.empty(shape, dtype=object).view(_CfgBuf)
    if fill is not None:
        np.ndarray.__setitem__(a, Ellipsis, fill)
    return a


class _I64:
    """np.int64 stand-in: as a cast it keeps symbolic scalars (unbounded integers), as a dtype
    the proxy translates it back to np.int64"""

    def __call__(self, x):
        return x if isinstance(x, sx.Sym) else np.int64(x)


class _NP:
    """numpy stand-in for quimb.operator.configcore / hilbertspace in symbolic mode: uint8
    configuration buffers become unbounded object buffers, everything else is numpy."""

    def __init__(self):
        self.int64 = _I64()

    def __getattr__(self, k):
        return getattr(np, k)

    def _dt(self, dtype):
        return np.int64 if isinstance(dtype, _I64) else dtype

    def empty(self, shape, dtype=float, **kw):
        if dtype is np.uint8:
            return _cfgbuf(shape)
        return np.empty(shape, dtype=self._dt(dtype), **kw)

    def zeros(self, shape, dtype=float, **kw):
        if dtype is np.uint8:
            return _cfgbuf(shape, 0)
        return np.zeros(shape, dtype=self._dt(dtype), **kw)

    def ones(self, shape, dtype=float, **kw):
        if dtype is np.uint8:
            return _cfgbuf(shape, 1)
        return np.ones(shape, dtype=self._dt(dtype), **kw)

    def array(self, obj, dtype=None, **kw):
        return np.array(obj, dtype=self._dt(dtype), **kw)


class _SymKeyDict:
    """numba typed-Dict stand-in (JIT off it is a plain dict, which needs hashable keys): key
    lookup by `==`, decided by the solver when the keys are symbolic ranks."""

    def __init__(self):
        self.items = []

    @classmethod
    def empty(cls, *a, **k):
        return cls()

    def _find(self, key):
        for i, (k, _) in enumerate(self.items):
            if k == key:
                return i
        return None

    def __contains__(self, key):
        return self._find(key) is not None

    def __getitem__(self, key):
        i = self._find(key)
        if i is None:
            raise KeyError(key)
        return self.items[i][1]

    def __setitem__(self, key, val):
        i = self._find(key)
        if i is None:
            self.items.append((key, val))
        else:
            self.items[i] = (key, val)


class _SplitBuf(_CfgBuf):
    """input configuration of symbolic bits: a bit is case-split (fork iff both values are
    feasible on the path) the first time the code under test reads it, and concrete afterwards"""

    def __getitem__(self, idx):
        v = np.ndarray.__getitem__(self, idx)
        if isinstance(v, sx.Sym):
            v = 0 if (v == 0) else 1
            np.ndarray.__setitem__(self, idx, v)
        return v


@contextlib.contextmanager
def _env(mk):
    """symbolic mode: swap the `np` / `Dict` names of the two kernel modules for the proxies"""
    if not mk.sym:
        yield
        return
    old = (cc.np, cc.Dict, qh.np)
    proxy = _NP()
    cc.np, cc.Dict, qh.np = proxy, _SymKeyDict, proxy
    try:
        yield
    finally:
        cc.np, cc.Dict, qh.np = old


# ====================================================================== small SX helpers

def _num(x):
    if isinstance(x, sx.SymBool):
        return x._asint()
    if isinstance(x, (np.integer, np.bool_)):
        return int(x)
    return x


def _nums(c):
    return [_num(x) for x in c]


def _not(a):
    return ~a if isinstance(a, sx.Sym) else (not a)


def _and(conds):
    r = True
    for c in conds:
        r = c & r if isinstance(c, sx.Sym) else (r & bool(c) if isinstance(r, sx.Sym) else (bool(c) and r))
    return r


def _implies(a, b):
    na = _not(a)
    if isinstance(na, sx.Sym):
        return na | b
    if isinstance(b, sx.Sym):
        return b | na
    return na or bool(b)


def _lex_lt(a, b):
    """a <lex b as one (possibly symbolic) boolean"""
    res = False
    for x, y in zip(reversed(list(a)), reversed(list(b))):
        lt, eq = x < y, x == y
        tail = (eq & res) if isinstance(eq, sx.Sym) else ((res & eq) if isinstance(res, sx.Sym) else (bool(eq) and res))
        if isinstance(lt, sx.Sym):
            res = lt | tail
        elif isinstance(tail, sx.Sym):
            res = tail | bool(lt)
        else:
            res = bool(lt) or tail
    return res


def _sum(xs):
    tot = 0
    for x in xs:
        tot = tot + x
    return tot


def _in_range(cs, sizes):
    return _and([(x >= 0) & (x < s) if isinstance(x, sx.Sym) else (0 <= x < s) for x, s in zip(cs, sizes)])


def _cfg_array(mk, bits):
    if mk.sym:
        a = _cfgbuf(len(bits)).view(_SplitBuf)
        for i, b in enumerate(bits):
            np.ndarray.__setitem__(a, i, b)
        return a
    return np.array(bits, dtype=np.uint8)


def _concrete(c):
    """plain ints of a configuration that is concrete on this path (forks if it is not)"""
    return tuple(int(x) for x in c)


def _sector_configs(n, symmetry=None, sector=None, sizes=None):
    """independent enumeration, lexicographically sorted, of the configurations of a sector"""
    sizes = sizes or (2,) * n
    out = []
    for c in itertools.product(*[range(s) for s in sizes]):
        if symmetry == "Z2" and sum(c) % 2 != sector:
            continue
        if symmetry == "U1" and sum(c) != sector:
            continue
        if symmetry == "U1U1":
            (na, ka), (nb, kb) = sector
            if sum(c[:na]) != ka or sum(c[na:]) != kb:
                continue
        out.append(c)
    return out


# ====================================================================== (a) rank kernels

def _jit_rank(kind, n, p, r, r2):
    """(child process, JIT on) the compiled kernels on concrete ranks"""
    if kind == "nosymm":
        c, c2 = cc.rank_to_flatconfig_nosymm(r, n), cc.rank_to_flatconfig_nosymm(r2, n)
        back = cc.flatconfig_to_rank_nosymm(c)
    else:
        c, c2 = cc.rank_to_flatconfig_z2(r, n, p), cc.rank_to_flatconfig_z2(r2, n, p)
        back = cc.flatconfig_to_rank_z2(c)
    return [int(x) for x in c], [int(x) for x in c2], int(back)


def _bv_kernels(mk, kind, n, p, r, r2):
    """symbolic mode: the Python source on 64-bit bit-vectors (numba types the rank accumulator
    `r = 0; r = (r << 1) | xi` as int64).  Numeric mode: in-process for n <= 8; beyond that numpy's
    scalar promotion with JIT off (`int | uint8 -> uint8`) is not what the compiled kernel does,
    so the concrete run goes through the compiled kernels in a child interpreter."""
    if mk.sym or n <= 8:
        with _env(mk):
            if kind == "nosymm":
                c, c2 = cc.rank_to_flatconfig_nosymm(r, n), cc.rank_to_flatconfig_nosymm(r2, n)
                return c, c2, cc.flatconfig_to_rank_nosymm(c)
            c, c2 = cc.rank_to_flatconfig_z2(r, n, p), cc.rank_to_flatconfig_z2(r2, n, p)
            return c, c2, cc.flatconfig_to_rank_z2(c)
    from qv import jitrun
    return jitrun.call("props.c19", "_jit_rank", kind, n, p, int(r), int(r2))


_N_Q = (1, 2, 3, 4, 5, 6)
_N_T = (7, 8, 9, 10, 16, 31, 62)


def _ntiers(n):
    return ("quick", "thorough") if n in _N_Q else ("thorough",)


@obligation(PROP, params=[{"n": n, "_tiers": _ntiers(n)} for n in _N_Q + _N_T], exc_is_violation=True)
def rank_nosymm(mk, n):
    """no symmetry: unrank(r) is the n-bit binary expansion of r; all ranks at once (bit-vectors)"""
    mk.encodes(cc.rank_to_flatconfig_nosymm, cc.rank_into_flatconfig_nosymm, cc.flatconfig_to_rank_nosymm)
    size = 2 ** n
    r = mk.bv("r", 64, hi=size - 1)
    r2 = mk.bv("r2", 64, hi=size - 1)
    c, c2, back = _bv_kernels(mk, "nosymm", n, None, r, r2)
    mk.same("length of the configuration", (len(c), len(c2)), (n, n))
    cs, cs2 = _nums(c), _nums(c2)
    mk.check(_in_range(cs, (2,) * n), "every digit is a bit")
    mk.check(back == r, "rank(unrank(r)) == r for all 0 <= r < 2**n")
    mk.check(_sum(x * 2 ** (n - 1 - i) for i, x in enumerate(cs)) == r, "unrank(r) is the big-endian binary expansion of r")
    mk.check(_implies(r < r2, _lex_lt(cs, cs2)), "r < r2 => unrank(r) <lex unrank(r2)")


@obligation(PROP, params=[{"n": n, "p": p, "_tiers": _ntiers(n)} for n in (_N_Q + _N_T)[1:] for p in (0, 1)],
            exc_is_violation=True)
def rank_z2(mk, n, p):
    """parity sector: size 2**(n-1); first n-1 bits free, last bit fixes the parity"""
    mk.encodes(cc.rank_to_flatconfig_z2, cc.rank_into_flatconfig_z2, cc.flatconfig_to_rank_z2)
    size = 2 ** (n - 1)
    r = mk.bv("r", 64, hi=size - 1)
    r2 = mk.bv("r2", 64, hi=size - 1)
    c, c2, back = _bv_kernels(mk, "z2", n, p, r, r2)
    mk.same("length of the configuration", (len(c), len(c2)), (n, n))
    cs, cs2 = _nums(c), _nums(c2)
    mk.check(_in_range(cs, (2,) * n), "every digit is a bit")
    par = 0
    for x in cs:
        par = par ^ x
    mk.check(par == p, "unrank(r) has the sector's parity")
    mk.check(back == r, "rank(unrank(r)) == r for all 0 <= r < 2**(n-1)")
    mk.check(_implies(r < r2, _lex_lt(cs, cs2)), "r < r2 => unrank(r) <lex unrank(r2)")


_RADIX = [((2, 3), "quick"), ((3, 2, 4), "quick"), ((2, 2, 5, 3), "quick"), ((4, 1, 3), "quick"), ((7,), "quick"),
          ((3, 3, 3, 3, 3), "thorough"), ((2, 5, 2, 7, 3, 2), "thorough"), ((255, 2, 3), "thorough")]


@obligation(PROP, params=[{"sizes": s, "_tiers": ("quick", "thorough") if t == "quick" else ("thorough",)} for s, t in _RADIX],
            exc_is_violation=True)
def rank_mixed_radix(mk, sizes):
    """mixed radix (sites of different local dimension), integer rank, no forks"""
    mk.encodes(cc.calculate_strides, cc.rank_to_flatconfig_mixed_radix_nosymm, cc.rank_into_flatconfig_mixed_radix_nosymm,
               cc.flatconfig_to_rank_mixed_radix_nosymm)
    size = math.prod(sizes)
    szs = np.array(sizes, dtype=np.int64)
    strides = cc.calculate_strides(szs)
    mk.same("strides are the suffix products", [int(s) for s in strides],
            [math.prod(sizes[i + 1:]) for i in range(len(sizes))])
    r = mk.int("r", 0, size - 1)
    r2 = mk.int("r2", 0, size - 1)
    with _env(mk):
        c = cc.rank_to_flatconfig_mixed_radix_nosymm(r, szs, strides)
        c2 = cc.rank_to_flatconfig_mixed_radix_nosymm(r2, szs, strides)
        back = cc.flatconfig_to_rank_mixed_radix_nosymm(c, strides)
    cs, cs2 = _nums(c), _nums(c2)
    mk.same("length of the configuration", (len(cs), len(cs2)), (len(sizes),) * 2)
    mk.check(_in_range(cs, sizes), "every digit is below the local dimension")
    # side condition of the buffer substitution (uint8 -> unbounded): the real buffer can hold the digit
    mk.check(_in_range(cs, (256,) * len(sizes)), "every digit fits the uint8 configuration buffer")
    mk.check(back == r, "rank(unrank(r)) == r for all 0 <= r < prod(sizes)")
    mk.check(_implies(r < r2, _lex_lt(cs, cs2)), "r < r2 => unrank(r) <lex unrank(r2)")


def _u1_params():
    out = []
    for n in range(1, 9):
        for k in range(0, n + 1):
            quick = n <= 5 or (n == 6 and k in (0, 3, 6))
            out.append({"n": n, "k": k, "_tiers": ("quick", "thorough") if quick else ("thorough",)})
    for n in (9, 10):
        for k in range(n + 1):
            out.append({"n": n, "k": k, "_tiers": ("thorough",)})
    out.append({"n": 12, "k": 6, "_tiers": ("thorough",)})
    return out


@obligation(PROP, params=_u1_params(), exc_is_violation=True, max_paths=5000, wall_s=600)
def rank_u1(mk, n, k):
    """particle-number sector, Pascal-table kernels; one path per configuration"""
    mk.encodes(cc.build_pascal_table, cc.rank_to_flatconfig_u1_pascal, cc.rank_into_flatconfig_u1_pascal,
               cc.flatconfig_to_rank_u1_pascal)
    pt = cc.build_pascal_table(n)
    size = int(pt[n, k])
    mk.same("sector size from the Pascal table is C(n, k)", size, math.comb(n, k))
    r = mk.int("r", 0, size - 1)
    with _env(mk):
        c = cc.rank_to_flatconfig_u1_pascal(r, n, k, pt)
        back = cc.flatconfig_to_rank_u1_pascal(c, n, k, pt)
        cs = _nums(c)
        mk.same("length of the configuration", len(cs), n)
        mk.check(_in_range(cs, (2,) * n), "every digit is a bit")
        mk.check(_sum(cs) == k, "unrank(r) has k particles")
        mk.check(back == r, "rank(unrank(r)) == r")
        allc = _sector_configs(n, "U1", k)
        mk.check(r == allc.index(_concrete(cs)), "r is the position of unrank(r) in the sorted list of the sector's configurations")
        nxt = r + 1
        if nxt <= size - 1:
            c2 = _nums(cc.rank_to_flatconfig_u1_pascal(nxt, n, k, pt))
            mk.check(_lex_lt(cs, c2), "unrank(r) <lex unrank(r + 1)")


def _u1u1_params():
    out = []
    for na, nb in itertools.product(range(1, 5), repeat=2):
        for ka, kb in itertools.product(range(na + 1), range(nb + 1)):
            quick = (na, nb) in ((1, 1), (2, 1), (2, 2), (1, 3)) or (na, ka, nb, kb) in ((3, 1, 3, 2), (4, 2, 2, 1), (2, 0, 4, 4))
            out.append({"na": na, "ka": ka, "nb": nb, "kb": kb, "_tiers": ("quick", "thorough") if quick else ("thorough",)})
    return out


@obligation(PROP, params=_u1u1_params(), exc_is_violation=True, max_paths=5000, wall_s=600)
def rank_u1u1(mk, na, ka, nb, kb):
    """two conserved species in contiguous blocks: rank = rank_a * size_b + rank_b"""
    mk.encodes(cc.rank_to_flatconfig_u1u1_pascal, cc.rank_into_flatconfig_u1u1_pascal, cc.flatconfig_to_rank_u1u1_pascal,
               cc.rank_into_flatconfig_u1_pascal, cc.flatconfig_to_rank_u1_pascal, cc.build_pascal_table)
    pt = cc.build_pascal_table(max(na, nb))
    size = int(pt[na, ka]) * int(pt[nb, kb])
    mk.same("sector size is C(na, ka) * C(nb, kb)", size, math.comb(na, ka) * math.comb(nb, kb))
    n = na + nb
    r = mk.int("r", 0, size - 1)
    with _env(mk):
        c = cc.rank_to_flatconfig_u1u1_pascal(r, na, ka, nb, kb, pt)
        back = cc.flatconfig_to_rank_u1u1_pascal(c, na, ka, nb, kb, pt)
        cs = _nums(c)
        mk.same("length of the configuration", len(cs), n)
        mk.check(_in_range(cs, (2,) * n), "every digit is a bit")
        mk.check(_and([_sum(cs[:na]) == ka, _sum(cs[na:]) == kb]), "unrank(r) has (ka, kb) particles in the two blocks")
        mk.check(back == r, "rank(unrank(r)) == r")
        allc = _sector_configs(n, "U1U1", ((na, ka), (nb, kb)))
        mk.check(r == allc.index(_concrete(cs)), "r is the position of unrank(r) in the sorted list of the sector's configurations")
        nxt = r + 1
        if nxt <= size - 1:
            c2 = _nums(cc.rank_to_flatconfig_u1u1_pascal(nxt, na, ka, nb, kb, pt))
            mk.check(_lex_lt(cs, c2), "unrank(r) <lex unrank(r + 1)")


def _binom(n, k):
    """independent binomial: multiplicative formula on Python ints"""
    if k < 0 or k > n:
        return 0
    num = den = 1
    for i in range(1, k + 1):
        num *= n - k + i
        den *= i
    return num // den


@obligation(PROP, params=[{"nmax": 10, "_tiers": ("quick",)}, {"nmax": 40, "_tiers": ("thorough",)}], exc_is_violation=True)
def size_identities(mk, nmax):
    """Pascal table == binomials, sum_k C(n,k) == 2**n, Vandermonde for the two-species split,
    HilbertSpace.size / get_size == number of configurations of the sector (brute force)"""
    mk.encodes(cc.build_pascal_table, HilbertSpace.get_size, HilbertSpace.size.fget)
    pt = cc.build_pascal_table(nmax)
    mk.same("table shape", pt.shape, (nmax + 1, nmax + 1))
    bad = [(n, k) for n in range(nmax + 1) for k in range(nmax + 1) if int(pt[n, k]) != _binom(n, k)]
    mk.same("Pascal table entries equal C(n, k) (0 above the diagonal)", bad, [])
    mk.same("sum_k C(n, k) == 2**n", [sum(int(pt[n, k]) for k in range(n + 1)) for n in range(nmax + 1)],
            [2 ** n for n in range(nmax + 1)])
    mk.same("even and odd sectors each hold 2**(n-1) configurations",
            [sum(int(pt[n, k]) for k in range(p, n + 1, 2)) for n in range(1, nmax + 1) for p in (0, 1)],
            [2 ** (n - 1) for n in range(1, nmax + 1) for p in (0, 1)])
    for n in range(1, min(nmax, 8) + 1):
        hs = HilbertSpace(n)
        mk.same(f"n={n} size without symmetry", int(hs.size), 2 ** n)
        for p, name in ((0, "even"), (1, "odd")):
            cnt = len(_sector_configs(n, "Z2", p))
            mk.same(f"n={n} Z2 {name}", (int(HilbertSpace(n, sector=name).size), int(hs.get_size(p, "Z2"))), (cnt, cnt))
        for k in range(n + 1):
            cnt = len(_sector_configs(n, "U1", k))
            mk.same(f"n={n} U1 k={k}", (int(HilbertSpace(n, sector=k, symmetry="U1").size), int(hs.get_size(k))), (cnt, cnt))
        if n <= 6:
            for na in range(0, n + 1):
                nb = n - na
                for ka, kb in itertools.product(range(na + 1), range(nb + 1)):
                    sec = ((na, ka), (nb, kb))
                    cnt = len(_sector_configs(n, "U1U1", sec))
                    mk.same(f"n={n} U1U1 {sec}", int(hs.get_size(sec, "U1U1")), cnt)
            mk.same(f"n={n} sum over (ka, kb) sectors of one split covers the space",
                    sum(int(hs.get_size(((n // 2, ka), (n - n // 2, kb)), "U1U1"))
                        for ka in range(n // 2 + 1) for kb in range(n - n // 2 + 1)), 2 ** n)
    hs = HilbertSpace({"a": 2, "b": 3, "c": 4})
    mk.same("mixed radix size", int(hs.size), 24)


# ====================================================================== (a') public HilbertSpace API

def _first(site):
    return site[0]


_UD = (("u", 0), ("d", 0), ("u", 1), ("d", 1), ("u", 2))
# name -> constructor kwargs, expected register order, expected enumeration order (blocked for
# U1U1), independent sector predicate data, rank kind
HS_CASES = {
    "letters_nosymm": dict(kw=dict(sites=("d", "a", "c", "b")), regs=("d", "a", "c", "b"), kind="bv"),
    "tuples_sorted_z2odd": dict(kw=dict(sites=((1, 0), (0, 1), (0, 0), (1, 1), (2, 0)), order=True, sector="odd"),
                                regs=((0, 0), (0, 1), (1, 0), (1, 1), (2, 0)), kind="bv", sym="Z2", sec=1),
    "mixed_labels_z2even": dict(kw=dict(sites=("x", (0, 1), 3, "y"), order=(3, "y", "x", (0, 1)), sector="even"),
                                regs=(3, "y", "x", (0, 1)), kind="bv", sym="Z2", sec=0),
    "keyfn_u1": dict(kw=dict(sites=range(5), order=lambda s: (s % 2, -s), sector=2), regs=(4, 2, 0, 3, 1),
                     kind="pascal", sym="U1", sec=2),
    "int_sites_u1_full": dict(kw=dict(sites=4, sector=4, symmetry="U1"), regs=(0, 1, 2, 3), kind="pascal", sym="U1", sec=4),
    "int_sites_u1_k1": dict(kw=dict(sites=6, sector=1, symmetry="U1", order=(5, 3, 1, 0, 2, 4)), regs=(5, 3, 1, 0, 2, 4),
                            kind="pascal", sym="U1", sec=1),
    "blocked_u1u1": dict(kw=dict(sites=_UD, order="blocked", species=_first, sector={"u": 2, "d": 1}),
                         regs=(("d", 0), ("d", 1), ("u", 0), ("u", 1), ("u", 2)),
                         enum=(("d", 0), ("d", 1), ("u", 0), ("u", 1), ("u", 2)), kind="pascal", sym="U1U1",
                         sec=((2, 1), (3, 2))),
    "interleaved_u1u1": dict(kw=dict(sites=_UD, order="interleaved", species=_first, sector=(1, 2)),
                             regs=(("d", 0), ("u", 0), ("d", 1), ("u", 1), ("u", 2)),
                             enum=(("d", 0), ("d", 1), ("u", 0), ("u", 1), ("u", 2)), kind="pascal", sym="U1U1",
                             sec=((2, 1), (3, 2))),
    "explicit_u1u1": dict(kw=dict(sites=range(5), sector=((2, 1), (3, 2)), symmetry="U1U1"), regs=(0, 1, 2, 3, 4),
                          enum=(0, 1, 2, 3, 4), kind="pascal", sym="U1U1", sec=((2, 1), (3, 2))),
    "species_dict_u1u1": dict(kw=dict(sites=("a", "b", "c", "d"), species={"a": "s1", "b": "s2", "c": "s1", "d": "s2"},
                                      sector={"s1": 1, "s2": 2}),
                              regs=("a", "b", "c", "d"), enum=("a", "c", "b", "d"), kind="pascal", sym="U1U1",
                              sec=((2, 1), (2, 2))),
    # registers u u d u d: the blocked permutation (2, 4, 0, 1, 3) is not its own inverse
    "species_cycle_u1u1": dict(kw=dict(sites=("a", "b", "c", "d", "e"), species={"a": "u", "b": "u", "c": "d", "d": "u", "e": "d"},
                                       sector={"u": 2, "d": 1}),
                               regs=("a", "b", "c", "d", "e"), enum=("c", "e", "a", "b", "d"), kind="pascal", sym="U1U1",
                               sec=((2, 1), (3, 2))),
    "mixed_radix_dict": dict(kw=dict(sites={"q": 3, "p": 2, "r": 2}, order=True), regs=("p", "q", "r"), kind="radix",
                             dims={"p": 2, "q": 3, "r": 2}),
    "mixed_radix_seq": dict(kw=dict(sites=("a", "b", "c"), dims=(3, 2, 4), order=("c", "a", "b")), regs=("c", "a", "b"),
                            kind="radix", dims={"a": 3, "b": 2, "c": 4}),
}


@obligation(PROP, params=[{"case": c} for c in HS_CASES], exc_is_violation=True, max_paths=3000, wall_s=300)
def hilbertspace_roundtrip(mk, case):
    """HilbertSpace(sites, dims, order, species, sector, symmetry): sites -> registers as documented,
    size == number of sector configurations, rank_to_config / config_to_rank / rank_to_flatconfig /
    flatconfig_to_rank are mutually inverse on a symbolic rank, configurations lie in the sector and
    are enumerated in lexicographic order of the (blocked) register order"""
    mk.encodes(HilbertSpace.__init__, HilbertSpace._set_ordering, HilbertSpace._build_config_maps,
               HilbertSpace._build_blocked_perm, HilbertSpace.rank_to_config, HilbertSpace.config_to_rank,
               HilbertSpace.rank_to_flatconfig, HilbertSpace.flatconfig_to_rank, HilbertSpace.config_to_flatconfig,
               HilbertSpace.flatconfig_to_config, HilbertSpace.get_size, qh.parse_symmetry_and_sector, qh.parse_species,
               qh.parse_u1u1_sector, qh.parse_sites_dims)
    spec = HS_CASES[case]
    hs = HilbertSpace(**spec["kw"])
    regs = list(spec["regs"])
    enum = list(spec.get("enum", regs))
    n = len(regs)
    dims = spec.get("dims") or {s: 2 for s in regs}
    sym, sec = spec.get("sym"), spec.get("sec")
    mk.same("register order of the sites", list(hs.sites), regs)
    mk.same("site <-> register maps", [(hs.site_to_reg(s), hs.reg_to_site(i)) for i, s in enumerate(regs)],
            [(i, s) for i, s in enumerate(regs)])
    mk.same("symmetry and parsed sector", (hs.symmetry, hs.sector), (sym, sec))
    # sector configurations in enumeration order (independent brute force)
    allc = _sector_configs(n, sym, sec, sizes=tuple(dims[s] for s in enum))
    size = len(allc)
    mk.same("size == number of configurations in the sector", int(hs.size), size)
    hs.get_sizes(), hs.get_strides()
    r = mk.bv("r", 64, hi=size - 1) if spec["kind"] == "bv" else mk.int("r", 0, size - 1)
    with _env(mk):
        cfg = hs.rank_to_config(r)
        mk.same("configuration is keyed by the sites, in register order", list(cfg), regs)
        flat = hs.rank_to_flatconfig(r)
        vals = {s: _num(v) for s, v in cfg.items()}
        fl = _nums(flat)
        mk.check(_and([vals[s] == fl[i] for i, s in enumerate(regs)]), "config[site] == flatconfig[register of site]")
        ev = [vals[s] for s in enum]
        mk.check(_in_range(ev, [dims[s] for s in enum]), "every digit is below the local dimension")
        if sym == "Z2":
            par = 0
            for x in ev:
                par = par ^ x
            mk.check(par == sec, "configuration has the sector's parity")
        elif sym == "U1":
            mk.check(_sum(ev) == sec, "configuration has the sector's particle number")
        elif sym == "U1U1":
            (na, ka), (nb, kb) = sec
            mk.check(_and([_sum(ev[:na]) == ka, _sum(ev[na:]) == kb]), "each species has its filling")
        mk.check(hs.config_to_rank(cfg) == r, "config_to_rank(rank_to_config(r)) == r")
        shuffled = {s: cfg[s] for s in sorted(cfg, key=lambda s: repr(s)[::-1])}
        mk.check(hs.config_to_rank(shuffled) == r, "config_to_rank does not depend on the dict's insertion order")
        mk.check(hs.flatconfig_to_rank(flat) == r, "flatconfig_to_rank(rank_to_flatconfig(r)) == r")
        if spec["kind"] == "pascal":
            mk.check(r == allc.index(_concrete(ev)), "r is the position of the configuration in the sorted sector list")
            nxt = r + 1
            if nxt <= size - 1:
                c2 = hs.rank_to_config(nxt)
                mk.check(_lex_lt(ev, [_num(c2[s]) for s in enum]), "rank_to_config(r) <lex rank_to_config(r + 1)")
        else:
            r2 = mk.bv("r2", 64, hi=size - 1) if spec["kind"] == "bv" else mk.int("r2", 0, size - 1)
            c2 = hs.rank_to_config(r2)
            mk.check(_implies(r < r2, _lex_lt(ev, [_num(c2[s]) for s in enum])), "r < r2 => config(r) <lex config(r2)")


_DISPATCH = [(0, (5,), "bv"), (1, (5, 0), "bv"), (1, (4, 1), "bv"), (2, (5, 2), "int"), (3, (2, 1, 3, 2), "int")]


@obligation(PROP, params=[{"symmetry": s, "sector": sec, "kind": k} for s, sec, k in _DISPATCH], exc_is_violation=True,
            max_paths=2000)
def dispatcher_roundtrip(mk, symmetry, sector, kind):
    """configcore public api: rank_to_flatconfig / flatconfig_to_rank(…, sector, symmetry)"""
    mk.encodes(cc.rank_to_flatconfig, cc.flatconfig_to_rank)
    if symmetry == 0:
        size, direct = 2 ** sector[0], lambda r: cc.rank_to_flatconfig_nosymm(r, *sector)
    elif symmetry == 1:
        size, direct = 2 ** (sector[0] - 1), lambda r: cc.rank_to_flatconfig_z2(r, *sector)
    elif symmetry == 2:
        size, direct = math.comb(*sector), lambda r: cc.rank_to_flatconfig_u1_pascal(r, *sector, cc.build_pascal_table(sector[0]))
    else:
        na, ka, nb, kb = sector
        size = math.comb(na, ka) * math.comb(nb, kb)
        direct = lambda r: cc.rank_to_flatconfig_u1u1_pascal(r, *sector, cc.build_pascal_table(max(na, nb)))
    r = mk.bv("r", 64, hi=size - 1) if kind == "bv" else mk.int("r", 0, size - 1)
    with _env(mk):
        c = cc.rank_to_flatconfig(r, sector, symmetry)
        want = direct(r)
        mk.check(_and([x == y for x, y in zip(_nums(c), _nums(want))]) if len(c) == len(want) else False,
                 "dispatcher unranks like the sector's kernel")
        back = cc.flatconfig_to_rank(c, sector, symmetry)
        mk.check(back == r, "flatconfig_to_rank(rank_to_flatconfig(r, sector, symmetry), sector, symmetry) == r")


# ====================================================================== (b) operator semantics: independent reference

_i = 1j
_X = ((0, 1), (1, 0))
_Y = ((0, -_i), (_i, 0))
_Z = ((1, 0), (0, -1))


def _mm2(a, b):
    return tuple(tuple(sum(a[i][k] * b[k][j] for k in range(2)) for j in range(2)) for i in range(2))


def _sc2(c, a):
    return tuple(tuple(c * v for v in row) for row in a)


# textbook 2x2 matrices M[out][in] of every named single-site operator (|0> = spin up / empty,
# |1> = spin down / occupied); written out here, not read from quimb's table
REF_OPS = {
    "I": ((1, 0), (0, 1)),
    "x": _X, "y": _Y, "z": _Z,
    "ⴵ": _mm2(_Z, _X),                       # documented as ZX = iY
    "sx": _sc2(0.5, _X), "sy": _sc2(0.5, _Y), "sz": _sc2(0.5, _Z),
    "+": ((0, 0), (1, 0)),                    # creation  |1><0|
    "-": ((0, 1), (0, 0)),                    # annihilation |0><1|
    "n": ((0, 0), (0, 1)),
    "sn": ((-0.5, 0), (0, 0.5)),              # n - 1/2
    "h": ((1, 0), (0, 0)),                    # 1 - n
}


def _np_op(op):
    return np.array(REF_OPS[op], dtype=complex)


def _emb(m, reg, n):
    out = np.eye(1, dtype=complex)
    for q in range(n):
        out = np.kron(out, m if q == reg else np.eye(2, dtype=complex))
    return out


def _term_matrix(ops, regof, n, fermionic):
    """matrix of op_1 op_2 ... op_m (ordinary operator product, leftmost factor leftmost); with
    `fermionic`, '+' / '-' at register q mean the fermionic c^dag_q / c_q = Z_0 .. Z_{q-1} sigma^+-_q"""
    D = 2 ** n
    M = np.eye(D, dtype=complex)
    zm = np.array(_Z, dtype=complex)
    for op, site in ops:
        reg = regof(site)
        m = _emb(_np_op(op), reg, n)
        if fermionic and op in "+-":
            for q in range(reg):
                m = _emb(zm, q, n) @ m
        M = M @ m
    return M


def _ref_dense(mk, terms, regof, n, fermionic=False, symbolic=False):
    """sum_k coeff_k * matrix(term_k); coefficients may be Poly scalars (symbolic=True)"""
    D = 2 ** n
    if not symbolic:
        H = np.zeros((D, D), dtype=complex)
        for coeff, ops in terms:
            H = H + complex(coeff) * _term_matrix(ops, regof, n, fermionic)
        return H
    H = np.empty((D, D), dtype=object)
    H[...] = P.ZERO
    for coeff, ops in terms:
        M = _term_matrix(ops, regof, n, fermionic)
        for i, j in zip(*np.nonzero(M)):
            H[i, j] = H[i, j] + coeff * P.lift(complex(M[i, j]))
    return H


def _bit(x):
    """case split of a (possibly symbolic) bit: concrete 0 / 1 on this path"""
    if isinstance(x, sx.Sym):
        return 0 if x == 0 else 1
    return int(x)


def _ref_couplings(terms, regof, bits, fermionic):
    """apply sum_k coeff_k * term_k to the basis configuration `bits`: list of (configuration,
    amplitude) with equal configurations merged.  Explicit case analysis per operator; fermionic
    signs are counted on the occupation numbers to the left of the register."""
    out = []
    for coeff, ops in terms:
        cur = list(bits)
        amp = complex(coeff)
        alive = True
        for op, site in reversed(ops):          # the rightmost factor acts first
            reg = regof(site)
            M = REF_OPS[op]
            if op == "I":
                continue
            xv = _bit(cur[reg])
            cur[reg] = xv
            col = [(y, M[y][xv]) for y in (0, 1) if M[y][xv] != 0]
            if not col:
                alive = False
                break
            (y, a), = col                       # every named operator has <= 1 entry per column
            if fermionic and op in "+-":
                par = 0
                for q in range(reg):
                    cur[q] = _bit(cur[q])
                    par ^= cur[q]
                if par:
                    a = -a
            cur[reg] = y
            amp = amp * a
        if alive:
            out.append((tuple(cur), amp))
    merged = []
    for cfg, amp in out:
        for k, (c2, a2) in enumerate(merged):
            if _cfg_eq(cfg, c2):
                merged[k] = (c2, a2 + amp)
                break
        else:
            merged.append((cfg, amp))
    return merged


def _cfg_eq(c1, c2):
    for x, y in zip(c1, c2):
        if x is y:
            continue
        if not (x == y):
            return False
    return True


# ---------------------------------------------------------------------- term lists

def _grid_terms():
    t = []
    edges = [((0, 0), (0, 1)), ((0, 1), (0, 2)), ((1, 0), (1, 1)), ((1, 1), (1, 2)), ((0, 0), (1, 0)), ((0, 2), (1, 2))]
    for k, (a, b) in enumerate(edges):
        j = (0.25, 0.5, -0.75, 1.0, 0.125, 2.0)[k]
        t += [(j, (("x", a), ("x", b))), (j, (("y", a), ("y", b))), (j * 0.5, (("z", a), ("z", b)))]
    t.append((0.375j, (("sx", (0, 0)), ("sy", (1, 1)), ("z", (0, 2)))))       # 3-site, long range, complex
    t.append((-0.375j, (("sy", (1, 1)), ("sx", (0, 0)), ("z", (0, 2)))))      # same operator, other factor order
    t.append((1.5, (("sz", (1, 2)),)))
    t.append((0.5, (("+", (0, 1)), ("-", (1, 0)))))
    t.append((0.5, (("-", (0, 1)), ("+", (1, 0)))))
    return t


CASES = {
    # nearest-neighbour + long-range 2-site, 3-site, complex coefficients, a repeated term
    "spin_mixed": dict(
        sites=(0, 1, 2, 3), order=None, jw_ok=False,
        terms=[(0.5, (("x", 0), ("x", 1))), (0.25j, (("y", 0), ("z", 2))), (-1.5, (("+", 1), ("-", 3), ("z", 0))),
               (0.5, (("x", 0), ("x", 1))), (2.0, (("n", 3),)), (-0.75 + 0.5j, (("sy", 1), ("sx", 2))),
               (0.5, (("sz", 0),)), (1.0, (("h", 2), ("sn", 3))), (0.125, (("ⴵ", 1), ("x", 3))),
               (0.25, (("x", 1), ("x", 0)))]),
    # every named operator, explicit identity factors
    "all_ops": dict(
        sites=("q0", "q1", "q2"), order=("q2", "q0", "q1"), jw_ok=False,
        terms=[(1.0, (("x", "q0"), ("y", "q1"), ("z", "q2"))), (0.5, (("sx", "q0"), ("sy", "q1"), ("sz", "q2"))),
               (0.25, (("+", "q0"), ("-", "q1"))), (0.25, (("+", "q1"), ("-", "q0"))),
               (1.5, (("n", "q0"), ("h", "q1"), ("sn", "q2"))), (-0.5, (("ⴵ", "q0"),)),
               (0.75j, (("I", "q0"), ("x", "q1"))), (-2.0, (("I", "q2"), ("I", "q0"), ("sz", "q1")))]),
    # fermionic hopping (real and complex), interactions, pairing, same-site c^dag c; mixed labels
    "fermi_labels": dict(
        sites=("a", ("s", 1), ("s", 0), "b"), order=("b", ("s", 0), "a", ("s", 1)), jw_ok=True,
        terms=[(-1.0, (("+", "a"), ("-", "b"))), (-1.0, (("+", "b"), ("-", "a"))),
               (0.5j, (("+", ("s", 1)), ("-", "a"))), (-0.5j, (("+", "a"), ("-", ("s", 1)))),
               (2.0, (("n", "a"), ("n", ("s", 0)))), (0.75, (("n", "b"),)),
               (0.25, (("+", ("s", 0)), ("+", ("s", 1)))), (0.25, (("-", ("s", 1)), ("-", ("s", 0)))),
               (1.5, (("+", "a"), ("n", ("s", 0)), ("-", "b"))), (1.5, (("+", "b"), ("n", ("s", 0)), ("-", "a"))),
               (1.25, (("+", "b"), ("-", "b"))), (0.375, (("-", "a"), ("+", "a"))),
               (-0.5, (("-", "b"), ("+", "a"))),           # = +0.5 c^dag_a c_b as fermions, -0.5 as spins
               (0.5, (("z", ("s", 1)),)), (0.125, (("h", "a"), ("+", ("s", 0)), ("-", ("s", 1))))]),
    # 2 x 3 grid of tuple sites in snake order (6 sites)
    "grid_2x3": dict(
        sites=tuple((i, j) for i in range(2) for j in range(3)),
        order=((0, 0), (0, 1), (0, 2), (1, 2), (1, 1), (1, 0)), jw_ok=False, terms=_grid_terms()),
    # spinful Hubbard-like model, species interleaved (U1U1 sector tests)
    "hubbard_ud": dict(
        sites=(("u", 0), ("d", 0), ("u", 1), ("d", 1), ("u", 2)), order="interleaved", species=_first, jw_ok=True,
        terms=[(-1.0, (("+", ("u", 0)), ("-", ("u", 1)))), (-1.0, (("+", ("u", 1)), ("-", ("u", 0)))),
               (-0.5, (("+", ("u", 1)), ("-", ("u", 2)))), (-0.5, (("+", ("u", 2)), ("-", ("u", 1)))),
               (0.25j, (("+", ("d", 0)), ("-", ("d", 1)))), (-0.25j, (("+", ("d", 1)), ("-", ("d", 0)))),
               (4.0, (("n", ("u", 0)), ("n", ("d", 0)))), (4.0, (("n", ("u", 1)), ("n", ("d", 1)))),
               (0.75, (("n", ("u", 2)),)), (-0.375, (("n", ("d", 1)),))]),
}


CASES["hubbard_blocked"] = dict(CASES["hubbard_ud"], order="blocked")
# registers u u d u d: species neither blocked nor alternating (non-involutive blocked permutation)
CASES["hubbard_cycle"] = dict(CASES["hubbard_ud"], order=(("u", 0), ("u", 1), ("d", 0), ("u", 2), ("d", 1)))
CASES["xxz_ring"] = dict(
    sites=(0, 1, 2, 3, 4), order=(3, 1, 4, 0, 2), jw_ok=False,
    terms=[t for i in range(5) for t in (
        (0.5 + 0.125 * i, (("+", i), ("-", (i + 1) % 5))), (0.5 + 0.125 * i, (("-", i), ("+", (i + 1) % 5))),
        (0.25 * (i + 1), (("sz", i), ("sz", (i + 2) % 5))))] + [(0.75j, (("+", 0), ("-", 3), ("z", 1))), (-0.75j, (("-", 0), ("+", 3), ("z", 1))),
                                                                   (1.5, (("n", 2),))])
CASES["ring8"] = dict(       # thorough only: 8 sites, 256 basis configurations
    sites=tuple(range(8)), order=(0, 2, 4, 6, 7, 5, 3, 1), jw_ok=True,
    terms=[t for i in range(8) for t in (
        (-1.0 + 0.125 * i, (("+", i), ("-", (i + 1) % 8))), (-1.0 + 0.125 * i, (("+", (i + 1) % 8), ("-", i))),
        (0.5, (("n", i), ("n", (i + 3) % 8))))] + [(0.25j, (("+", 0), ("z", 3), ("-", 6))), (-0.25j, (("+", 6), ("z", 3), ("-", 0))),
                                                    (1.5, (("h", 2), ("n", 5), ("z", 7)))])
_BIG = ("ring8",)


def _build(case, jw=False, pd=False, terms=None, **hs_kw):
    spec = CASES[case]
    kw = dict(sites=spec["sites"], order=spec["order"])
    if "species" in spec:
        kw["species"] = spec["species"]
    kw.update(hs_kw)
    hs = HilbertSpace(**kw)
    terms = spec["terms"] if terms is None else terms
    H = SparseOperatorBuilder(terms=[(c, *ops) for c, ops in terms], hilbert_space=hs, jordan_wigner=jw,
                              pauli_decompose=pd)
    return hs, H, terms


def _rw_params(quick=None, big=False):
    out = []
    for c, spec in CASES.items():
        if c in _BIG and not big:
            continue
        combos = [(False, False), (False, True), (False, "zx")]
        if spec["jw_ok"]:
            combos += [(True, False), (True, True)]
        for jw, pd in combos:
            q = (quick is None or (c, jw, pd) in quick) and c not in _BIG
            out.append({"case": c, "jw": jw, "pd": pd, "_tiers": ("quick", "thorough") if q else ("thorough",)})
    return out


_REP_QUICK = {("spin_mixed", False, False), ("spin_mixed", False, True), ("spin_mixed", False, "zx"), ("all_ops", False, False),
              ("all_ops", False, True), ("fermi_labels", False, False), ("fermi_labels", True, False), ("fermi_labels", True, True),
              ("grid_2x3", False, False), ("hubbard_ud", True, False), ("hubbard_ud", True, True), ("hubbard_blocked", True, False),
              ("hubbard_cycle", True, False), ("xxz_ring", False, False), ("xxz_ring", False, "zx")}


_ENC_BUILDER = (SparseOperatorBuilder.add_term, SparseOperatorBuilder._get_terms_final, qb.jordan_wigner_transform,
                qb.simplify, qb.simplify_single_site_ops, qb.pauli_decompose, qb.get_pauli_decomp, qb.build_coupling_numba,
                SparseOperatorBuilder.get_coupling_map)


@obligation(PROP, params=_rw_params(big=True), exc_is_violation=True, max_paths=2000, wall_s=800, timeout_s=900)
def coupling_semantics(mk, case, jw, pd):
    """H|config> for a SYMBOLIC basis configuration: the real coupling kernel vs the independent
    operator-string reference, as functions configuration -> amplitude"""
    mk.encodes(cc.flatconfig_coupling_numba, cc._check_next_coupled_term, cc.flatconfig_to_rank_nosymm,
               SparseOperatorBuilder.flatconfig_coupling, *_ENC_BUILDER)
    hs, H, terms = _build(case, jw, pd)
    n = hs.nsites
    H.get_coupling_map()
    bits = [mk.bv(f"b{i}", 64, hi=1) for i in range(n)]
    fc = _cfg_array(mk, bits)
    with _env(mk):
        bjs, cs = H.flatconfig_coupling(fc)
    # the bits the kernel examined are concrete on this path now; the others stay symbolic
    bits = [_num(np.ndarray.__getitem__(fc, i)) for i in range(n)]
    ker = [(tuple(_nums(bj)), complex(c)) for bj, c in zip(bjs, cs)]
    mk.same("one coefficient per coupled configuration, configurations of length n",
            (len(bjs) == len(cs), all(len(c) == n for c, _ in ker)), (True, True))
    refm = _ref_couplings(terms, hs.site_to_reg, bits, fermionic=jw)
    for i in range(len(ker)):
        for j in range(i):
            mk.check(not _cfg_eq(ker[i][0], ker[j][0]), "coupled configurations are pairwise distinct")
    for cfg, a in ker:
        want = sum(a2 for c2, a2 in refm if _cfg_eq(cfg, c2))
        mk.check(a == want, "coefficient of a coupled configuration == reference amplitude")
    for c2, a2 in refm:
        if a2 != 0:
            mk.check(any(_cfg_eq(c2, cfg) for cfg, _ in ker), "every configuration with non-zero reference amplitude is produced")


# ---------------------------------------------------------------------- every matrix representation

def _embed_np(hk, regs, n):
    """operator hk on the registers `regs` (in that order) of n qubits, identity elsewhere"""
    regs = list(regs)
    k = len(regs)
    rest = [q for q in range(n) if q not in regs]
    M = np.kron(np.asarray(hk, dtype=complex), np.eye(2 ** (n - k), dtype=complex)).reshape([2] * (2 * n))
    inv = [int(a) for a in np.argsort(regs + rest)]
    return M.transpose(inv + [n + a for a in inv]).reshape(2 ** n, 2 ** n)


_STYPES = ("coo", "csr", "csc", "bsr", "lil", "dok", "dia")


def _reps(mk, H, light=False):
    """label -> dense array of every representation the builder offers (full space)"""
    n = H.nsites
    D = 2 ** n
    dt = H.get_dtype()
    out = {"build_dense()": H.build_dense()}
    for st in (("csr",) if light else _STYPES):
        A = H.build_sparse_matrix(stype=st)
        mk.same(f"sparse format {st}", A.format, st)
        out[f"build_sparse_matrix(stype={st})"] = A.toarray()
    eye = np.eye(D, dtype=dt)
    out["matvec on basis vectors"] = np.stack([H.matvec(eye[:, j].copy()) for j in range(D)], axis=1)
    out["build_matrix_ikron()"] = np.asarray(H.build_matrix_ikron())
    out["build_mpo().to_dense()"] = np.asarray(H.build_mpo().to_dense())
    if any(len(ops) == 0 for _, ops in H.terms):
        # a constant (identity) term: build_local_terms has its own obligation (local_terms_constant)
        mk.note("build_local_terms skipped here: operator has a constant term after rewriting")
    else:
        out["sum of embedded build_local_terms()"] = _local_sum(H)
    if light:
        return out
    out["build_dense(parallel=2)"] = H.build_dense(parallel=2)
    out["build_dense(dtype=complex128)"] = H.build_dense(dtype=np.complex128)
    out["matvec(parallel=2) on basis vectors"] = np.stack([H.matvec(eye[:, j].copy(), parallel=2) for j in range(D)], axis=1)
    x = ((np.arange(D) % 7) - 3 + 0.5 * (np.arange(D) % 3)).astype(dt)
    if np.issubdtype(dt, np.complexfloating):
        x = x + 0.25j * (np.arange(D) % 5)
    o = np.zeros(D, dtype=dt)
    r = H.matvec(x, out=o)
    mk.same("matvec(out=...) returns the buffer it was given", r is o, True)
    out["matvec(x, out=buffer) as a column"] = o.reshape(D, 1)
    out["_x"] = x
    lo = H.aslinearoperator()
    mk.same("linear operator shape and dtype", (tuple(lo.shape), np.dtype(lo.dtype)), ((D, D), np.dtype(dt)))
    out["aslinearoperator() @ identity"] = lo @ eye
    out["aslinearoperator().matvec(x) as a column"] = np.asarray(lo.matvec(x)).reshape(D, 1)
    A = H.build_matrix_ikron(sparse=True)
    out["build_matrix_ikron(sparse=True)"] = A.toarray() if hasattr(A, "toarray") else np.asarray(A)
    return out


def _local_sum(H):
    n = H.nsites
    S = np.zeros((2 ** n, 2 ** n), dtype=complex)
    for sites, hk in H.build_local_terms().items():
        S = S + _embed_np(hk, [H.site_to_reg(s) for s in sites], n)
    return S


def _lincomb(mk, coeffs, mats):
    """sum_k coeffs[k] * mats[k] (numeric matrices, symbolic or numeric coefficients)"""
    if not mk.sym:
        return sum(c * np.asarray(m, dtype=complex) for c, m in zip(coeffs, mats))
    out = np.empty(np.asarray(mats[0]).shape, dtype=object)
    out[...] = P.ZERO
    for c, m in zip(coeffs, mats):
        m = np.asarray(m)
        for idx in zip(*np.nonzero(m)):
            out[idx] = out[idx] + c * P.lift(complex(m[idx]))
    return out


_ENC_REPS = (SparseOperatorBuilder.build_coo_data, SparseOperatorBuilder.build_sparse_matrix, SparseOperatorBuilder.build_dense,
             SparseOperatorBuilder.matvec, SparseOperatorBuilder.aslinearoperator, SparseOperatorBuilder.build_local_terms,
             SparseOperatorBuilder.build_matrix_ikron, SparseOperatorBuilder.build_mpo,
             SparseOperatorBuilder.build_state_machine_greedy, cc.build_coo_numba_core, cc.build_coo_numba_core_nosymm,
             cc.matvec_numba, cc.matvec_nosymm, cc._check_next_coupled_term, cc.rank_into_flatconfig_nosymm,
             cc.flatconfig_to_rank_nosymm, qb.get_mat)

# second coefficient assignment: equal coefficients (MPO coefficient placement shares edges
# by equality), unit coefficients, a pure phase
_ALT = (1.0, 1.0, -1.0, 0.5, 0.5, 1j, -0.25 + 0.75j, 2.0, 1.0, 0.5)


def _alt_terms(terms):
    return [(_ALT[k % len(_ALT)], ops) for k, (_, ops) in enumerate(terms)]


@obligation(PROP, params=_rw_params(quick=_REP_QUICK), exc_is_violation=True, wall_s=600, timeout_s=900)
def representations(mk, case, jw, pd):
    """every matrix representation == independent Kronecker-product reference of the RAW term list;
    (i) the given dyadic coefficients, (ii) a second coefficient assignment, (iii) n <= 4: one
    builder per unit-coefficient term, combined with SYMBOLIC complex coefficients (linearity)"""
    mk.encodes(*_ENC_BUILDER, *_ENC_REPS)
    hs, H, terms = _build(case, jw, pd)
    n = hs.nsites
    R = _ref_dense(mk, terms, hs.site_to_reg, n, fermionic=jw)
    reps = _reps(mk, H)
    x = reps.pop("_x")
    for label, A in reps.items():
        want = R if A.shape == R.shape else (R @ x).reshape(-1, 1)
        mk.eq(label, mk.const(A), mk.const(want))
    # toggling the rewrites on an existing builder (cache invalidation) gives the same operator
    H.pauli_decompose(not pd)
    mk.eq("build_dense() after toggling pauli_decompose", mk.const(H.build_dense()), mk.const(R))
    H.pauli_decompose(pd if pd != "zx" else True, use_zx=pd == "zx")
    H += 0.5, ("z", hs.sites[0])
    R2 = R + 0.5 * _term_matrix((("z", hs.sites[0]),), hs.site_to_reg, n, jw)
    mk.eq("build_dense() after adding a term to a built operator", mk.const(H.build_dense()), mk.const(R2))
    mk.eq("build_mpo() after adding a term to a built operator", mk.const(np.asarray(H.build_mpo().to_dense())), mk.const(R2))
    # (ii)
    t2 = _alt_terms(terms)
    _, H2, _ = _build(case, jw, pd, terms=t2)
    Rb = _ref_dense(mk, t2, hs.site_to_reg, n, fermionic=jw)
    for label, A in _reps(mk, H2, light=True).items():
        mk.eq("alt coefficients: " + label, mk.const(A), mk.const(Rb))
    # (iii)
    if n <= 4:
        cs = [mk.scalar(f"c{k}", "cplx") for k in range(len(terms))]
        per = []
        for _, ops in terms:
            _, Hk, _ = _build(case, jw, pd, terms=[(1.0, ops)])
            per.append(_reps(mk, Hk, light=True))
        want = _lincomb(mk, cs, [_term_matrix(ops, hs.site_to_reg, n, jw) for _, ops in terms])
        for label in per[0]:
            if all(label in p for p in per):
                mk.eq("symbolic coefficients: " + label, _lincomb(mk, cs, [p[label] for p in per]), want)


# ---------------------------------------------------------------------- same-site products, constant terms, zero operator

def _scal_mat(mk, c, M):
    if mk.sym:
        out = np.empty((2, 2), dtype=object)
        for i in range(2):
            for j in range(2):
                out[i, j] = c * P.lift(complex(M[i][j]))
        return out
    return complex(c) * np.array(M, dtype=complex)


@obligation(PROP, params=[{"k": 2}, {"k": 3, "_tiers": ("thorough",)}], exc_is_violation=True, wall_s=600)
def single_site_simplify(mk, k):
    """simplify_single_site_ops(c, ops) -> (c', op') with c' * op' == c * op_1 op_2 .. op_k as 2x2
    matrices, for a SYMBOLIC complex coefficient and every k-tuple of named operators"""
    import functools
    mk.encodes(qb.simplify_single_site_ops, qb.get_mat)
    qb.simplify_single_site_ops.cache_clear()
    c = mk.scalar("c", "cplx")
    for ops in itertools.product(REF_OPS, repeat=k):
        prod = functools.reduce(_mm2, [REF_OPS[o] for o in ops])
        c2, op2 = qb.simplify_single_site_ops(c, ops)
        if op2 is None:
            mk.same(f"{ops}: reported as a null product", all(v == 0 for row in prod for v in row), True)
            continue
        mk.eq(f"simplify_single_site_ops(c, {ops}) -> c' * {op2}", _scal_mat(mk, c2, REF_OPS[op2]), _scal_mat(mk, c, prod))
    qb.simplify_single_site_ops.cache_clear()


SAME_SITE = {
    "sz_sz": dict(jw=False, terms=[(0.75, (("sz", 0), ("sz", 0))), (0.5, (("x", 1),))]),
    "x_y": dict(jw=False, terms=[(1.0, (("x", 0), ("y", 0))), (0.5, (("z", 1),))]),
    "jw_string_on_sy": dict(jw=True, terms=[(1.0, (("sy", 0), ("+", 1))), (1.0, (("sy", 0), ("-", 1)))]),
    "mixed": dict(jw=False, terms=[(0.5, (("sx", 0), ("x", 1), ("sx", 0))), (0.25j, (("y", 1), ("z", 1), ("n", 0))),
                                   (2.0, (("sn", 2), ("sn", 2), ("h", 1))), (-1.0, (("ⴵ", 2), ("x", 2)))]),
    # controls: products whose scalar factor is +-1
    "unit_factors": dict(jw=True, terms=[(1.0, (("z", 0), ("z", 0), ("x", 1))), (0.5, (("+", 0), ("-", 0))),
                                          (0.25, (("-", 1), ("+", 1), ("z", 0))), (1.5, (("+", 2), ("n", 0), ("-", 1)))]),
}


@obligation(PROP, params=[{"case": c, "pd": pd} for c in SAME_SITE for pd in (False, True)], exc_is_violation=True)
def same_site_products(mk, case, pd):
    """several operators on one site inside a term (directly, or through Jordan-Wigner strings):
    the built matrix is the product as written"""
    mk.encodes(*_ENC_BUILDER, SparseOperatorBuilder.build_dense)
    spec = SAME_SITE[case]
    hs = HilbertSpace(3)
    H = SparseOperatorBuilder(terms=[(c, *ops) for c, ops in spec["terms"]], hilbert_space=hs, jordan_wigner=spec["jw"],
                              pauli_decompose=pd)
    R = _ref_dense(mk, spec["terms"], hs.site_to_reg, 3, fermionic=spec["jw"])
    mk.eq("build_dense()", mk.const(H.build_dense()), mk.const(R))
    mk.eq("build_mpo().to_dense()", mk.const(np.asarray(H.build_mpo().to_dense())), mk.const(R))


_CONST = {
    "zz_same_site": dict(pd=False, terms=[(1.0, (("z", 0), ("z", 0))), (0.5, (("x", 1),))]),
    "number_op_pauli": dict(pd=True, terms=[(1.0, (("n", 0),)), (0.5, (("x", 0), ("x", 1)))]),
    "hole_number": dict(pd=True, terms=[(2.0, (("n", 0), ("h", 1)))]),
}


@obligation(PROP, params=[{"case": c} for c in _CONST], exc_is_violation=True)
def local_terms_constant(mk, case):
    """an operator with a constant (identity) part, as produced by pauli_decompose of n / h / sn:
    every representation including the dictionary of local terms still sums to the operator"""
    mk.encodes(SparseOperatorBuilder.build_local_terms, *_ENC_BUILDER)
    spec = _CONST[case]
    hs = HilbertSpace(2)
    H = SparseOperatorBuilder(terms=[(c, *ops) for c, ops in spec["terms"]], hilbert_space=hs, pauli_decompose=spec["pd"])
    R = _ref_dense(mk, spec["terms"], hs.site_to_reg, 2)
    mk.eq("build_dense()", mk.const(H.build_dense()), mk.const(R))
    mk.eq("build_matrix_ikron()", mk.const(np.asarray(H.build_matrix_ikron())), mk.const(R))
    mk.eq("build_mpo().to_dense()", mk.const(np.asarray(H.build_mpo().to_dense())), mk.const(R))
    mk.eq("sum of embedded build_local_terms()", mk.const(_local_sum(H)), mk.const(R))


@obligation(PROP, params=[{"case": c} for c in ("null_product", "cancelling", "no_terms")], exc_is_violation=True)
def zero_operator(mk, case):
    """term lists that denote the zero operator on a given Hilbert space"""
    mk.encodes(*_ENC_BUILDER, *_ENC_REPS)
    terms = {"null_product": [(1.0, (("h", 1), ("n", 1)))], "cancelling": [(0.5, (("x", 0), ("z", 1))), (-0.5, (("z", 1), ("x", 0)))],
             "no_terms": []}[case]
    hs = HilbertSpace(2)
    H = SparseOperatorBuilder(terms=[(c, *ops) for c, ops in terms], hilbert_space=hs)
    Z0 = np.zeros((4, 4))
    mk.eq("build_dense()", mk.const(H.build_dense()), mk.const(Z0))
    mk.eq("build_sparse_matrix()", mk.const(H.build_sparse_matrix().toarray()), mk.const(Z0))
    mk.eq("matvec", mk.const(H.matvec(np.ones(4))), mk.const(np.zeros(4)))
    mk.eq("build_mpo().to_dense()", mk.const(np.asarray(H.build_mpo().to_dense())), mk.const(Z0))
    mk.eq("sum of embedded build_local_terms()", mk.const(_local_sum(H)), mk.const(Z0))
    A = H.build_matrix_ikron()
    mk.same("build_matrix_ikron() returns a matrix", A is not None, True)
    if A is not None:
        mk.eq("build_matrix_ikron()", mk.const(np.asarray(A)), mk.const(Z0))


# ---------------------------------------------------------------------- symmetry sectors

def _full_index(cfg_in_reg_order):
    r = 0
    for b in cfg_in_reg_order:
        r = 2 * r + int(b)
    return r


def _sector_basis(hs_sites, enum_sites, symmetry, sector):
    """the sector's basis in the library's documented order: lexicographic over `enum_sites`
    (register order, or species-blocked order for U1U1); returned as full-space indices"""
    pos = {s: i for i, s in enumerate(enum_sites)}
    ix = []
    for c in _sector_configs(len(enum_sites), symmetry, sector):
        ix.append(_full_index([c[pos[s]] for s in hs_sites]))
    return ix


def _sector_list(case):
    out = [("Z2", "even", 0), ("Z2", 1, 1)]
    if case in ("hubbard_ud", "hubbard_blocked", "hubbard_cycle", "xxz_ring"):
        n = 5
        out += [("U1", k, k) for k in range(n + 1)]
    if case in ("hubbard_ud", "hubbard_blocked", "hubbard_cycle"):
        out += [("U1U1", {"u": ku, "d": kd}, ((2, kd), (3, ku))) for ku in range(4) for kd in range(3)]
        out += [("U1U1", (1, 2), ((2, 1), (3, 2)))]
    if case == "hubbard_blocked":
        out += [("U1U1", ((2, 1), (3, 1)), ((2, 1), (3, 1)))]
    return out


_SEC_CASES = {"hubbard_ud": (False, True), "hubbard_blocked": (True,), "hubbard_cycle": (True,), "xxz_ring": (False,), "grid_2x3": (False,),
              "fermi_labels": (True,)}
_ENC_SECTOR = (cc.build_coo_numba_core_z2, cc.build_coo_numba_core_u1, cc.build_coo_numba_core_u1u1, cc.matvec_z2, cc.matvec_u1,
               cc.matvec_u1u1, cc.rank_into_flatconfig_z2, cc.flatconfig_to_rank_z2, cc.rank_into_flatconfig_u1_pascal,
               cc.flatconfig_to_rank_u1_pascal, cc.rank_into_flatconfig_u1u1_pascal, cc.flatconfig_to_rank_u1u1_pascal,
               HilbertSpace.get_sector_numba, HilbertSpace.site_to_blocked_reg)


@obligation(PROP, params=[{"case": c, "jw": jw, "_tiers": ("quick", "thorough") if c != "grid_2x3" else ("thorough",)}
                          for c, jws in _SEC_CASES.items() for jw in jws],
            exc_is_violation=True, wall_s=600)
def sector_matrices(mk, case, jw):
    """symmetry-conserving operators: the matrix built in a sector (sector given per call, or as the
    Hilbert space's default) == the full reference matrix between the sector's basis states, for
    every sector of Z2 / U1 / U1xU1; dense, sparse, matvec, linear operator"""
    mk.encodes(*_ENC_BUILDER, *_ENC_REPS, *_ENC_SECTOR)
    spec = CASES[case]
    hs, H, terms = _build(case, jw, False)
    n = hs.nsites
    R = _ref_dense(mk, terms, hs.site_to_reg, n, fermionic=jw)
    species = spec.get("species")
    for symmetry, sec_arg, sec in _sector_list(case):
        enum = list(hs.sites)
        if symmetry == "U1U1" and species is not None:
            enum = sorted(hs.sites, key=lambda s: (species(s), hs.site_to_reg(s)))      # species blocks, sorted labels
        ix = _sector_basis(hs.sites, enum, symmetry, sec)
        rest = [i for i in range(2 ** n) if i not in set(ix)]
        if np.abs(R[np.ix_(rest, ix)]).max(initial=0) != 0:
            if case == "fermi_labels" and symmetry == "Z2":
                raise AssertionError("harness: case should conserve parity")
            raise AssertionError(f"harness: operator of case {case} does not conserve {symmetry}")
        want = R[np.ix_(ix, ix)]
        d = len(ix)
        lab = f"{symmetry} sector={sec_arg}: "
        mk.same(lab + "get_size", int(hs.get_size(sec_arg, symmetry)), d)
        mk.eq(lab + "build_dense(sector=, symmetry=)", mk.const(H.build_dense(sector=sec_arg, symmetry=symmetry)), mk.const(want))
        mk.eq(lab + "build_sparse_matrix(sector=, symmetry=)",
              mk.const(H.build_sparse_matrix(sector=sec_arg, symmetry=symmetry, stype="csc").toarray()), mk.const(want))
        dt = H.get_dtype()
        eye = np.eye(d, dtype=dt)
        if d:
            mv = np.stack([H.matvec(eye[:, j].copy(), sector=sec_arg, symmetry=symmetry) for j in range(d)], axis=1)
            mk.eq(lab + "matvec(sector=, symmetry=) on basis vectors", mk.const(mv), mk.const(want))
            mk.eq(lab + "build_dense(sector=, parallel=2)", mk.const(H.build_dense(sector=sec_arg, symmetry=symmetry, parallel=2)),
                  mk.const(want))
        # the same sector as the default of the Hilbert space
        hs2, H2, _ = _build(case, jw, False, sector=sec_arg, symmetry=symmetry)
        mk.same(lab + "default-sector space: size", int(hs2.size), d)
        mk.same(lab + "default-sector space: rank -> configuration is the documented enumeration",
                [_full_index(hs2.rank_to_flatconfig(r)) for r in range(d)], ix)
        mk.same(lab + "default-sector space: configuration -> rank", [int(hs2.flatconfig_to_rank(hs2.rank_to_flatconfig(r))) for r in range(d)],
                list(range(d)))
        mk.eq(lab + "default-sector build_dense()", mk.const(H2.build_dense()), mk.const(want))
        mk.eq(lab + "default-sector build_sparse_matrix()", mk.const(H2.build_sparse_matrix().toarray()), mk.const(want))
        if d:
            lo = H2.aslinearoperator()
            mk.same(lab + "default-sector linear operator shape", tuple(lo.shape), (d, d))
            mk.eq(lab + "default-sector aslinearoperator() @ identity", mk.const(lo @ eye), mk.const(want))
            # coupling of a sector configuration stays in the sector and agrees with the matrix column
            col = np.zeros(d, dtype=complex)
            r0 = d // 2
            for bj, hij in zip(*H2.flatconfig_coupling(hs2.rank_to_flatconfig(r0))):
                col[int(hs2.flatconfig_to_rank(bj))] += hij
            mk.eq(lab + "default-sector flatconfig_coupling of a basis state == matrix column", mk.const(col), mk.const(want[:, r0]))


_NONCONS = [("Z2", "even", [(1.0, (("x", 0),)), (0.5, (("z", 1), ("z", 2)))]),
            ("U1", 1, [(1.0, (("+", 0),)), (1.0, (("-", 0),)), (0.5, (("n", 1),))]),
            ("U1", 2, [(1.0, (("x", 0), ("x", 1))), (0.5, (("z", 2),))]),
            ("U1U1", ((2, 1), (1, 0)), [(1.0, (("+", 0), ("-", 2))), (1.0, (("-", 0), ("+", 2))), (0.5, (("n", 1),))])]


@obligation(PROP, params=[{"k": k} for k in range(len(_NONCONS))], exc_is_violation=False, allow_exc=(Exception,))
def sector_nonconserving(mk, k):
    """an operator that does NOT conserve the symmetry: the sector matrix is still the full matrix
    between the sector's basis states (the statement quantifies over all term lists), unless the
    call is rejected"""
    mk.encodes(SparseOperatorBuilder.build_dense, *_ENC_SECTOR)
    symmetry, sec_arg, terms = _NONCONS[k]
    hs = HilbertSpace(3)
    H = SparseOperatorBuilder(terms=[(c, *ops) for c, ops in terms], hilbert_space=hs)
    R = _ref_dense(mk, terms, hs.site_to_reg, 3)
    sec = {"even": 0, "odd": 1}.get(sec_arg, sec_arg) if symmetry == "Z2" else sec_arg
    ix = _sector_basis(hs.sites, list(hs.sites), symmetry, sec)
    want = R[np.ix_(ix, ix)]
    try:
        got = H.build_dense(sector=sec_arg, symmetry=symmetry)
    except Exception as e:
        mk.same(f"rejected with {type(e).__name__}", True, True)
        return
    mk.eq(f"{symmetry} sector={sec_arg}: build_dense(sector=) == projected full matrix", mk.const(got), mk.const(want))


# ---------------------------------------------------------------------- rewrites with symbolic coefficients

class _G:
    """symbolic coefficient in GENERAL POSITION: exact arithmetic on a Poly; the tolerance tests of
    the rewrites (`abs(c) < atol`, `abs(c.imag) < atol`) are false, `c.imag == 0` is decided
    structurally.  (Coefficients that cancel are covered by the concrete term lists.)"""
    __slots__ = ("p",)
    __array_ufunc__ = None

    def __init__(self, p):
        self.p = P.lift(p)

    @staticmethod
    def _w(o):
        return o.p if isinstance(o, _G) else P.lift(o.item() if isinstance(o, np.generic) else o)

    def __add__(self, o):
        return _G(self.p + self._w(o))

    __radd__ = __add__

    def __sub__(self, o):
        return _G(self.p - self._w(o))

    def __rsub__(self, o):
        return _G(self._w(o) - self.p)

    def __mul__(self, o):
        return _G(self.p * self._w(o))

    __rmul__ = __mul__

    def __truediv__(self, o):
        return _G(self.p / self._w(o))

    def __neg__(self):
        return _G(-self.p)

    @property
    def real(self):
        return _G(self.p.real)

    @property
    def imag(self):
        return _G(self.p.imag)

    def __abs__(self):
        return math.inf

    def __eq__(self, o):
        return not (self.p - self._w(o)).t

    def __ne__(self, o):
        return not self.__eq__(o)

    def __hash__(self):
        return hash(self.p)


def _sym_coeffs(mk, k):
    if mk.sym:
        return [_G(mk.scalar(f"c{i}", "cplx")) for i in range(k)]
    return [mk.scalar(f"c{i}", "cplx") for i in range(k)]


def _unG(terms):
    return [(c.p if isinstance(c, _G) else c, ops) for ops, c in terms.items()]


@obligation(PROP, params=_rw_params(), exc_is_violation=True, max_paths=20, wall_s=600, timeout_s=900)
def rewrites_symbolic(mk, case, jw, pd):
    """jordan_wigner_transform / simplify / pauli_decompose as term-list -> term-list functions, run
    on SYMBOLIC coefficients: the rewritten list denotes the same matrix as the raw list"""
    mk.encodes(qb.jordan_wigner_transform, qb.simplify, qb.simplify_single_site_ops, qb.pauli_decompose, qb.get_pauli_decomp)
    qb.simplify_single_site_ops.cache_clear()
    spec = CASES[case]
    hs, _, terms = _build(case)
    n = hs.nsites
    cs = _sym_coeffs(mk, len(terms))
    raw = {}
    for c, (_, ops) in zip(cs, terms):         # as add_term accumulates exact repeats
        raw[ops] = raw[ops] + c if ops in raw else c
    want = _ref_dense(mk, _unG(raw), hs.site_to_reg, n, fermionic=jw, symbolic=mk.sym)
    t = raw
    if jw:
        t = qb.jordan_wigner_transform(t, site_to_reg=hs.site_to_reg, reg_to_site=hs.reg_to_site)
        mk.eq("after jordan_wigner_transform (plain spin reading of the new list)",
              _ref_dense(mk, _unG(t), hs.site_to_reg, n, symbolic=mk.sym), want)
    t = qb.simplify(t, site_to_reg=hs.site_to_reg)
    mk.eq("after simplify", _ref_dense(mk, _unG(t), hs.site_to_reg, n, symbolic=mk.sym), want)
    mk.same("simplify: one operator per site, sorted by register",
            all([hs.site_to_reg(s) for _, s in ops] == sorted({hs.site_to_reg(s) for _, s in ops}) for ops in t), True)
    if pd:
        t = qb.pauli_decompose(t, use_zx=pd == "zx", site_to_reg=hs.site_to_reg)
        mk.eq("after pauli_decompose", _ref_dense(mk, _unG(t), hs.site_to_reg, n, symbolic=mk.sym), want)
        allowed = {"x", "z", "ⴵ" if pd == "zx" else "y"}
        mk.same("pauli_decompose: only Pauli letters remain", all(op in allowed for ops in t for op, _ in ops), True)
        t = qb.simplify(t, site_to_reg=hs.site_to_reg)
        mk.eq("after the final simplify", _ref_dense(mk, _unG(t), hs.site_to_reg, n, symbolic=mk.sym), want)
    qb.simplify_single_site_ops.cache_clear()


# ====================================================================== (c) spin-chain MPO builders vs matrix generators

class _TBNP:
    """numpy stand-in for quimb.tensor.tensor_builder in symbolic mode: the complex work array of
    spin_ham_mpo_tensor becomes an object array; maybe_make_real's closeness test is structural"""

    def __getattr__(self, k):
        return getattr(np, k)

    def zeros(self, shape, dtype=float, **kw):
        if dtype is complex:
            z = np.empty(shape, dtype=object)
            z[...] = P.ZERO
            return z
        return np.zeros(shape, dtype=dtype, **kw)

    def allclose(self, a, b, **kw):
        a, b = np.asarray(a), np.asarray(b)
        if a.dtype == object or b.dtype == object:
            shp = np.broadcast(a, b).shape
            return all(not (P.lift(x) - P.lift(y)).t
                       for x, y in zip(np.broadcast_to(a, shp).reshape(-1), np.broadcast_to(b, shp).reshape(-1)))
        return np.allclose(a, b, **kw)


@contextlib.contextmanager
def _tb_env(mk):
    if not mk.sym:
        yield
        return
    old = tb.np
    tb.np = _TBNP()
    try:
        yield
    finally:
        tb.np = old


def _spin_ops(S):
    """textbook spin matrices (S = 1/2 or 1), basis m = S, S-1, .., -S"""
    if S == 0.5:
        sp = np.array([[0, 1], [0, 0]], dtype=complex)
        sz = np.diag([0.5, -0.5]).astype(complex)
    else:
        sp = math.sqrt(2) * np.array([[0, 1, 0], [0, 0, 1], [0, 0, 0]], dtype=complex)
        sz = np.diag([1.0, 0.0, -1.0]).astype(complex)
    sm = sp.conj().T
    return {"X": (sp + sm) / 2, "Y": (sp - sm) / 2j, "Z": sz, "+": sp, "-": sm, "I": np.eye(len(sz), dtype=complex)}


def _chain_embed(ops_at, L, D):
    out = np.eye(1, dtype=complex)
    for i in range(L):
        out = np.kron(out, ops_at.get(i, np.eye(D, dtype=complex)))
    return out


def _bonds(L, cyclic):
    return [(i, i + 1) for i in range(L - 1)] + ([(L - 1, 0)] if cyclic else [])


def _chain_ref(mk, L, cyclic, two, one, S=0.5, site_one=None):
    """sum over bonds (i, i+1) [and (L-1, 0) if cyclic] of c * A_i B_{i+1}  +  sum_i c * A_i
    two: list of (coeff, A, B); one: list of (coeff, A); site_one: {i: [(coeff, A)]} extra fields"""
    ops = _spin_ops(S)
    D = int(2 * S + 1)
    get = lambda a: ops[a] if isinstance(a, str) else np.asarray(a, dtype=complex)
    cs, ms = [], []
    for i, j in _bonds(L, cyclic):
        for c, A, B in two:
            if i == j:
                continue
            cs.append(c)
            # for L == 2 the cyclic bond (1, 0) sits on the same pair of sites: operator product
            ms.append(_chain_embed({i: get(A)}, L, D) @ _chain_embed({j: get(B)}, L, D))
    for i in range(L):
        for c, A in list(one) + list((site_one or {}).get(i, [])):
            cs.append(c)
            ms.append(_chain_embed({i: get(A)}, L, D))
    return _lincomb(mk, cs, ms)


def _close(mk, label, A, B, atol=1e-12):
    A, B = np.asarray(A), np.asarray(B)
    mk.same(label, (A.shape == B.shape) and bool(np.allclose(A, B, rtol=0, atol=atol)), True)


def _p(mk, name):
    return mk.scalar(name, "real")


def _model(mk, model, L, cyclic):
    """-> (MPO builder thunk, reference (two, one, site_one), generator thunk on numeric parameters,
    symbolic parameters dict)"""
    if model == "heis":
        pr = {k: _p(mk, k) for k in ("jx", "jy", "jz", "bz")}
        mpo = lambda q: qtn.MPO_ham_heis(L, j=(q["jx"], q["jy"], q["jz"]), bz=q["bz"], cyclic=cyclic)
        refspec = lambda q: ([(q["jx"], "X", "X"), (q["jy"], "Y", "Y"), (q["jz"], "Z", "Z")], [(-q["bz"], "Z")], None)
        gen = lambda q: qu.ham_heis(L, j=(q["jx"], q["jy"], q["jz"]), b=q["bz"], cyclic=cyclic)
    elif model == "heis_iso":
        pr = {k: _p(mk, k) for k in ("j", "bz")}
        mpo = lambda q: qtn.MPO_ham_heis(L, j=q["j"], bz=q["bz"], cyclic=cyclic)
        refspec = lambda q: ([(q["j"], a, a) for a in "XYZ"], [(-q["bz"], "Z")], None)
        gen = lambda q: qu.ham_heis(L, j=q["j"], b=q["bz"], cyclic=cyclic)
    elif model == "heis_bxyz":       # matrix side only has the vector field; MPO side: SpinHam1D by hand
        pr = {k: _p(mk, k) for k in ("j", "bx", "by", "bz")}

        def mpo(q):
            H = qtn.SpinHam1D(cyclic=cyclic)
            for a in "XYZ":
                H += q["j"], a, a
            for a in "xyz":
                H -= q["b" + a], a.upper()
            return H.build_mpo(L)
        refspec = lambda q: ([(q["j"], a, a) for a in "XYZ"], [(-q["b" + a], a.upper()) for a in "xyz"], None)
        gen = lambda q: qu.ham_heis(L, j=q["j"], b=(q["bx"], q["by"], q["bz"]), cyclic=cyclic)
    elif model == "ising":
        pr = {k: _p(mk, k) for k in ("j", "bx")}
        mpo = lambda q: qtn.MPO_ham_ising(L, j=q["j"], bx=q["bx"], cyclic=cyclic)
        refspec = lambda q: ([(q["j"], "Z", "Z")], [(-q["bx"], "X")], None)
        gen = lambda q: qu.ham_ising(L, jz=q["j"], bx=q["bx"], cyclic=cyclic)
    elif model == "XY":
        pr = {k: _p(mk, k) for k in ("j", "bz")}
        mpo = lambda q: qtn.MPO_ham_XY(L, j=q["j"], bz=q["bz"], cyclic=cyclic)
        refspec = lambda q: ([(q["j"], "X", "X"), (q["j"], "Y", "Y")], [(-q["bz"], "Z")], None)
        gen = lambda q: qu.ham_XY(L, jxy=q["j"], bz=q["bz"], cyclic=cyclic)
    elif model == "XY_aniso":
        pr = {k: _p(mk, k) for k in ("jx", "jy", "bz")}
        mpo = lambda q: qtn.MPO_ham_XY(L, j=(q["jx"], q["jy"]), bz=q["bz"], cyclic=cyclic)
        refspec = lambda q: ([(q["jx"], "X", "X"), (q["jy"], "Y", "Y")], [(-q["bz"], "Z")], None)
        gen = lambda q: qu.ham_heis(L, j=(q["jx"], q["jy"], 0.0), b=q["bz"], cyclic=cyclic)
    elif model == "XXZ":
        pr = {k: _p(mk, k) for k in ("delta", "jxy")}
        mpo = lambda q: tb.MPO_ham_XXZ(L, delta=q["delta"], jxy=q["jxy"], cyclic=cyclic)
        refspec = lambda q: ([(q["jxy"], "X", "X"), (q["jxy"], "Y", "Y"), (q["delta"], "Z", "Z")], [], None)
        gen = lambda q: qu.ham_XXZ(L, delta=q["delta"], jxy=q["jxy"], cyclic=cyclic)
    elif model == "mbl":
        pr = {k: _p(mk, k) for k in ("jx", "jy", "jz", "dhx", "dhy", "dhz")}
        seed = 7
        mpo = lambda q: qtn.MPO_ham_mbl(L, dh=(q["dhx"], q["dhy"], q["dhz"]), j=(q["jx"], q["jy"], q["jz"]), seed=seed,
                                        cyclic=cyclic, dh_dim=3)
        gen = lambda q: qu.ham_mbl(L, dh=(q["dhx"], q["dhy"], q["dhz"]), j=(q["jx"], q["jy"], q["jz"]), seed=seed,
                                   cyclic=cyclic, dh_dim=3)
        refspec = None                                   # random fields: MPO compared with the generator only
    else:
        raise KeyError(model)
    return pr, mpo, refspec, gen


_MODELS = ("heis", "heis_iso", "heis_bxyz", "ising", "XY", "XY_aniso", "XXZ", "mbl")


def _mpo_params():
    out = []
    for m in _MODELS:
        for L in (2, 3, 4):
            for cyc in (False, True):
                quick = L == 3 or (L == 4 and m in ("heis", "ising")) or (L == 2 and m == "heis_iso")
                out.append({"model": m, "L": L, "cyclic": cyc, "_tiers": ("quick", "thorough") if quick else ("thorough",)})
    return out


@obligation(PROP, params=_mpo_params(), exc_is_violation=True, max_paths=64, wall_s=600, timeout_s=900)
def mpo_vs_generator(mk, model, L, cyclic):
    """MPO_ham_* (SpinHam1D state machine) with SYMBOLIC real coupling constants, densified, ==
    (i) the textbook sum over bonds and sites with the same symbols, (ii) the matrix-side generator
    ham_* : the generator only takes numbers, so it is evaluated at the unit parameter vectors and
    combined linearly with the symbols, plus directly at one mixed dyadic parameter point"""
    mk.encodes(tb.SpinHam1D.add_term, tb.SpinHam1D.build_mpo, tb.spin_ham_mpo_tensor, tb._ham_heis, tb._ham_ising, tb._ham_XY,
               tb._ham_mbl, tb.MPO_ham_heis, tb.MPO_ham_ising, tb.MPO_ham_XY, tb.MPO_ham_XXZ, tb.MPO_ham_mbl,
               go.ham_heis.__wrapped__, go.ham_ising, go.ham_XY, go.ham_XXZ, go.ham_mbl, go._gen_mbl_random_factors)
    pr, mpo, refspec, gen = _model(mk, model, L, cyclic)
    names = list(pr)
    with _tb_env(mk):
        M = mpo(pr)
        dense = M.to_dense()
    mk.same("MPO shape", (M.L, tuple(dense.shape)), (L, (2 ** L, 2 ** L)))
    if refspec is not None:
        two, one, site_one = refspec(pr)
        mk.eq("MPO.to_dense() == textbook sum with the same symbols", dense, _chain_ref(mk, L, cyclic, two, one, site_one=site_one))
    # matrix-side generator: affine in the parameters -> value at 0 plus unit responses
    zero = {k: 0.0 for k in names}
    G0 = np.asarray(gen(zero))
    units = []
    for k in names:
        units.append(np.asarray(gen(dict(zero, **{k: 1.0}))) - G0)
    lin = _lincomb(mk, [1] + [pr[k] for k in names], [G0] + units)
    mk.eq("MPO.to_dense() == generator (unit responses combined with the symbols)", dense, lin)
    mixed = {k: (0.5, -1.5, 0.75, 2.0, -0.25, 1.25, 0.375)[i] for i, k in enumerate(names)}
    Gm = np.asarray(gen(mixed))
    # numbers against numbers (the random fields of the mbl model are not dyadic): rounding tolerance
    _close(mk, "generator at a mixed point == its unit responses combined (affine in the parameters)",
           Gm, G0 + sum(mixed[k] * u for k, u in zip(names, units)))
    _close(mk, "MPO at the mixed point == generator at the mixed point", np.asarray(mpo(mixed).to_dense()), Gm)
    if not mk.sym:
        mk.eq("MPO == generator at the drawn parameter values", dense, np.asarray(gen({k: float(v) for k, v in pr.items()})))


def _custom_spinham(q, L, cyclic, S=0.5):
    """a SpinHam1D using every way of adding terms: defaults, exchange-asymmetric two-site terms,
    raising / lowering strings, explicit arrays, per-bond and per-site overrides"""
    ops = _spin_ops(S)
    H = qtn.SpinHam1D(S=S, cyclic=cyclic)
    H += q["a"], "X", "Y"                       # not symmetric under exchange of the two sites
    H += q["b"], "+", "-"
    H.add_term(q["c"], "Z", ops["X"] @ ops["X"])   # explicit array operand
    H -= q["d"], "Z"
    H += q["e"], "X"
    two = [(q["a"], "X", "Y"), (q["b"], "+", "-"), (q["c"], "Z", ops["X"] @ ops["X"])]
    one = [(-q["d"], "Z"), (q["e"], "X")]
    over_two, over_one = {}, {}
    if L >= 3:
        H[1, 2] += q["f"], "Y", "Z"             # replaces the default terms on bond (1, 2)
        H[1, 2] += q["a"], "Z", "Z"
        over_two[(1, 2)] = [(q["f"], "Y", "Z"), (q["a"], "Z", "Z")]
        H[0] += q["g"], "Y"                     # replaces the default single-site terms on site 0
        over_one[0] = [(q["g"], "Y")]
    return H, two, one, over_two, over_one


def _custom_ref(mk, L, cyclic, two, one, over_two, over_one, S=0.5):
    ops = _spin_ops(S)
    D = int(2 * S + 1)
    get = lambda a: ops[a] if isinstance(a, str) else np.asarray(a, dtype=complex)
    cs, ms = [], []
    for i, j in _bonds(L, cyclic):
        for c, A, B in over_two.get((i, j), two):
            cs.append(c)
            ms.append(_chain_embed({i: get(A)}, L, D) @ _chain_embed({j: get(B)}, L, D))
    for i in range(L):
        for c, A in over_one.get(i, one):
            cs.append(c)
            ms.append(_chain_embed({i: get(A)}, L, D))
    return _lincomb(mk, cs, ms)


_CUSTOM = [{"L": L, "cyclic": cyc, "S": S, "_tiers": ("quick", "thorough") if (L <= 3 or S == 0.5) and not (L == 4 and cyc) else ("thorough",)}
           for S in (0.5, 1) for L in (2, 3, 4) for cyc in (False, True) if not (S == 1 and L == 4)]


@obligation(PROP, params=_CUSTOM, exc_is_violation=True, wall_s=600, timeout_s=900)
def spinham_mpo(mk, L, cyclic, S):
    """SpinHam1D.build_mpo with symbolic real coefficients == sum over bonds / sites as documented
    (A on site i, B on site i+1; the cyclic bond is A on site L-1, B on site 0)"""
    mk.encodes(tb.SpinHam1D.add_term, tb.SpinHam1D.__getitem__, tb.SpinHam1D.__setitem__, tb.SpinHam1D.build_mpo,
               tb.spin_ham_mpo_tensor, tb._TermAdder.__iadd__)
    q = {k: _p(mk, k) for k in "abcdefg"}
    with _tb_env(mk):
        H, two, one, o2, o1 = _custom_spinham(q, L, cyclic, S)
        dense = H.build_mpo(L).to_dense()
    mk.eq("build_mpo(L).to_dense()", dense, _custom_ref(mk, L, cyclic, two, one, o2, o1, S))


@obligation(PROP, params=[p for p in _CUSTOM if p["S"] == 0.5], exc_is_violation=True)
def spinham_build_sparse(mk, L, cyclic, S):
    """SpinHam1D.build_sparse (matrix side of the same builder; numeric coefficients only) == the same
    documented sum == build_mpo"""
    mk.encodes(tb.SpinHam1D.build_sparse, tb.SpinHam1D.build_mpo)
    vals = dict(zip("abcdefg", (0.5, -1.5, 0.75, 2.0, -0.25, 1.25, 0.375)))
    H, two, one, o2, o1 = _custom_spinham(vals, L, cyclic, S)
    num = type("N", (), {"sym": False})()
    R = _custom_ref(num, L, cyclic, two, one, o2, o1, S)
    mk.eq("build_sparse(L)", mk.const(H.build_sparse(L).toarray()), mk.const(R))
    A = H.build_sparse(L, stype="coo")
    mk.eq("build_sparse(L, stype='coo')", mk.const(A.toarray() if hasattr(A, "toarray") else np.asarray(A)), mk.const(R))
    mk.eq("build_mpo(L).to_dense() == build_sparse(L)", mk.const(np.asarray(H.build_mpo(L).to_dense())),
          mk.const(H.build_sparse(L).toarray()))


# ====================================================================== predefined models (quimb/operator/models.py)

_EDGES = [(0, 1), (2, 1), (0, 2), (2, 3), (1, 0)]          # a triangle with a tail; one reversed duplicate
_UEDGES = [(0, 1), (0, 2), (1, 2), (2, 3)]                  # the unique edges, each as (i < j)


def _model_case(name):
    """-> (builder, textbook raw term list, fermionic?)"""
    from quimb.operator import models as qm
    if name.startswith("heis"):
        if name == "heis_iso":
            j, b = 0.75, 0.5
            jx = jy = jz = j
            bx, by, bz = 0.0, 0.0, b
        else:
            j, b = (0.5, -0.25, 1.5), (0.25, 0.75, -0.5)
            (jx, jy, jz), (bx, by, bz) = j, b
        H = qm.heisenberg_from_edges(_EDGES, j=j, b=b, order=(2, 0, 3, 1))
        terms = []
        for i, k in _UEDGES:
            terms += [(jx, (("sx", i), ("sx", k))), (jy, (("sy", i), ("sy", k))), (jz, (("sz", i), ("sz", k)))]
        for i in range(4):
            terms += [(-bx, (("sx", i),)), (-by, (("sy", i),)), (-bz, (("sz", i),))]
        return H, [t for t in terms if t[0] != 0], False
    if name.startswith("hubbard_spinless"):
        t, V, mu, delta = 1.0, 0.5, 0.25, (0.0 if name.endswith("u1") else 0.75)
        H = qm.fermi_hubbard_spinless_from_edges(_EDGES, t=t, V=V, mu=mu, delta=delta, order=(3, 1, 0, 2),
                                                 pauli_decompose=name.endswith("pauli"))
        terms = []
        for i, k in _UEDGES:
            terms += [(-t, (("+", i), ("-", k))), (-t, (("+", k), ("-", i))), (V, (("n", i), ("n", k)))]
            if delta:
                terms += [(delta, (("+", i), ("+", k))), (delta, (("-", k), ("-", i)))]
        terms += [(-mu, (("n", i),)) for i in range(4)]
        return H, terms, True
    if name.startswith("hubbard"):
        t, U, mu = (1.0, 0.5), 2.0, (0.25, -0.75)
        edges = [(0, 1), (1, 2), (1, 0)]
        H = qm.fermi_hubbard_from_edges(edges, t=t, U=U, mu=mu, order="blocked" if "blocked" in name else "interleaved")
        terms = []
        for i, k in [(0, 1), (1, 2)]:
            for s, ts in zip("↑↓", t):
                terms += [(-ts, (("+", (s, i)), ("-", (s, k)))), (-ts, (("+", (s, k)), ("-", (s, i))))]
        for i in range(3):
            terms += [(U, (("n", ("↑", i)), ("n", ("↓", i)))), (-mu[0], (("n", ("↑", i)),)), (-mu[1], (("n", ("↓", i)),))]
        return H, terms, True
    raise KeyError(name)


_MODEL_CASES = ("heis_iso", "heis_aniso", "hubbard_spinless", "hubbard_spinless_u1", "hubbard_spinless_pauli", "hubbard_interleaved",
                "hubbard_blocked")


@obligation(PROP, params=[{"name": m} for m in _MODEL_CASES], exc_is_violation=True, wall_s=600)
def predefined_models(mk, name):
    """heisenberg_from_edges / fermi_hubbard_from_edges / fermi_hubbard_spinless_from_edges: the built
    matrix == the documented formula written as a raw term list (fermionic operators ordered by the
    Hilbert space's registers; pairing term oriented i < j); sectors of the conserved symmetries"""
    from quimb.operator import models as qm
    mk.encodes(qm.heisenberg_from_edges, qm.fermi_hubbard_from_edges, qm.fermi_hubbard_spinless_from_edges,
               qm.make_edge_factory, qm.make_node_factory, qh.parse_edges_to_unique, *_ENC_BUILDER)
    H, terms, fermionic = _model_case(name)
    hs = H.hilbert_space
    n = hs.nsites
    R = _ref_dense(mk, terms, hs.site_to_reg, n, fermionic=fermionic)
    mk.eq("build_dense()", mk.const(H.build_dense()), mk.const(R))
    mk.eq("build_mpo().to_dense()", mk.const(np.asarray(H.build_mpo().to_dense())), mk.const(R))
    mk.eq("build_matrix_ikron()", mk.const(np.asarray(H.build_matrix_ikron())), mk.const(R))
    secs = [("Z2", "odd", 1)]
    if name in ("heis_iso", "hubbard_spinless_u1", "hubbard_interleaved", "hubbard_blocked"):
        secs += [("U1", 2, 2)]
    for symmetry, sec_arg, sec in secs:
        ix = _sector_basis(hs.sites, list(hs.sites), symmetry, sec)
        rest = [i for i in range(2 ** n) if i not in set(ix)]
        if np.abs(R[np.ix_(rest, ix)]).max(initial=0) != 0:
            continue       # (anisotropic Heisenberg with an x field does not conserve parity)
        mk.eq(f"{symmetry} sector={sec_arg}: build_dense(sector=)", mk.const(H.build_dense(sector=sec_arg, symmetry=symmetry)),
              mk.const(R[np.ix_(ix, ix)]))
    if name.startswith("hubbard_") and "spinless" not in name:
        enum = sorted(hs.sites, key=lambda s: (s[0], hs.site_to_reg(s)))
        mk.same("species blocks in sorted label order", [s[0] for s in enum], sorted(s[0] for s in enum))
        labels = sorted({s[0] for s in hs.sites})
        for ka, kb in ((1, 1), (2, 1), (0, 3)):
            sec = ((3, ka), (3, kb))
            ix = _sector_basis(hs.sites, enum, "U1U1", sec)
            want = R[np.ix_(ix, ix)]
            mk.eq(f"U1U1 sector={{{labels[0]}: {ka}, {labels[1]}: {kb}}}: build_dense(sector=)",
                  mk.const(H.build_dense(sector={labels[0]: ka, labels[1]: kb})), mk.const(want))
            mk.eq(f"U1U1 sector=({ka}, {kb}): build_sparse_matrix(sector=)",
                  mk.const(H.build_sparse_matrix(sector=(ka, kb)).toarray()), mk.const(want))


@obligation(PROP, params=[{"case": c} for c in HS_CASES], exc_is_violation=True)
def hilbertspace_reordering(mk, case):
    """HilbertSpace.with_ordering(order): same sites, dimensions, symmetry, sector and species under a new register
    order - the new space enumerates exactly the configurations of the old one (a sector is a set of configurations,
    whatever the order of the registers), consistently with its own config <-> rank maps, and equals the space
    constructed directly with that order"""
    mk.encodes(HilbertSpace.with_ordering, HilbertSpace.rank_to_config, HilbertSpace.config_to_rank)
    spec = HS_CASES[case]
    hs = HilbertSpace(**spec["kw"])
    sites = list(hs.sites)
    has_species = "species" in spec["kw"]

    def configs(h):
        return [tuple(sorted(((repr(s), int(v)) for s, v in h.rank_to_config(r).items()))) for r in range(int(h.size))]

    base = configs(hs)
    orders = [("True", True), ("reversed", tuple(reversed(sites))), ("rotated", tuple(sites[2:] + sites[:2])),
              ("keyfn", (lambda s: (repr(s)[::-1], repr(s))))]
    if has_species:
        orders += [("blocked", "blocked"), ("interleaved", "interleaved")]
    for name, order in orders:
        try:
            h2 = hs.with_ordering(order)
        except (TypeError, ValueError) as e:
            # e.g. the 'blocked' / 'interleaved' presets need sites labelled (species, ...): a rejection
            mk.note(f"order={name}: rejected ({e})"[:120])
            continue
        mk.same(f"order={name}: same set of sites", sorted(map(repr, h2.sites)), sorted(map(repr, sites)))
        mk.same(f"order={name}: same symmetry", h2.symmetry, hs.symmetry)
        mk.same(f"order={name}: same size", int(h2.size), int(hs.size))
        c2 = configs(h2)
        if hs.symmetry != "U1U1" or has_species:
            # (a U1U1 sector given by register positions, without species, is defined by the order itself)
            mk.same(f"order={name}: the configurations of the sector are the same set", sorted(c2), sorted(base))
        mk.same(f"order={name}: no configuration is enumerated twice", len(set(c2)), len(c2))
        back = [int(h2.config_to_rank(h2.rank_to_config(r))) for r in range(int(h2.size))]
        mk.same(f"order={name}: config_to_rank(rank_to_config(r)) == r", back, list(range(int(h2.size))))
        kw = dict(spec["kw"])
        kw["order"] = order
        if isinstance(kw.get("sites"), (int, range)):
            kw["sites"] = list(range(kw["sites"])) if isinstance(kw["sites"], int) else list(kw["sites"])
        try:
            h3 = HilbertSpace(**kw)
            mk.same(f"order={name}: same register order as the directly constructed space", list(map(repr, h2.sites)), list(map(repr, h3.sites)))
            mk.same(f"order={name}: same enumeration as the directly constructed space", c2, configs(h3))
        except (TypeError, ValueError) as e:
            mk.note(f"order={name}: direct construction rejected ({e})"[:120])


# ---------------------------------------------------------------------- builder histories

@obligation(PROP)
def builder_history_no_stale_cache(mk):
    """every representation built after a term was added / cancelled / re-added equals the one of a fresh
    builder holding the same terms: what was built earlier must never be served stale"""
    mk.encodes(SparseOperatorBuilder.add_term, SparseOperatorBuilder.build_dense, SparseOperatorBuilder.build_sparse_matrix,
               SparseOperatorBuilder.matvec, SparseOperatorBuilder.get_coupling_map)
    base = [(1.0, ("z", 0), ("z", 1)), (0.5, ("x", 1)), (0.25, ("+", 0), ("-", 2)), (0.25, ("-", 0), ("+", 2))]
    extra = [(0.75, ("x", 1)), (-0.5, ("x", 1)), (-0.25, ("+", 0), ("-", 2)), (2.0, ("x", 2)), (-2.0, ("x", 2)), (-1.0, ("z", 0), ("z", 1))]

    def fresh(terms):
        H = SparseOperatorBuilder(hilbert_space=HilbertSpace(3))
        for t in terms:
            H += t
        return H

    def reps(H):
        x = np.arange(1.0, 9.0)
        out = {"dense": np.asarray(H.build_dense()), "sparse": np.asarray(H.build_sparse_matrix().todense()), "matvec": np.asarray(H.matvec(x.copy()))}
        ik = H.build_matrix_ikron()
        if ik is not None:
            out["ikron"] = np.asarray(ik.todense() if hasattr(ik, "todense") else ik)
        return out

    for k in range(len(extra)):
        for j in range(len(extra)):
            if j == k:
                continue
            H = fresh(base)
            reps(H)                                   # warm every cache
            hist = list(base)
            for t in (extra[k], extra[j]):
                H += t
                hist.append(t)
                got, want = reps(H), reps(fresh(hist))
                for name in want:
                    if name in got:
                        mk.eq(f"after adding {extra[k]} then {extra[j]}: {name} == fresh builder with the same terms (last added {t})",
                              mk.const(got[name]), mk.const(want[name]))
