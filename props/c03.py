"""C03 - labelled semantics: axis order never matters; non-in-place calls never mutate.

Every (f, f_) method pair of the tensor / network / 1D / 2D / 3D / arbitrary-geometry classes
is discovered by reflection (a trailing-underscore attribute that is a
`functools.partialmethod(..., inplace=True)` and whose plain spelling exists), both as defined
on a class and as *visible* on its subclasses through the MRO (a subclass that overrides `f`
but inherits `f_` bound to the base class function).  For each pair the *real* methods are run
with hand written argument tuples on small receivers whose numerical entries are symbols
(complex conj-pair symbols for LAPACK-free methods, real symbols - complex in the thorough
tier - where a LAPACK contract stub is reached) and three families of goals are stated:

 (i)   non-mutation: a deep fingerprint (labels, tags, left_inds, shapes, tensor / index / tag
       maps, exponent, class, extra properties, identity of every data array and a copy of its
       content) of the receiver, of a copy taken before the call (copies share their arrays by
       design) and of every tensor / network / array argument is identical before and after the
       plain call; the network a copy was taken from is intact after f_(copy);
 (ii)  f(x) and f_(copy(x)) are the same labelled object (labels, tags, left_inds, stored arrays
       tensor by tensor; randomly named new bonds are canonicalised by the tensors they join);
 (iii) f(pi . x) is the same labelled object as f(x) for stored-axis permutations pi of every
       tensor of the receiver and of every tensor / network argument (all permutations for a
       rank-3 Tensor receiver, reversal / roll / mixed for networks; arrays compared tensor by
       tensor after alignment by label, or as dense values over the outer labels for gauge
       dependent QR / SVD based results), and for a reversed insertion order of the tensors of a
       plain network (dense value);
 (iv)  the binary operators of Tensor and TensorNetwork: value aligned / broadcast by label ==
       explicit elementwise reference for every pair of stored orders, operands intact, the
       documented in-place operators never write into arrays shared with copies.

Methods the symbolic engine cannot run (RNG, dtype casts, iterative / truncating gauging and
compression, value dependent simplifications) are run on concrete float data inside the same
harness (the goals are then concrete assertions); they are listed separately in META.  Every
obligation is also re-run numerically on random float / complex data (fingerprints then compare
bytes).
"""
import functools
import inspect
import itertools
import random
import warnings
import zlib

import numpy as np
import scipy.linalg as scla

import quimb.tensor as qtn
from quimb.tensor import tensor_core as tc
from quimb.tensor.tnag import core as cg
from quimb.tensor.tn1d import core as c1
from quimb.tensor.tn2d import core as c2
from quimb.tensor.tn3d import core as c3

from qv import poly as P
from qv import ref
from qv.harness import obligation

PROP = "C03"

# ======================================================================================
# A. reflection
# ======================================================================================


def _all_classes():
    """Tensor, TensorNetwork and every subclass quimb.tensor defines (tensor_core, tnag, tn1d, tn2d, tn3d, mera)"""
    out = []

    def walk(c):
        if c not in out and c.__module__.startswith("quimb."):
            out.append(c)
        for sub in c.__subclasses__():
            walk(sub)

    walk(tc.Tensor)
    walk(tc.TensorNetwork)
    order = [m.__name__ for m in (tc, cg, c1, c2, c3)]
    out.sort(key=lambda c: (order.index(c.__module__) if c.__module__ in order else len(order)))
    return out


CLASSES = _all_classes()


def _lookup(cls, name):
    for c in cls.__mro__:
        if name in c.__dict__:
            return c.__dict__[name]
    return None


def _is_inplace_partial(v):
    return isinstance(v, functools.partialmethod) and v.keywords.get("inplace") is True


def reflect():
    """-> (pairs, excluded): pairs = [(class name, plain name)], defined on that class itself"""
    pairs, excluded = [], []
    for cls in CLASSES:
        for k, v in cls.__dict__.items():
            if not _is_inplace_partial(v):
                continue
            if not k.endswith("_"):
                twins = [n for n, w in cls.__dict__.items() if w is v and n != k]
                excluded.append((cls.__name__, k, f"underscore-less alias of the in-place spelling {twins}: in place by documented default"))
                continue
            plain = k[:-1]
            pv = _lookup(cls, plain)
            if pv is None:
                excluded.append((cls.__name__, k, "no plain spelling"))
                continue
            if pv is v or _is_inplace_partial(pv):
                excluded.append((cls.__name__, k, "plain spelling is the in-place method itself"))
                continue
            fn = pv.func if isinstance(pv, functools.partialmethod) else pv
            try:
                dflt = inspect.signature(fn).parameters.get("inplace")
                if dflt is not None and dflt.default is True:
                    excluded.append((cls.__name__, k, "plain spelling defaults to inplace=True"))
                    continue
            except (TypeError, ValueError):
                pass
            pairs.append((cls.__name__, plain))
    return pairs, excluded


PAIRS, EXCLUDED = reflect()
CLS = {c.__name__: c for c in CLASSES}


def _resolved(v):
    """(function, other bound keywords) behind a method or partialmethod"""
    if isinstance(v, functools.partialmethod):
        return v.func, {k: w for k, w in v.keywords.items() if k != "inplace"}
    return v, {}


def reflect_inherited():
    """pairs as *visible* on every class (through the MRO) whose two spellings resolve to different
    functions: a subclass overrides `f` but inherits `f_ = partialmethod(<base class f>, inplace=True)`
    (or the reverse).  -> [(class, plain name, class providing f_, class providing f)], one entry per
    distinct (function behind f_, function behind f)."""
    out, seen = [], set()
    for cls in CLASSES:
        names = set()
        for c in cls.__mro__:
            names.update(k for k, v in c.__dict__.items() if _is_inplace_partial(v) and k.endswith("_"))
        for k in sorted(names):
            v, pv = _lookup(cls, k), _lookup(cls, k[:-1])
            if pv is None or not _is_inplace_partial(v) or _is_inplace_partial(pv):
                continue
            (f_, kw_), (f, kw) = _resolved(v), _resolved(pv)
            if f_ is f and kw_ == kw:
                continue
            key = (id(f_), id(f))
            if key in seen:
                continue
            seen.add(key)
            own_ = next(c.__name__ for c in cls.__mro__ if k in c.__dict__)
            own = next(c.__name__ for c in cls.__mro__ if k[:-1] in c.__dict__)
            out.append((cls.__name__, k[:-1], own_, own))
    return out


MIXED = reflect_inherited()

# ======================================================================================
# helper context: symbolic or concrete data, goals that work in both
# ======================================================================================


def _is_obj(a):
    return isinstance(a, np.ndarray) and a.dtype == object


class HX:
    """wraps `mk` for one case: `concrete` cases use fixed float data even in symbolic mode
    (their goals are then concrete assertions reached on the symbolic run)"""

    def __init__(self, mk, prefix, concrete=False, kind="cplx"):
        self.mk = mk
        self.prefix = prefix
        self.concrete = concrete
        self.kind = kind
        self.cache = {}
        self.want_dense = False     # also compare dense values when the stored arrays were compared

    @property
    def symbolic(self):
        return self.mk.sym and not self.concrete

    def arr(self, name, shape, kind=None):
        kind = kind or self.kind
        key = (name, tuple(shape), kind)
        if key in self.cache:
            return self.cache[key]
        if self.concrete and self.mk.sym:
            rng = random.Random(zlib.crc32(f"{self.prefix}{name}".encode()))
            q = lambda: rng.choice([-1, 1]) * rng.randint(1, 24) / 16
            a = np.empty(shape, dtype=complex if kind == "cplx" else float)
            for idx in np.ndindex(*shape):
                a[idx] = complex(q(), q()) if kind == "cplx" else (abs(q()) + 0.125 if kind == "pos" else q())
        else:
            a = self.mk.array(self.prefix + name, shape, kind)
        self.cache[key] = a
        return a

    def scalar(self, name, kind="real"):
        return self.arr(name, (), kind)[()]

    # -- goals
    def eq(self, label, a, b, tol=1e-7):
        mk = self.mk
        label = self.prefix + label
        if mk.sym and not (_has_sym(a) or _has_sym(b)):
            a = np.asarray(a, dtype=complex)
            b = np.asarray(b, dtype=complex)
            ok = a.shape == b.shape or a.size == b.size
            if ok:
                a, b = a.reshape(-1), b.reshape(-1)
                scale = max(1.0, float(np.max(np.abs(a))) if a.size else 1.0)
                ok = bool(np.all(np.abs(a - b) <= tol * scale))
            mk.check(ok, label + " [concrete]")
        else:
            mk.eq(label, a, b, **({} if mk.sym else {"tol": tol}))

    def same(self, label, a, b):
        self.mk.same(self.prefix + label, a, b)


def _has_sym(a):
    if isinstance(a, P.Poly):
        return True
    if isinstance(a, (tc.Tensor,)):
        a = a.data
    return isinstance(a, np.ndarray) and a.dtype == object


# ======================================================================================
# fingerprints (goal i)
# ======================================================================================


def _content(a):
    a = np.asarray(a)
    return np.array(a, dtype=a.dtype, copy=True)


def fp_tensor(t):
    if isinstance(t, tc.PTensor):
        # parametrised tensor: the shared array is the parameter array; the value is generated lazily
        return {"kind": "T", "struct": (type(t).__name__, t.inds, tuple(t.tags), t.left_inds, tuple(t.shape)),
                "arr": t.params, "content": _content(t.params), "value": _content(t.data)}
    return {"kind": "T", "struct": (type(t).__name__, t.inds, tuple(t.tags), t.left_inds, tuple(t.shape), str(t.dtype)),
            "arr": t.data, "content": _content(t.data)}


def _extras(tn):
    out = []
    for ep in type(tn)._EXTRA_PROPS:
        v = getattr(tn, ep, "<missing>")
        out.append((ep, v if isinstance(v, (str, int, bool, type(None), tuple)) else repr(v)))
    return tuple(out)


_VIEW_NAMES = ("sites", "site_inds", "site_tags", "upper_inds", "lower_inds", "site_inds_present", "upper_inds_present",
               "lower_inds_present", "site_tags_present")


def derived_views(tn):
    """the label views a structured network derives (and caches) from its naming scheme, read through the public
    properties: they must always describe the network as it is NOW (reading them also fills the caches)"""
    out = []
    for nm in _VIEW_NAMES:
        if isinstance(getattr(type(tn), nm, None), property):
            try:
                v = getattr(tn, nm)
                out.append((nm, tuple(v) if isinstance(v, (tuple, list)) else repr(v)))
            except Exception as e:   # a view that cannot be formed on this object: compared as such
                out.append((nm, f"<{type(e).__name__}>"))
    return tuple(out)


def fp_tn(tn):
    return {"kind": "TN",
            "struct": (type(tn).__name__, tuple(tn.tensor_map), tuple((k, tuple(v)) for k, v in tn.ind_map.items()),
                       tuple((k, tuple(v)) for k, v in tn.tag_map.items()), tuple(tn.outer_inds()), tuple(tn.inner_inds()),
                       _extras(tn), tuple(id(t) for t in tn.tensor_map.values())),
            "exponent": tn.exponent,
            "tensors": {tid: fp_tensor(t) for tid, t in tn.tensor_map.items()}}


def fp_any(x):
    if isinstance(x, tc.TensorNetwork):
        return fp_tn(x)
    if isinstance(x, tc.Tensor):
        return fp_tensor(x)
    if isinstance(x, np.ndarray):
        return {"kind": "A", "struct": (x.shape, str(x.dtype)), "arr": x, "content": _content(x)}
    return None


def _bytes_equal(a, b):
    if a.dtype == object or b.dtype == object:
        return None
    return a.shape == b.shape and a.dtype == b.dtype and a.tobytes() == b.tobytes()


def check_unchanged(hx, label, x, fp):
    """x still has fingerprint fp (structure identical, same array objects, same array content)"""
    if fp is None:
        return
    if fp["kind"] == "TN":
        now = fp_tn(x)
        hx.same(f"{label}: structure / maps / class / extra props", now["struct"], fp["struct"])
        if _has_sym(fp["exponent"]) or _has_sym(now["exponent"]):
            hx.eq(f"{label}: exponent", now["exponent"], fp["exponent"])
        else:
            hx.same(f"{label}: exponent", now["exponent"], fp["exponent"])
        for tid, f in fp["tensors"].items():
            if tid in x.tensor_map:
                _check_arr(hx, f"{label}: tensor {tid}", x.tensor_map[tid], f, now["tensors"][tid])
        return
    now = fp_any(x)
    _check_arr(hx, label, x, fp, now)


def _check_arr(hx, label, x, fp, now):
    hx.same(f"{label}: labels / tags / left_inds / shape", now["struct"], fp["struct"])
    hx.same(f"{label}: holds the same array object", now["arr"] is fp["arr"], True)
    # the array the object held before the call must still have its old content (in-place writes
    # into arrays shared with copies show up here even if the object was re-pointed)
    old_arr, old = fp["arr"], fp["content"]
    be = _bytes_equal(old_arr, old)
    if be is None:
        if old_arr.shape == old.shape:
            hx.eq(f"{label}: array content", old_arr, old)
        else:
            hx.same(f"{label}: array shape", old_arr.shape, old.shape)
    else:
        hx.same(f"{label}: array bytes", be, True)
    if "value" in fp:
        hx.eq(f"{label}: generated value", now["value"], fp["value"])


# ======================================================================================
# comparing results as labelled objects (goals ii, iii)
# ======================================================================================


def _is_rand(name):
    return isinstance(name, str) and ("_" + tc._RAND_PREFIX) in name


def _canon_names(o, known):
    """-> (map, ambiguous).  Every randomly generated label (rand_uuid) of `o` that is not in `known`
    is renamed canonically: in a network by the positions of the tensors it joins (independent of
    stored axis order), on a tensor by order of appearance.  ambiguous: two random labels join the
    same tensors (their numbering then follows the order of appearance)."""
    m = {}
    amb = False
    if isinstance(o, tc.TensorNetwork):
        occ = {}
        for pos, t in enumerate(o.tensor_map.values()):
            for i in t.inds:
                if _is_rand(i) and i not in known:
                    occ.setdefault(i, []).append(pos)
        seen = {}
        for i, ps in occ.items():
            key = "#" + ".".join(map(str, ps))
            n = seen.get(key, 0)
            seen[key] = n + 1
            m[i] = key if n == 0 else f"{key}~{n}"
            amb = amb or n > 0
    elif isinstance(o, tc.Tensor):
        for i in o.inds:
            if _is_rand(i) and i not in known and i not in m:
                m[i] = f"#t{len(m)}"
        amb = len(m) > 1
    return m, amb


def _flatten_result(r):
    if isinstance(r, (tuple, list)):
        out = []
        for x in r:
            out.extend(_flatten_result(x))
        return out
    return [r]


def _outer(o):
    if isinstance(o, tc.TensorNetwork):
        return tuple(sorted(o.outer_inds()))
    return tuple(sorted(set(i for i in o.inds if o.inds.count(i) == 1)))


def dense_of(o, out):
    if isinstance(o, tc.TensorNetwork):
        return ref.tn_dense(o, out)
    return ref.sum_of_products([(o.data, o.inds)], out)


def _li_compatible(a, b):
    return a is None or b is None or set(a) == set(b)


def compare(hx, label, r1, r2, mode, known, data=True):
    """mode 'exact': same stored object (up to random names); 'labelled': same up to stored axis
    order; 'value': same dense value over the same outer labels only.  data=False: labels /
    tags / structure only (the values are then compared with a reference by the caller)"""
    f1, f2 = _flatten_result(r1), _flatten_result(r2)
    hx.same(f"{label}: number of returned objects", len(f1), len(f2))
    for k, (a, b) in enumerate(zip(f1, f2)):
        _compare1(hx, f"{label}[{k}]" if len(f1) > 1 else label, a, b, mode, known, data)


def _compare1(hx, label, a, b, mode, known, data=True):
    isT = lambda o: isinstance(o, tc.Tensor)
    isN = lambda o: isinstance(o, tc.TensorNetwork)
    if a is None or b is None or isinstance(a, (str, bool, int, dict)) and not isinstance(a, P.Poly):
        if isinstance(a, dict) and isinstance(b, dict):
            hx.same(f"{label}: dict keys", sorted(map(str, a)), sorted(map(str, b)))
            return
        hx.same(f"{label}: plain value", a, b)
        return
    if not (isT(a) or isN(a)) and not (isT(b) or isN(b)):
        if data:
            hx.eq(f"{label}: value", np.asarray(a), np.asarray(b))
        return
    if not (isT(a) or isN(a)) or not (isT(b) or isN(b)):
        # scalar vs labelled object with no outer labels
        va = dense_of(a, ()) if (isT(a) or isN(a)) else np.asarray(a)
        vb = dense_of(b, ()) if (isT(b) or isN(b)) else np.asarray(b)
        if data:
            hx.eq(f"{label}: value (scalar vs object)", va, vb)
        return
    if isN(a) and isN(b) and type(a) is type(b):
        hx.same(f"{label}: derived label views (sites / site_inds / upper_inds / lower_inds / ... read through the public properties)",
                derived_views(a), derived_views(b))
    oa, ob = _outer(a), _outer(b)
    (ma, amb_a), (mb, amb_b) = _canon_names(a, known), _canon_names(b, known)
    ca = tuple(sorted(ma.get(i, i) for i in oa))
    cb = tuple(sorted(mb.get(i, i) for i in ob))
    hx.same(f"{label}: outer labels", ca, cb)
    if ca != cb:
        return
    # order the outer labels consistently (random ones by canonical name)
    oa = tuple(sorted(oa, key=lambda i: ma.get(i, i)))
    ob = tuple(sorted(ob, key=lambda i: mb.get(i, i)))
    if isT(a) and isT(b) and mode != "value":
        hx.same(f"{label}: class", type(a).__name__, type(b).__name__)
        if mode == "exact":
            hx.same(f"{label}: inds / tags / left_inds", (tuple(ma.get(i, i) for i in a.inds), tuple(a.tags), a.left_inds and tuple(ma.get(i, i) for i in a.left_inds)),
                    (tuple(mb.get(i, i) for i in b.inds), tuple(b.tags), b.left_inds and tuple(mb.get(i, i) for i in b.left_inds)))
            hx.same(f"{label}: shape", a.shape, b.shape)
            if a.shape == b.shape and data:
                hx.eq(f"{label}: stored array", a.data, b.data)
            return
        hx.same(f"{label}: tags", sorted(a.tags), sorted(b.tags))
        hx.same(f"{label}: left_inds compatible", _li_compatible(a.left_inds, b.left_inds), True)
    elif isN(a) and isN(b) and mode != "value":
        hx.same(f"{label}: class", type(a).__name__, type(b).__name__)
        hx.same(f"{label}: extra props", _extras(a), _extras(b))
        hx.same(f"{label}: number of tensors", a.num_tensors, b.num_tensors)
        hx.same(f"{label}: tags", sorted(a.tag_map), sorted(b.tag_map))
        if _has_sym(a.exponent) or _has_sym(b.exponent) or mode != "exact":
            pass    # the exponent is part of the dense value below
        else:
            hx.same(f"{label}: exponent", a.exponent, b.exponent)
        if a.num_tensors == b.num_tensors:
            for k, (ta, tb) in enumerate(zip(a.tensor_map.values(), b.tensor_map.values())):
                if mode == "exact":
                    hx.same(f"{label}: tensor#{k} inds / tags / left_inds",
                            (tuple(ma.get(i, i) for i in ta.inds), tuple(ta.tags), ta.left_inds and tuple(ma.get(i, i) for i in ta.left_inds)),
                            (tuple(mb.get(i, i) for i in tb.inds), tuple(tb.tags), tb.left_inds and tuple(mb.get(i, i) for i in tb.left_inds)))
                    hx.same(f"{label}: tensor#{k} shape", ta.shape, tb.shape)
                    if ta.shape == tb.shape and data:
                        hx.eq(f"{label}: tensor#{k} stored array", ta.data, tb.data)
                else:
                    hx.same(f"{label}: tensor#{k} known labels / tags / dims",
                            (sorted(i for i in ta.inds if i not in ma), sorted(ta.tags), sorted(ta.shape)),
                            (sorted(i for i in tb.inds if i not in mb), sorted(tb.tags), sorted(tb.shape)))
                    if mode == "labelled":
                        hx.same(f"{label}: tensor#{k} left_inds compatible",
                                _li_compatible(ta.left_inds and [i for i in ta.left_inds if i not in ma],
                                               tb.left_inds and [i for i in tb.left_inds if i not in mb]), True)
        if mode == "exact" and not hx.want_dense:
            return
        cn_a = lambda t: tuple(ma.get(i, i) for i in t.inds)
        cn_b = lambda t: tuple(mb.get(i, i) for i in t.inds)
        if mode == "labelled" and data and not amb_a and not amb_b and a.num_tensors == b.num_tensors and all(
                set(cn_a(ta)) == set(cn_b(tb)) and len(set(ta.inds)) == ta.ndim == tb.ndim
                for ta, tb in zip(a.tensor_map.values(), b.tensor_map.values())):
            # same labels tensor by tensor: compare the arrays aligned by label (implies the dense value)
            for k, (ta, tb) in enumerate(zip(a.tensor_map.values(), b.tensor_map.values())):
                ia, ib = cn_a(ta), cn_b(tb)
                perm = tuple(ib.index(i) for i in ia)
                hx.eq(f"{label}: tensor#{k} array aligned by label", ta.data, np.transpose(tb.data, perm))
            hx.eq(f"{label}: exponent", np.asarray(a.exponent), np.asarray(b.exponent))
            return
    if data:
        hx.eq(f"{label}: dense value over {ca}", dense_of(a, oa), dense_of(b, ob))


# ======================================================================================
# stored-axis permutations
# ======================================================================================


def permute_tensor(t, perm):
    perm = tuple(perm)
    if isinstance(t, tc.PTensor):
        fn0 = t.fn
        return tc.PTensor(lambda p, fn0=fn0: np.transpose(fn0(p), perm), t.params, tuple(t.inds[q] for q in perm), t.tags,
                          left_inds=t.left_inds)
    data = np.transpose(t.data, perm).copy()
    return t.__class__(data, tuple(t.inds[p] for p in perm), t.tags, left_inds=t.left_inds)


def _perm_for(rank, how, k=0):
    if rank < 2:
        return tuple(range(rank))
    if how == "rev":
        return tuple(reversed(range(rank)))
    if how == "roll":
        return tuple(range(1, rank)) + (0,)
    if how.startswith("mixed"):
        ps = list(itertools.permutations(range(rank)))[1:]
        return ps[(2 * k + 1 + 3 * int(how[5:] or 0)) % len(ps)]
    raise ValueError(how)


def permute_network(tn, how):
    """same network (same tids, labels, tags, class) with every tensor's stored axes permuted"""
    new = tn.copy()
    for k, t in enumerate(new.tensor_map.values()):
        perm = _perm_for(t.ndim, how, k)
        li = t.left_inds
        t.modify(data=np.transpose(t.data, perm).copy(), inds=tuple(t.inds[p] for p in perm), left_inds=li)
    return new


def permute_any(x, how):
    if isinstance(x, tc.TensorNetwork):
        return permute_network(x, how)
    if isinstance(x, tc.Tensor):
        return permute_tensor(x, how if not isinstance(how, str) else _perm_for(x.ndim, how))
    if isinstance(x, (tuple, list)) and any(isinstance(y, (tc.Tensor, tc.TensorNetwork)) for y in x):
        return type(x)(permute_any(y, how) for y in x)
    return x


def reinserted(tn):
    """plain network holding the same tensors inserted in reverse order"""
    new = tc.TensorNetwork([t.copy() for t in reversed(list(tn.tensor_map.values()))])
    new.exponent = tn.exponent
    return new


# ======================================================================================
# receivers
# ======================================================================================


def R_T3(hx):
    """rank-3 Tensor ('a','b','c') dims (2,2,3) tags {'T','X'}"""
    return tc.Tensor(hx.arr("T", (2, 2, 3)), ("a", "b", "c"), tags=["T", "X"], left_inds=("a",))


def R_T3sq(hx):
    """rank-3 Tensor with equal dims (2,2,2)"""
    return tc.Tensor(hx.arr("T", (2, 2, 2)), ("a", "b", "c"), tags=["T", "X"], left_inds=("a", "b"))


def R_T1(hx):
    """rank-3 Tensor with a size-1 axis"""
    return tc.Tensor(hx.arr("T", (2, 1, 3)), ("a", "u", "c"), tags=["T", "X"], left_inds=("a", "u"))


def R_Trep(hx):
    """rank-3 Tensor with a repeated label"""
    return tc.Tensor(hx.arr("T", (2, 2, 3)), ("a", "a", "c"), tags=["T", "X"])


RECEIVERS = {}


def receiver(name):
    def deco(f):
        RECEIVERS[name] = f
        return f
    return deco


def R_T422(hx):
    """rank-3 Tensor dims (4,2,2): grouping (b,c) gives a square matrix"""
    return tc.Tensor(hx.arr("T", (4, 2, 2)), ("a", "b", "c"), tags=["T", "X"], left_inds=("a",))


def R_PT(hx):
    """parametrised rank-3 tensor: data = reshape(params) * (1 + i)"""
    return tc.PTensor(lambda p: np.reshape(p, (2, 2, 3)) * (1 + 1j), hx.arr("p", (12,)), ("a", "b", "c"), tags=["T", "X"], left_inds=("a",))


RECEIVERS["PT"] = R_PT

for _n, _f in (("T3", R_T3), ("T3sq", R_T3sq), ("T1", R_T1), ("Trep", R_Trep), ("T422", R_T422)):
    RECEIVERS[_n] = _f


# ======================================================================================
# cases
# ======================================================================================


class Case:
    def __init__(self, cls, method, recv, argsf=None, *, tag="", sym=True, kind=None, ref=None, det=True,
                 perms=True, cmp="exact", pcmp=None, tiers=("quick", "thorough"), heavy=False, opts=None,
                 permute_args=True, why="", pdata=True, own=False):
        self.cls = cls
        self.method = method
        self.recv = recv
        self.argsf = argsf or (lambda hx, x: ((), {}))
        self.tag = tag
        self.sym = sym
        self.kind = kind
        self.ref = ref
        self.det = det
        self.perms = perms
        self.cmp = cmp            # how f(x) is compared with f_(copy x)
        # how f(pi x) is compared with f(x): 'labelled' = tensor by tensor aligned by label; 'gauge' = same
        # labels / tags / dims tensor by tensor and same dense value (results of QR / SVD based routines
        # are only defined up to a gauge on the inner bonds)
        self.pcmp = pcmp or ("labelled" if (sym and not heavy) else "gauge")
        self.tiers = tiers
        self.heavy = heavy        # reaches LAPACK stubs (certificates modulo their contracts): own obligation
        self.own = own or heavy   # one obligation for this case alone
        self.opts = opts or {}
        self.permute_args = permute_args
        self.why = why            # why concrete only
        self.pdata = pdata        # compare values (not only structure) under axis permutations

    @property
    def name(self):
        return f"{self.cls}.{self.method}" + (f"/{self.tag}" if self.tag else "")


CASES = []


def case(*a, **k):
    CASES.append(Case(*a, **k))


def A(*args, **kwargs):
    """constant argument builder"""
    return lambda hx, x: (args, kwargs)


# ------------------------------------------------------------------------------ Tensor

case("Tensor", "isel", "T3", A({"b": 1}), tag="int")
case("Tensor", "isel", "T3", A({"c": slice(0, 2), "a": 0, "zz": 1}), tag="slice+int+absent")
case("Tensor", "isel", "T3", A({"c": "r"}), tag="random", sym=False, det=False, why="draws a random vector")
case("Tensor", "isel", "T3", A({"a": "r", "c": 1}), tag="random+int", sym=False, det=False, why="draws a random vector")
case("Tensor", "isel", "T3", A({"b": "r", "c": slice(0, 2), "a": 1}), tag="random+slice+int", sym=False, det=False, why="draws a random vector")
case("Tensor", "new_ind_pair_with_identity", "T3", A("l", "r", 2))
case("Tensor", "new_ind_pair_diag", "T3", A("b", "l", "r"))
case("Tensor", "conj", "T3")
case("Tensor", "transpose", "T3", A("c", "a", "b"))
case("Tensor", "transpose", "T3", A("a", "b", "c"), tag="identity")
case("Tensor", "transpose_like", "T3", lambda hx, x: ((tc.Tensor(hx.arr("O", (3, 2, 2)), ("c", "a", "b")),), {}))
case("Tensor", "transpose_like", "T3", lambda hx, x: ((tc.Tensor(hx.arr("O", (3, 2, 2)), ("c", "q", "a")),), {}), tag="one-differs")
case("Tensor", "moveindex", "T3", A("a", -1))
case("Tensor", "moveindex", "T3", A("c", 0), tag="front")
case("Tensor", "sum_reduce", "T3", A("b"))
case("Tensor", "vector_reduce", "T3", lambda hx, x: (("c", hx.arr("v", (3,))), {}))
case("Tensor", "rand_reduce", "T3", A("c", seed=7), sym=False, why="random vector (seeded)")
case("Tensor", "collapse_repeated", "Trep")
case("Tensor", "collapse_repeated", "T3", tag="nothing-repeated")
case("Tensor", "direct_product", "T3", lambda hx, x: ((tc.Tensor(hx.arr("O", (3, 2, 2)), ("c", "a", "b"), tags="O"),), {"sum_inds": ("a",)}))
case("Tensor", "direct_product", "T3", lambda hx, x: ((tc.Tensor(hx.arr("O", (2, 3, 2)), ("b", "c", "a"), tags="O"),), {}), tag="all")
case("Tensor", "gate", "T3", lambda hx, x: ((hx.arr("G", (3, 3)), "c"), {}))
case("Tensor", "gate", "T3", lambda hx, x: ((hx.arr("G", (2, 2)), "b"), {"transpose": True, "preserve_inds": False}), tag="transpose,no-preserve")
case("Tensor", "retag", "T3", A({"T": "S", "nope": "Q"}))
case("Tensor", "reindex", "T3", A({"a": "z", "nope": "q"}))
case("Tensor", "reindex", "T3", A({"a": "b", "b": "a"}), tag="swap")
case("Tensor", "fuse", "T3", A({"ab": ("a", "b")}))
case("Tensor", "fuse", "T3", A([("ca", ("c", "a"))]), tag="ordered")
case("Tensor", "fuse", "T3", A({"bca": ("b", "c", "a")}), tag="all")
case("Tensor", "unfuse", "T3", A({"c": ("c0", "c1")}, {"c": (3, 1)}))
case("Tensor", "unfuse", "T3sq", A({"a": ("a0", "a1"), "c": ("c0", "c1")}, {"a": (1, 2), "c": (2, 1)}), tag="two")
case("Tensor", "squeeze", "T1")
case("Tensor", "squeeze", "T1", A(exclude=("u",)), tag="exclude")
case("Tensor", "squeeze", "T3", tag="nothing")
case("Tensor", "symmetrize", "T3", A("a", "b"))
case("Tensor", "flip", "T3", A("c"))
case("Tensor", "multiply_index_diagonal", "T3", lambda hx, x: (("c", hx.arr("d", (3,))), {}))
case("Tensor", "negate", "T3")
case("Tensor", "normalize", "T3", kind="real", heavy=True)
case("Tensor", "isometrize", "T3sq", A(("a", "b")), kind="real", heavy=True, tag="qr")
case("Tensor", "isometrize", "T3sq", A(), kind="real", heavy=True, tag="own-left_inds")
case("Tensor", "isometrize", "T3", A(("c",), method="svd"), sym=False, tag="svd", why="concrete run of the svd route")
case("Tensor", "isometrize", "T422", A(("a",)), kind="real", heavy=True, tag="qr,two-right-labels")
case("Tensor", "isometrize", "T422", A(("a",), method="svd"), sym=False, tag="svd,two-right-labels", why="concrete run of the svd route")
case("Tensor", "isometrize", "T3", A(("a",), method="exp"), sym=False, own=True, tag="exp,two-right-labels", why="matrix exponential route")
case("Tensor", "isometrize", "T3", A(("a", "b", "c")), kind="real", heavy=True, tag="vector")
case("Tensor", "randomize", "T3", A(seed=3), sym=False, pdata=False, why="random entries (seeded): fills the stored array positionally")
case("Tensor", "astype", "T3", A("complex64"), sym=False, kind="real", why="dtype cast of an object array")
case("Tensor", "astype", "T3", A("complex128"), sym=False, kind="cplx", tag="same", why="dtype cast of an object array")
case("Tensor", "to", "T3", A(dtype="complex64"), sym=False, why="dtype cast of an object array")
case("Tensor", "to", "T3", A("numpy"), sym=False, tag="backend", why="backend conversion")
case("PTensor", "conj", "PT")



# ------------------------------------------------------------------------------ plain networks


def _T(hx, nm, shape, inds, tags, **kw):
    return tc.Tensor(hx.arr(nm, shape), inds, tags=tags, **kw)


@receiver("TN3")
def R_TN3(hx):
    """3-tensor loop A(i,j,k) B(k,l,m) C(m,i), outer j,l, tags, stored exponent 1.0"""
    tn = tc.TensorNetwork([_T(hx, "A", (2, 2, 2), ("i", "j", "k"), ["A", "ALL", "S0"]),
                           _T(hx, "B", (2, 2, 2), ("k", "l", "m"), ["B", "ALL", "S1"]),
                           _T(hx, "C", (2, 2), ("m", "i"), ["C", "ALL", "S2"])])
    tn.exponent = 1.0
    return tn


@receiver("TNC")
def R_TNC(hx):
    """3-tensor chain A(p,x) B(x,y,q) C(y,r)"""
    return tc.TensorNetwork([_T(hx, "A", (2, 2), ("p", "x"), ["A", "ALL"]),
                             _T(hx, "B", (2, 2, 2), ("x", "y", "q"), ["B", "ALL"]),
                             _T(hx, "C", (2, 2), ("y", "r"), ["C", "ALL"])])


@receiver("TNM")
def R_TNM(hx):
    """double bond A(i,x,y) B(y,x,j) plus C(j,k)"""
    return tc.TensorNetwork([_T(hx, "A", (2, 2, 2), ("i", "x", "y"), ["A"]),
                             _T(hx, "B", (2, 2, 2), ("y", "x", "j"), ["B"]),
                             _T(hx, "C", (2, 2), ("j", "k"), ["C"])])


@receiver("TNH")
def R_TNH(hx):
    """hyper index x on three tensors"""
    return tc.TensorNetwork([_T(hx, "A", (2, 2), ("x", "a"), ["A"]),
                             _T(hx, "B", (2, 2), ("x", "b"), ["B"]),
                             _T(hx, "C", (2, 3), ("x", "c"), ["C"])])


@receiver("TN1")
def R_TN1(hx):
    """network with size-1 bond u, size-1 outer label w and a double bond (u, v)"""
    return tc.TensorNetwork([_T(hx, "A", (2, 1, 2), ("i", "u", "v"), ["A"]),
                             _T(hx, "B", (2, 1, 2, 1), ("v", "u", "j", "w"), ["B"])])


@receiver("TNL")
def R_TNL(hx):
    """chain whose tensors carry left_inds"""
    return tc.TensorNetwork([_T(hx, "A", (2, 2), ("p", "x"), ["A"], left_inds=("p",)),
                             _T(hx, "B", (2, 2, 2), ("x", "y", "q"), ["B"], left_inds=("x", "q")),
                             _T(hx, "C", (2, 2), ("y", "r"), ["C"], left_inds=("y",))])


def _gen_like(hx, x):
    like = tc.TensorNetwork([tc.Tensor(hx.arr("L", (2,)), ("zz",), tags=["S0"])])
    like.view_as_(cg.TensorNetworkGen, sites=(0, 1, 2), site_tag_id="S{}")
    return (like,), {}


case("TensorNetwork", "view_as", "TN3", A(cg.TensorNetworkGen, sites=(0, 1, 2), site_tag_id="S{}"))
case("TensorNetwork", "view_like", "TN3", _gen_like, permute_args=False)
case("TensorNetwork", "retag", "TN3", A({"A": "AA", "ALL": "EVERY"}))
case("TensorNetwork", "reindex", "TN3", A({"j": "jj", "k": "kk", "nope": "q"}))
case("TensorNetwork", "conj", "TN3")
case("TensorNetwork", "conj", "TN3", A(mangle_inner=True), tag="mangle")
case("TensorNetwork", "conj", "TN3", A(mangle_inner="*"), tag="mangle-append")
case("TensorNetwork", "multiply", "TN3", lambda hx, x: ((hx.scalar("q", "pos"),), {}))
case("TensorNetwork", "multiply", "TN3", lambda hx, x: ((hx.scalar("z", "cplx"),), {"spread_over": 1}), tag="complex,spread1")
case("TensorNetwork", "multiply_each", "TN3", lambda hx, x: ((hx.scalar("z", "cplx"),), {}))
case("TensorNetwork", "negate", "TN3")
case("TensorNetwork", "gate_inds_with_tn", "TN3",
     lambda hx, x: ((("j",), tc.Tensor(hx.arr("G", (2, 2)), ("jo", "ji"), tags="G"), ("ji",), ("jo",)), {}))
case("TensorNetwork", "gate_inds_with_tn", "TN3",
     lambda hx, x: ((("j", "zz"), tc.TensorNetwork([tc.Tensor(hx.arr("G", (2, 2, 2)), ("jo", "ji", "g"), tags="G"),
                                                  tc.Tensor(hx.arr("H", (2, 2, 2)), ("g", "zo", "zi"), tags="H")]),
                     ("ji", "zi"), ("jo", "zo")), {}), tag="tn-gate,absent-ind")
case("TensorNetwork", "drape_bond_between", "TN3", A("A", "B", "C", "li", "ri"))
case("TensorNetwork", "drape_bond_between", "TN3", A("A", "B", "C"), tag="random-names")
case("TensorNetwork", "isel", "TN3", A({"k": 0, "j": 1}))
case("TensorNetwork", "isel", "TN3", A({"l": slice(0, 1)}), tag="slice")
case("TensorNetwork", "sum_reduce", "TN3", A("j"))
case("TensorNetwork", "vector_reduce", "TN3", lambda hx, x: (("l", hx.arr("v", (2,))), {}))
case("TensorNetwork", "insert_operator", "TN3", lambda hx, x: ((hx.arr("Op", (2, 2)), "A", "B"), {"tags": ["OP"]}))
case("TensorNetwork", "contract_tags", "TN3", A(["A", "B"]))
case("TensorNetwork", "contract_tags", "TN3", A(["ALL"], which="all"), tag="all")
case("TensorNetwork", "contract", "TN3", A(all), cmp="value", pcmp="value")
case("TensorNetwork", "contract", "TN3", A(["B", "C"]), tag="tags")
case("TensorNetwork", "contract", "TN3", A(all, output_inds=("l", "j")), tag="output_inds", cmp="value", pcmp="value")
case("TensorNetwork", "squeeze", "TN1")
case("TensorNetwork", "squeeze", "TN1", A(fuse=True), tag="fuse")
case("TensorNetwork", "squeeze", "TN1", A(exclude=("w",)), tag="exclude")
case("TensorNetwork", "fuse_multibonds", "TNM")
case("TensorNetwork", "fuse_multibonds", "TN3", tag="nothing")
case("TensorNetwork", "expand_bond_dimension", "TN3", A(3))
case("TensorNetwork", "expand_bond_dimension", "TN3", A(3, inds_to_expand=("k",)), tag="one")
case("TensorNetwork", "flip", "TN3", A(["j", "k"]))
case("TensorNetwork", "rank_simplify", "TNC")
case("TensorNetwork", "rank_simplify", "TN3", A(output_inds=("j", "l")), tag="loop")
case("TensorNetwork", "hyperinds_resolve", "TNH")
case("TensorNetwork", "hyperinds_resolve", "TNH", A(mode="mps"), tag="mps")
case("TensorNetwork", "hyperinds_resolve", "TNH", A(mode="tree"), tag="tree")
case("TensorNetwork", "gate_inds", "TN3", lambda hx, x: ((hx.arr("G", (2, 2)), ("j",)), {}))
case("TensorNetwork", "gate_inds", "TN3", lambda hx, x: ((hx.arr("G", (2, 2)), ("j",)), {"contract": True}), tag="contract")
case("TensorNetwork", "gate_inds", "TN3", lambda hx, x: ((hx.arr("G", (4, 4)), ("j", "l")), {"tags": ["G"]}), tag="two")
case("TensorNetwork", "gate_inds", "TN3", lambda hx, x: ((hx.arr("G", (4, 4)), ("l", "j")), {"contract": True}), tag="two,contract")
case("TensorNetwork", "gate_inds", "TN3", lambda hx, x: ((hx.arr("G", (2, 2, 2, 2)), ("j", "l")), {"transpose": True}), tag="two,transpose")
case("TensorNetwork", "gate_sandwich_inds", "TN3", lambda hx, x: ((hx.arr("G", (2, 2)), ("j",), ("l",)), {}))
case("TensorNetwork", "gate_sandwich_inds", "TN3", lambda hx, x: ((hx.arr("G", (2, 2)), ("j",), ("l",)), {"contract": True}), tag="contract")


_W0 = "certificate search too slow symbolically (several chained QR / SVD contracts): concrete run"
# LAPACK-stub based (real symbols, certificates modulo the stub contracts): the result is gauge
# dependent, so under axis permutations the goal is "denotes the same dense tensor as the input"
case("TensorNetwork", "canonize_around", "TNC", A("A"), kind="real", heavy=True, ref="preserve")
case("TensorNetwork", "canonize_around", "TNC", A("B", max_distance=1, absorb="left"), sym=False, tag="B,left", why=_W0)
case("TensorNetwork", "replace_with_svd", "TNC", A(["A", "B"], ("p",), 0.0, method="svd", ltags=["L"], rtags=["R"]), kind="real", heavy=True,
     ref="preserve")
case("TensorNetwork", "compress_all", "TNC", A(cutoff=0.0), sym=False, tag="chain,cutoff=0", why=_W0)
case("TensorNetwork", "isometrize", "TNL", kind="real", heavy=True)
case("TensorNetwork", "equalize_norms", "TNC", kind="real", heavy=True, ref="preserve")
case("TensorNetwork", "equalize_norms", "TNC", A(1.0), kind="real", heavy=True, ref="preserve", tag="value")
case("TensorNetwork", "gate_inds", "TN3", lambda hx, x: ((hx.arr("G", (4, 4)), ("j", "l")), {"contract": "split", "cutoff": 0.0}), sym=False,
     tag="two,split", why=_W0)
case("TensorNetwork", "gate_inds", "TN3", lambda hx, x: ((hx.arr("G", (4, 4)), ("j", "l")), {"contract": "reduce-split"}), sym=False,
     tag="two,reduce-split", why=_W0)

# concrete float data (iterative / truncating / value dependent / RNG / dtype)
_W = "iterative or truncating gauge / compression driver (value dependent control flow)"
case("TensorNetwork", "to", "TN3", A(dtype="complex64"), sym=False, why="dtype cast")
case("TensorNetwork", "astype", "TN3", A("complex64"), sym=False, why="dtype cast")
case("TensorNetwork", "compress_all", "TN3", sym=False, why=_W)
case("TensorNetwork", "compress_all", "TN3", A(max_bond=1), sym=False, tag="max_bond=1", why=_W,
     opts={"reinsert": False})   # a truncated loop network is an approximation that follows the bond (tensor) order
case("TensorNetwork", "compress_all_tree", "TNC", sym=False, why=_W)
case("TensorNetwork", "compress_all_1d", "TNC", sym=False, why=_W)
case("TensorNetwork", "compress_all_simple", "TN3", A(max_bond=2), sym=False, why=_W)
case("TensorNetwork", "canonize_around", "TN3", A("A"), tag="loop", kind="real", heavy=True, ref="preserve")
case("TensorNetwork", "gauge_all_canonize", "TN3", sym=False, why=_W)
case("TensorNetwork", "gauge_all_simple", "TN3", A(max_iterations=20), sym=False, why=_W)
case("TensorNetwork", "gauge_all_belief_propagation", "TN3", A(max_iterations=20), sym=False, why=_W)
case("TensorNetwork", "gauge_all_random", "TN3", A(seed=5), sym=False, why="random gauges (seeded)")
case("TensorNetwork", "gauge_all", "TN3", sym=False, why=_W)
case("TensorNetwork", "gauge_all", "TN3", A("simple"), sym=False, tag="simple", why=_W)
case("TensorNetwork", "gauge_local", "TN3", A("A"), sym=False, why=_W)
case("TensorNetwork", "contract_around", "TN3", A("A"), sym=False, why=_W)
case("TensorNetwork", "contract_compressed", "TN3", A("greedy", max_bond=4), cmp="value", pcmp="value")
case("TensorNetwork", "insert_compressor_between_regions", "TNM", A(["A"], ["B"], max_bond=4), sym=False, why=_W)
case("TensorNetwork", "randomize", "TN3", A(seed=3), sym=False, pdata=False, why="random entries (seeded): fills the stored arrays positionally",
     opts={"reinsert": False})
case("TensorNetwork", "balance_bonds", "TN3", sym=False, why=_W)
case("TensorNetwork", "isometrize", "TNL", A("svd"), tag="svd", kind="real", heavy=True)
case("TensorNetwork", "diagonal_reduce", "TN3", sym=False, why="value dependent structure detection")
case("TensorNetwork", "antidiag_gauge", "TN3", sym=False, why="value dependent structure detection")
case("TensorNetwork", "column_reduce", "TN3", sym=False, why="value dependent structure detection")
case("TensorNetwork", "split_simplify", "TN3", sym=False, why=_W)
case("TensorNetwork", "pair_simplify", "TN3", sym=False, why=_W)
case("TensorNetwork", "loop_simplify", "TN3", A(output_inds=("j", "l")), sym=False, why=_W)
case("TensorNetwork", "full_simplify", "TN3", A(output_inds=("j", "l")), sym=False, why=_W)
case("TensorNetwork", "compress_simplify", "TN3", A(output_inds=("j", "l")), sym=False, why=_W)
case("TensorNetwork", "fit", "TNC", lambda hx, x: ((tc.TensorNetwork([tc.Tensor(hx.arr("F", (2, 2, 2)), ("p", "q", "r"), tags="F")]),),
                                                    {"method": "als", "steps": 3, "tol": 0.0, "progbar": False}), sym=False, why="iterative optimiser")


# ------------------------------------------------------------------------------ structured networks


def _fill(hx, base):
    cnt = itertools.count()
    return lambda shape: hx.arr(f"{base}{next(cnt)}", tuple(int(d) for d in shape))


@receiver("MPS3")
def R_MPS3(hx):
    """3-site MPS, D=2, d=2"""
    return qtn.MatrixProductState.from_fill_fn(_fill(hx, "M"), 3, 2, phys_dim=2)


@receiver("MPO3")
def R_MPO3(hx):
    """3-site MPO, D=2, d=2"""
    return qtn.MatrixProductOperator.from_fill_fn(_fill(hx, "W"), 3, 2, phys_dim=2)


@receiver("MPO3gap")
def R_MPO3gap(hx):
    """MPO on sites (0, 2) of a 3-site register"""
    return qtn.MatrixProductOperator.from_fill_fn(_fill(hx, "W"), 3, 2, phys_dim=2, sites=[0, 2])


@receiver("TN1D2")
def R_TN1D2(hx):
    """two-layer 1D network: MPO applied (lazily) to an MPS"""
    return R_MPO3(hx) & R_MPS3(hx)


@receiver("PEPS22")
def R_PEPS22(hx):
    """2x2 PEPS, D=2, d=2"""
    return qtn.PEPS.from_fill_fn(_fill(hx, "P"), 2, 2, 2, phys_dim=2)


@receiver("PEPO22")
def R_PEPO22(hx):
    """2x2 PEPO, D=2, d=2"""
    return qtn.PEPO.from_fill_fn(_fill(hx, "O"), 2, 2, 2, phys_dim=2)


@receiver("TN2D22x2")
def R_TN2D22x2(hx):
    """two-layer 2x2 network <psi|phi> with open physical labels traced"""
    a = qtn.PEPS.from_fill_fn(_fill(hx, "P"), 2, 2, 2, phys_dim=2)
    b = qtn.PEPS.from_fill_fn(_fill(hx, "Q"), 2, 2, 2, phys_dim=2)
    return a & b


@receiver("TN2D33")
def R_TN2D33(hx):
    """3x3 single layer 2D network, D=2"""
    return qtn.TN2D_from_fill_fn(_fill(hx, "S"), 3, 3, 2)


@receiver("TN3D222")
def R_TN3D222(hx):
    """2x2x2 single layer 3D network, D=2"""
    return qtn.TN3D_from_fill_fn(_fill(hx, "S"), 2, 2, 2, 2)


@receiver("TN3D221x2")
def R_TN3D221x2(hx):
    """two-layer 2x2x1 3D network"""
    a = qtn.PEPS3D.from_fill_fn(_fill(hx, "P"), 2, 2, 1, 2, phys_dim=2)
    b = qtn.PEPS3D.from_fill_fn(_fill(hx, "Q"), 2, 2, 1, 2, phys_dim=2)
    return a & b


@receiver("PEPS3D")
def R_PEPS3D(hx):
    """2x2x1 PEPS3D, D=2, d=2"""
    return qtn.PEPS3D.from_fill_fn(_fill(hx, "P"), 2, 2, 1, 2, phys_dim=2)


_TRI = [(0, 1), (1, 2), (0, 2)]


@receiver("TNGV")
def R_TNGV(hx):
    """arbitrary-geometry vector on a triangle, D=2, d=2"""
    return qtn.TN_from_edges_and_fill_fn(_fill(hx, "V"), _TRI, 2, phys_dim=2)


def _genop(hx, base, D=2):
    ts = [tc.Tensor(hx.arr(base + "0", (D, 2, 2)), ("o01", "k0", "b0"), tags=["I0", "OP"]),
          tc.Tensor(hx.arr(base + "1", (D, D, 2, 2)), ("o01", "o12", "k1", "b1"), tags=["I1", "OP"]),
          tc.Tensor(hx.arr(base + "2", (D, 2, 2)), ("o12", "k2", "b2"), tags=["I2", "OP"])]
    tn = tc.TensorNetwork(ts)
    return tn.view_as_(cg.TensorNetworkGenOperator, sites=(0, 1, 2), site_tag_id="I{}", upper_ind_id="k{}", lower_ind_id="b{}")


@receiver("TNGO")
def R_TNGO(hx):
    """arbitrary-geometry operator on a 3-site chain, D=2, d=2"""
    return _genop(hx, "X")


@receiver("TNG2")
def R_TNG2(hx):
    """two-layer arbitrary-geometry network (operator applied lazily to a vector)"""
    v = R_TNGV(hx)
    o = _genop(hx, "X").reindex_lower_sites("k{}").reindex_upper_sites("u{}")
    tn = o & v
    return tn.view_as_(cg.TensorNetworkGen, sites=(0, 1, 2), site_tag_id="I{}")


def _G(n, name="G"):
    return lambda hx, x: hx.arr(name, (2 ** n, 2 ** n))


def _mps_other(hx, x):
    return (qtn.MatrixProductState.from_fill_fn(_fill(hx, "N"), 3, 2, phys_dim=2),), {}


def _mpo_arg(hx, x, **kw):
    return (qtn.MatrixProductOperator.from_fill_fn(_fill(hx, "U"), 3, 2, phys_dim=2),), kw


def _submpo_arg(hx, x, **kw):
    arrays = [hx.arr("U0", (2, 2, 2)), hx.arr("U1", (2, 2, 2))]
    return (qtn.MatrixProductOperator(arrays, sites=[0, 1], L=3),), kw


case("TensorNetworkGen", "retag_all", "TNGV", A("T{}"))
case("TensorNetworkGen", "flatten", "TNG2")
case("TensorNetworkGen", "flatten", "TNG2", A(fuse_multibonds=False), tag="nofuse")
case("TensorNetworkGen", "align", "TNGV", lambda hx, x: ((_genop(hx, "X"), qtn.TN_from_edges_and_fill_fn(_fill(hx, "Z"), _TRI, 2, phys_dim=2)), {}),
     opts={"returns_self": False, "args_intact_inplace": False})   # align_ acts in place on every network it is given (documented)
case("TensorNetworkGenVector", "reindex_sites", "TNGV", A("b{}", where=[0, 2]))
case("TensorNetworkGenVector", "reindex_all", "TNGV", A("c{}"))
case("TensorNetworkGenVector", "gate_with_op_lazy", "TNGV", lambda hx, x: ((_genop(hx, "X"),), {}))
case("TensorNetworkGenVector", "gate_with_op_lazy", "TNGV", lambda hx, x: ((_genop(hx, "X"),), {"transpose": True}), tag="transpose")
case("TensorNetworkGenVector", "gate", "TNGV", lambda hx, x: ((_G(1)(hx, x), 1), {}))
case("TensorNetworkGenVector", "gate", "TNGV", lambda hx, x: ((_G(1)(hx, x), 1), {"contract": True, "dagger": True}), tag="contract,dagger")
case("TensorNetworkGenVector", "gate", "TNGV", lambda hx, x: ((_G(2)(hx, x), (2, 0)), {"propagate_tags": "sites", "tags": ["GG"]}), tag="two,lazy")
case("TensorNetworkGenVector", "gate", "TNGV", lambda hx, x: ((_G(2)(hx, x), (2, 0)), {"contract": True}), tag="two,contract")
case("TensorNetworkGenVector", "gate", "TNGV", lambda hx, x: ((_G(2)(hx, x), (0, 1)), {"contract": "reduce-split", "cutoff": 0.0}), sym=False,
     tag="two,reduce-split", why="QR + SVD route (concrete)")
case("TensorNetworkGenVector", "gate_simple", "TNGV",
     lambda hx, x: ((_G(2)(hx, x), (0, 1)), {"gauges": {ix: np.ones(2) for ix in x.inner_inds()}}), sym=False,
     why="simple update (SVD, gauges dict updated in place by documentation)")

case("TensorNetworkGenOperator", "reindex_upper_sites", "TNGO", A("u{}", where=[0, 1]))
case("TensorNetworkGenOperator", "reindex_lower_sites", "TNGO", A("l{}"))
# operator receivers whose upper / lower naming scheme is changed by the call (the in-place spelling runs on a copy whose
# cached label views have been read before: they must describe the network as it is afterwards)
case("TensorNetworkGenOperator", "align", "TNGO", lambda hx, x: ((_genop(hx, "Y"), qtn.TN_from_edges_and_fill_fn(_fill(hx, "Z"), _TRI, 2, phys_dim=2)), {"ind_ids": ("m{}", "n{}")}),
     tag="first-of-three", opts={"returns_self": False, "args_intact_inplace": False})
case("TensorNetworkGenOperator", "align", "TNGO", lambda hx, x: ((_genop(hx, "Y"),), {"ind_ids": ("m{}",), "trace": True}),
     tag="trace", opts={"returns_self": False, "args_intact_inplace": False})
case("TensorNetworkGenOperator", "gate", "TNGO", lambda hx, x: ((_G(1)(hx, x), 1), {}))
case("TensorNetworkGenOperator", "gate", "TNGO", lambda hx, x: ((_G(2)(hx, x), (0, 2)), {"contract": True}), tag="two,contract")
case("TensorNetworkGenOperator", "gate_sandwich", "TNGO", lambda hx, x: ((_G(1)(hx, x), 2), {"dagger": True}))
case("TensorNetworkGenOperator", "gate_upper", "TNGO", lambda hx, x: ((_G(2)(hx, x), (1, 0)), {}))
case("TensorNetworkGenOperator", "gate_upper", "TNGO", lambda hx, x: ((_G(1)(hx, x), 0), {"contract": True, "transpose": True}), tag="contract,transpose")
case("TensorNetworkGenOperator", "gate_lower", "TNGO", lambda hx, x: ((_G(1)(hx, x), 1), {"tags_lower": ["LOW"]}))
case("TensorNetworkGenOperator", "gate_lower", "TNGO", lambda hx, x: ((_G(2)(hx, x), (1, 2)), {"contract": True}), tag="two,contract")
case("TensorNetworkGenOperator", "gate_simple", "TNGO",
     lambda hx, x: ((_G(1)(hx, x), (1,)), {"gauges": {ix: np.ones(2) for ix in x.inner_inds()}}), sym=False, why="simple update")
case("TensorNetworkGenOperator", "gate_upper_with_op_lazy", "TNGO", lambda hx, x: ((_genop(hx, "Y"),), {}))
case("TensorNetworkGenOperator", "gate_lower_with_op_lazy", "TNGO", lambda hx, x: ((_genop(hx, "Y"),), {"transpose": True}))
case("TensorNetworkGenOperator", "gate_sandwich_with_op_lazy", "TNGO", lambda hx, x: ((_genop(hx, "Y"),), {}))
case("TensorNetworkGenOperator", "apply", "TNGO", lambda hx, x: ((qtn.TN_from_edges_and_fill_fn(_fill(hx, "Z"), _TRI, 2, phys_dim=2),), {}),
     opts={"returns_self": False})
case("TensorNetworkGenOperator", "apply", "TNGO", lambda hx, x: ((_genop(hx, "Y"),), {"contract": False}), tag="op,lazy", opts={"returns_self": False})
case("TensorNetworkGenOperator", "partial_transpose", "TNGO", A([0, 2]))

case("TensorNetwork1D", "flatten", "TN1D2")
case("TensorNetwork1DVector", "reindex_sites", "MPS3", A("b{}", where=slice(0, 2)))
case("TensorNetwork1DVector", "gate", "MPS3", lambda hx, x: ((_G(1)(hx, x), 1), {}))
case("TensorNetwork1DVector", "gate", "MPS3", lambda hx, x: ((_G(1)(hx, x), 2), {"contract": True}), tag="contract")
case("TensorNetwork1DVector", "gate", "MPS3", lambda hx, x: ((_G(2)(hx, x), (0, 1)), {"tags": ["GG"]}), tag="two,lazy")
case("TensorNetwork1DVector", "gate", "MPS3", lambda hx, x: ((_G(2)(hx, x), (1, 2)), {"contract": True}), tag="two,contract")
case("TensorNetwork1DVector", "gate", "MPS3", lambda hx, x: ((_G(2)(hx, x), (0, 1)), {"contract": "swap+split", "cutoff": 0.0}), kind="real", heavy=True,
     tag="two,swap+split")
case("TensorNetwork1DOperator", "reindex_lower_sites", "MPO3", A("l{}", where=slice(1, 3)))
case("TensorNetwork1DOperator", "reindex_upper_sites", "MPO3", A("u{}"))

_NOCALC = {"cur_orthog": None}
case("TensorNetwork1DFlat", "left_canonicalize", "MPS3", kind="real", heavy=True, ref="preserve")
case("TensorNetwork1DFlat", "right_canonicalize", "MPS3", kind="real", heavy=True, ref="preserve")
case("TensorNetwork1DFlat", "right_canonicalize", "MPS3", A(normalize=True), sym=False, tag="normalize", why="concrete run of the normalising variant")
case("TensorNetwork1DFlat", "left_canonicalize", "MPS3", A(normalize=True), sym=False, tag="normalize", why="concrete run of the normalising variant")
case("TensorNetwork1DFlat", "right_canonicalize", "MPO3", kind="real", heavy=True, ref="preserve", tag="mpo", tiers=("thorough",))
case("TensorNetwork1DFlat", "canonicalize", "MPS3", A(1, cur_orthog=None), kind="real", heavy=True, ref="preserve")
case("TensorNetwork1DFlat", "canonicalize", "MPS3", A(1), sym=False, tag="calc", why="numerical detection of the current centre (allclose)")
case("TensorNetwork1DFlat", "swap_sites_with_compress", "MPS3", A(0, 1, cutoff=0.0), kind="real", heavy=True)
case("TensorNetwork1DFlat", "swap_site_to", "MPS3", A(0, 2, cutoff=0.0), kind="real", heavy=True, tiers=("thorough",))
case("TensorNetwork1DFlat", "swap_site_to", "MPS3", A(2, 0), tag="default-cutoff", kind="real", heavy=True)
case("MatrixProductState", "add_MPS", "MPS3", _mps_other)
case("MatrixProductState", "gate_split", "MPS3", lambda hx, x: ((_G(2)(hx, x), (0, 1)), {"cutoff": 0.0}), kind="real", heavy=True)
case("MatrixProductState", "gate_with_auto_swap", "MPS3", lambda hx, x: ((_G(2)(hx, x), (2, 0)), {"cutoff": 0.0}), kind="real", heavy=True,
     tiers=("thorough",))
case("MatrixProductState", "gate_with_auto_swap", "MPS3", lambda hx, x: ((_G(2)(hx, x), (2, 0)), {}), sym=False, tag="default-cutoff", why="truncating split")
case("MatrixProductState", "gate_with_submpo", "MPS3", lambda hx, x: _submpo_arg(hx, x, method="lazy"), tag="lazy")
case("MatrixProductState", "gate_with_submpo", "MPS3", lambda hx, x: _submpo_arg(hx, x, cutoff=0.0), kind="real", heavy=True, tag="direct")
case("MatrixProductState", "gate_with_mpo", "MPS3", lambda hx, x: _mpo_arg(hx, x), kind="real", heavy=True, tag="direct")
case("MatrixProductState", "gate_with_mpo", "MPS3", lambda hx, x: _mpo_arg(hx, x, transpose=True, method="zipup"), sym=False, tag="zipup,transpose",
     why="1D compression driver")
case("MatrixProductState", "gate_nonlocal", "MPS3", lambda hx, x: ((_G(2)(hx, x), (0, 2)), {}), sym=False, why="gate split + 1D compression driver")
case("MatrixProductState", "measure", "MPS3", lambda hx, x: ((1,), {"outcome": 1, "renorm": False, "info": {"cur_orthog": None}}), kind="real", heavy=True)
case("MatrixProductState", "measure", "MPS3", lambda hx, x: ((2,), {"outcome": 0, "remove": True}), sym=False, tag="remove,renorm",
     why="numerical centre detection + renormalisation")
case("MatrixProductState", "measure", "MPS3", lambda hx, x: ((0,), {"seed": 11}), sym=False, tag="sampled", why="random outcome (seeded)")

case("MatrixProductOperator", "add_MPO", "MPO3", lambda hx, x: _mpo_arg(hx, x))
case("MatrixProductOperator", "fill_empty_sites", "MPO3gap")
case("MatrixProductOperator", "fill_empty_sites", "MPO3gap", A(mode="minimal"), tag="minimal")
case("MatrixProductOperator", "gate_sandwich_with_auto_swap", "MPO3", lambda hx, x: ((_G(2)(hx, x), (0, 1)), {}), sym=False, why="truncating split")

case("TensorNetwork2D", "flatten", "TN2D22x2")
_W2 = "boundary contraction / coarse graining with compression"
case("TensorNetwork2D", "contract_boundary_from", "TN2D33", A((0, 1), (0, 2), "xmin", max_bond=4), kind="real", heavy=True)
case("TensorNetwork2D", "contract_boundary_from_xmin", "TN2D33", A((0, 1), max_bond=4), kind="real", heavy=True)
case("TensorNetwork2D", "contract_boundary_from_xmax", "TN2D33", A((2, 1), max_bond=4), sym=False, why=_W2)
case("TensorNetwork2D", "contract_boundary_from_ymin", "TN2D33", A((0, 1), max_bond=4), kind="real", heavy=True)
case("TensorNetwork2D", "contract_boundary_from_ymax", "TN2D33", A((2, 1), max_bond=4, mode="full-bond"), kind="real", heavy=True)
case("TensorNetwork2D", "contract_boundary", "TN2D33", A(max_bond=4), kind="real", heavy=True, cmp="value", pcmp="value")
case("TensorNetwork2D", "contract_boundary", "TN2D33", A(max_bond=4, final_contract=False), tag="no-final", kind="real", heavy=True)
case("TensorNetwork2D", "contract_mps_sweep", "TN2D33", A(max_bond=4, direction="xmin"), kind="real", heavy=True, cmp="value", pcmp="value")
case("TensorNetwork2D", "coarse_grain_hotrg", "TN2D33", A("x", max_bond=4), sym=False, why=_W2)
case("TensorNetwork2D", "contract_hotrg", "TN2D33", A(max_bond=4), sym=False, why=_W2, cmp="value", pcmp="value")
case("TensorNetwork2D", "contract_ctmrg", "TN2D33", A(max_bond=4), sym=False, why=_W2, cmp="value", pcmp="value")
case("TensorNetwork2DVector", "reindex_sites", "PEPS22", A("b{},{}", where=[(0, 0), (1, 1)]))
case("TensorNetwork2DVector", "gate", "PEPS22", lambda hx, x: ((_G(1)(hx, x), (0, 1)), {}))
case("TensorNetwork2DVector", "gate", "PEPS22", lambda hx, x: ((_G(1)(hx, x), (1, 0)), {"contract": True}), tag="contract")
case("TensorNetwork2DVector", "gate", "PEPS22", lambda hx, x: ((_G(2)(hx, x), ((0, 0), (0, 1))), {"contract": False}), tag="two,lazy")
case("TensorNetwork2DVector", "gate", "PEPS22", lambda hx, x: ((_G(2)(hx, x), ((0, 0), (1, 0))), {"contract": True}), tag="two,contract")
case("TensorNetwork2DVector", "gate", "PEPS22", lambda hx, x: ((_G(2)(hx, x), ((0, 0), (1, 0))), {"contract": "reduce-split"}), sym=False,
     tag="two,reduce-split", why="QR + truncating SVD route")
case("TensorNetwork2DVector", "normalize", "PEPS22", sym=False, why=_W2)
case("TensorNetwork2DOperator", "reindex_lower_sites", "PEPO22", A("l{},{}", where=[(0, 1)]))
case("TensorNetwork2DOperator", "reindex_upper_sites", "PEPO22", A("u{},{}"))
case("PEPS", "add_PEPS", "PEPS22", lambda hx, x: ((qtn.PEPS.from_fill_fn(_fill(hx, "Q"), 2, 2, 2, phys_dim=2),), {}))
case("PEPO", "add_PEPO", "PEPO22", lambda hx, x: ((qtn.PEPO.from_fill_fn(_fill(hx, "Q"), 2, 2, 2, phys_dim=2),), {}))

_W3 = "3D boundary contraction / coarse graining with compression"
case("TensorNetwork3D", "flatten", "TN3D221x2")
case("TensorNetwork3D", "contract_boundary_from", "TN3D222", A((0, 1), (0, 1), (0, 1), "xmin", max_bond=4), sym=False, why=_W3)
case("TensorNetwork3D", "contract_boundary", "TN3D222", A(max_bond=4), cmp="value", pcmp="value")
case("TensorNetwork3D", "contract_ctmrg", "TN3D222", A(max_bond=4), cmp="value", pcmp="value")
case("TensorNetwork3D", "coarse_grain_hotrg", "TN3D222", A("x", max_bond=4), sym=False, why=_W3)
case("TensorNetwork3D", "contract_hotrg", "TN3D222", A(max_bond=4), cmp="value", pcmp="value")
case("TensorNetwork3DVector", "gate", "PEPS3D", lambda hx, x: ((_G(1)(hx, x), (0, 1, 0)), {"contract": True}))
case("TensorNetwork3DVector", "gate", "PEPS3D", lambda hx, x: ((_G(2)(hx, x), ((0, 0, 0), (1, 0, 0))), {}), tag="two,lazy")


# ------------------------------------------------------------------------------ inherited pairs whose spellings differ
# (see reflect_inherited): the subclass overrides the plain spelling, the in-place spelling is the
# base class partialmethod.  Tested on the subclass; the plain spelling of expand_bond_dimension
# defaults to inplace=True (documented), so it is called with an explicit inplace=False.


@receiver("ISO")
def R_ISO(hx):
    """rank-3 IsoTensor with left_inds ('a',)"""
    return tc.IsoTensor(hx.arr("T", (2, 2, 3)), ("a", "b", "c"), tags=["T", "X"], left_inds=("a",))


case("MatrixProductState", "expand_bond_dimension", "MPS3", A(3), own=True, opts={"plain_kw": {"inplace": False}, "mixed": True})
case("MatrixProductOperator", "expand_bond_dimension", "MPO3", A(3), own=True, opts={"plain_kw": {"inplace": False}, "mixed": True})
case("PEPS", "expand_bond_dimension", "PEPS22", A(3), own=True, opts={"plain_kw": {"inplace": False}, "mixed": True})
case("MatrixProductState", "flip", "MPS3", own=True, opts={"mixed": True})
case("IsoTensor", "fuse", "ISO", A({"ab": ("a", "b")}), own=True, opts={"mixed": True})
case("IsoTensor", "fuse", "ISO", A({"bc": ("b", "c")}), own=True, tag="left-kept", opts={"mixed": True})
case("PEPS3D", "reindex_sites", "PEPS3D", A("b{},{},{}", where=[(0, 0, 0), (1, 1, 0)]), own=True, opts={"mixed": True})


# ------------------------------------------------------------------------------ thorough-only variants


@receiver("TN3e")
def R_TN3e(hx):
    """the loop network with a symbolic stored exponent"""
    tn = R_TN3(hx)
    e = hx.scalar("e", "real")
    tn.exponent = e if hx.symbolic else float(np.real(e))
    return tn


def _thorough_variants():
    import copy
    extra = []
    for cs in CASES:
        if "quick" not in cs.tiers or cs.opts.get("mixed"):
            continue
        if cs.recv == "TN3" and cs.sym and not cs.heavy:
            c2 = copy.copy(cs)
            c2.recv, c2.tag, c2.tiers = "TN3e", (cs.tag + "," if cs.tag else "") + "symbolic-exponent", ("thorough",)
            extra.append(c2)
        if cs.sym and cs.heavy and cs.kind == "real" and cs.name not in _NO_CPLX:
            c2 = copy.copy(cs)
            c2.kind, c2.tag, c2.tiers = "cplx", (cs.tag + "," if cs.tag else "") + "complex", ("thorough",)
            extra.append(c2)
    CASES.extend(extra)


_NO_CPLX = set()
_thorough_variants()

# ======================================================================================
# the generic harness for one case
# ======================================================================================


def _collect_known(x, args, kwargs):
    known = set()

    def visit(o):
        if isinstance(o, tc.TensorNetwork):
            known.update(o.ind_map)
        elif isinstance(o, tc.Tensor):
            known.update(o.inds)
        elif isinstance(o, str):
            known.add(o)
        elif isinstance(o, dict):
            for k, v in o.items():
                visit(k)
                visit(v)
        elif isinstance(o, (tuple, list, set, frozenset)):
            for y in o:
                visit(y)

    visit(x)
    visit(args)
    visit(kwargs)
    return known


class lapack_memo:
    """LAPACK routines are functions: the same (symbolic) matrix gives the same factors.  While
    active, a contract stub called twice with structurally identical arguments returns the
    factors (and contract) of the first call instead of fresh unrelated symbols."""
    TARGETS = [(np.linalg, "qr"), (np.linalg, "svd"), (np.linalg, "eigh"), (np.linalg, "eigvalsh"), (np.linalg, "inv"),
               (np.linalg, "solve"), (np.linalg, "cholesky"), (scla, "qr"), (scla, "svd"), (scla, "eigh"), (scla, "cholesky"),
               (scla, "solve"), (scla, "inv"), (scla, "solve_triangular")]

    def __init__(self):
        self.cache = {}
        self.saved = []
        self.hits = 0

    @staticmethod
    def _key(a):
        if isinstance(a, np.ndarray):
            if a.dtype == object:
                return ("o", a.shape, tuple(frozenset(P.lift(v).t.items()) for v in a.reshape(-1)))
            return ("n", a.shape, str(a.dtype), a.tobytes())
        if isinstance(a, (str, int, float, bool, type(None))):
            return a
        raise TypeError

    def _wrap(self, name, fn):
        def f(*a, **kw):
            if not any(isinstance(x, np.ndarray) and x.dtype == object for x in a):
                return fn(*a, **kw)
            try:
                key = (name, tuple(self._key(x) for x in a), tuple(sorted((k, self._key(v)) for k, v in kw.items())))
            except TypeError:
                return fn(*a, **kw)
            if key in self.cache:
                self.hits += 1
                return self.cache[key]
            r = fn(*a, **kw)
            self.cache[key] = r
            return r
        return f

    def __enter__(self):
        for mod, n in self.TARGETS:
            fn = getattr(mod, n)
            self.saved.append((mod, n, fn))
            setattr(mod, n, self._wrap(f"{mod.__name__}.{n}", fn))
        return self

    def __exit__(self, *exc):
        for mod, n, fn in self.saved:
            setattr(mod, n, fn)
        return False


def _fresh(o):
    """per-call copy of the containers of an argument tuple (info / gauges dicts are outputs)"""
    if isinstance(o, dict):
        return {k: _fresh(v) for k, v in o.items()}
    if isinstance(o, list):
        return [_fresh(v) for v in o]
    if isinstance(o, tuple):
        return tuple(_fresh(v) for v in o)
    return o


def _call(x, name, args, kwargs):
    with warnings.catch_warnings():
        warnings.simplefilter("ignore")
        return getattr(x, name)(*args, **kwargs)


class _CaseAbort(Exception):
    """the case cannot continue (a failing goal has been recorded)"""


def _guarded_plain_call(hx, label, x, method, args, kwargs, with_copy=True):
    """goal (i) around one plain call"""
    y = x.copy() if with_copy else None
    fx = fp_any(x)
    fy = fp_any(y) if with_copy else None
    watched = [(f"argument {k}", a, fp_any(a)) for k, a in list(enumerate(args)) + list(kwargs.items())]
    try:
        r = _call(x, method, args, kwargs)
    except P.Unsupported:
        raise
    except Exception as e:
        # every case hands the method arguments from its documented domain (and, under (iii), the same labelled content in
        # another stored axis order): an exception here is a failure of the property, not of the harness
        hx.same(f"{label}: the plain spelling accepts arguments from its documented domain "
                f"[{method} raised {type(e).__name__}: {str(e)[:120]}]", False, True)
        raise _CaseAbort()
    check_unchanged(hx, f"{label}: receiver after the plain call", x, fx)
    if with_copy:
        check_unchanged(hx, f"{label}: earlier copy of the receiver after the plain call", y, fy)
    for nm, a, f in watched:
        check_unchanged(hx, f"{label}: {nm} after the plain call", a, f)
    if isinstance(r, (tc.Tensor, tc.TensorNetwork)):
        hx.same(f"{label}: plain call returns a new object", r is not x, True)
    return r


def _perm_list(x, tier):
    if isinstance(x, tc.TensorNetwork):
        return ["rev"] if tier == "quick" else ["rev", "roll", "mixed", "mixed1", "mixed2"]
    n = x.ndim
    ps = list(itertools.permutations(range(n)))[1:]
    return ps


def run_case(mk, cs, tier):
    concrete = not cs.sym
    hx = HX(mk, f"{cs.name}: ", concrete=concrete, kind=cs.kind or "cplx")
    cls = CLS[cs.cls]
    mk.encodes(_plain_fn(cls, cs.method))
    try:
        with lapack_memo():
            _run_case_body(hx, cs, tier)
    except P.Unsupported as e:
        if concrete or not mk.sym:
            raise
        msg = f"C03: {cs.name} raised Unsupported on symbolic data ({str(e)[:80]}): checked on concrete data instead"
        mk.note(msg)
        if msg not in P.ASSUMED:
            P.ASSUMED.append(msg)
        hx2 = HX(mk, f"{cs.name}: ", concrete=True, kind=cs.kind or "cplx")
        _run_case_body(hx2, cs, tier)


def _plain_fn(cls, method):
    v = _lookup(cls, method)
    if isinstance(v, functools.partialmethod):
        v = v.func
    return v


_FAILED = object()


def _run_case_body(hx, cs, tier):
    mk = hx.mk
    x = RECEIVERS[cs.recv](hx)
    assert isinstance(x, CLS[cs.cls]), (type(x), cs.cls)
    args, kwargs = cs.argsf(hx, x)
    known = _collect_known(x, args, kwargs)
    before = None
    if cs.ref == "preserve":
        before = dense_of(x, _outer(x))
    # (i) + plain result
    pkw = cs.opts.get("plain_kw", {})     # extra keywords of the plain spelling only (e.g. an explicit inplace=False)
    r = _guarded_plain_call(hx, "(i)", x, cs.method, _fresh(args), dict(_fresh(kwargs), **pkw))
    if not cs.det:
        return
    # (ii) in-place spelling on a copy
    z = x.copy()
    if isinstance(z, tc.TensorNetwork):
        derived_views(z)          # call history: the cached label views have been read before the in-place call
    fx = fp_any(x)
    watched = [(f"argument {k}", a, fp_any(a)) for k, a in list(enumerate(args)) + list(kwargs.items())]
    a2, k2 = _fresh(args), _fresh(kwargs)
    if not cs.opts.get("args_intact_inplace", True):
        # the in-place spelling is documented to act in place on its network arguments too: hand it copies
        cp = lambda o: o.copy() if isinstance(o, (tc.Tensor, tc.TensorNetwork)) else o
        a2, k2 = tuple(cp(a) for a in a2), {k: cp(v) for k, v in k2.items()}
    try:
        r_ = _call(z, cs.method + "_", a2, k2)
    except P.Unsupported:
        raise
    except Exception as e:
        hx.same(f"(ii) the in-place spelling accepts the arguments the plain spelling accepted "
                f"[{cs.method}_ raised {type(e).__name__}: {str(e)[:120]}]", False, True)
        r_ = _FAILED
    # the copy shares its arrays with x: the in-place spelling may re-point the copy's tensors but must
    # never write into those arrays
    check_unchanged(hx, "(ii) network / tensor the copy was taken from, after f_(copy)", x, fx)
    if cs.opts.get("args_intact_inplace", True):
        for nm, a, f in watched:
            check_unchanged(hx, f"(ii) {nm} after f_(copy)", a, f)
    if r_ is _FAILED:
        pass
    elif cs.ref is None:
        compare(hx, "(ii) f(x) vs f_(copy x)", r, r_, cs.cmp, known)
    else:
        compare(hx, "(ii) f(x) vs f_(copy x) [structure]", r, r_, cs.cmp, known, data=False)
        _against_ref(hx, cs, "(ii) f(x)", r, x, args, before)
        _against_ref(hx, cs, "(ii) f_(copy x)", r_, x, args, before)
    if isinstance(r_, (tc.Tensor, tc.TensorNetwork)) and isinstance(r, type(r_)) and cs.opts.get("returns_self", True):
        hx.same("(ii) in-place spelling returns its receiver", r_ is z, True)
    # (iii) stored axis permutations
    if not cs.perms:
        return
    for how in _perm_list(x, tier):
        xp = permute_any(x, how)
        a3, k3 = _fresh(args), _fresh(kwargs)
        if cs.permute_args:
            a3 = tuple(permute_any(a, "rev") for a in a3)
            k3 = {k: permute_any(v, "rev") for k, v in k3.items()}
        rp = _guarded_plain_call(hx, f"(iii) perm {how}", xp, cs.method, a3, dict(k3, **pkw), with_copy=False)
        if cs.ref is None:
            compare(hx, f"(iii) f(perm {how} x) vs f(x)", rp, r, cs.pcmp, known, data=cs.pdata)
        else:
            compare(hx, f"(iii) f(perm {how} x) vs f(x) [structure]", rp, r, cs.pcmp, known, data=False)
            _against_ref(hx, cs, f"(iii) f(perm {how} x)", rp, x, args, before)
    if isinstance(x, tc.TensorNetwork) and type(x) is tc.TensorNetwork and cs.opts.get("reinsert", True):
        xi = reinserted(x)
        ri = _call(xi, cs.method, _fresh(args), dict(_fresh(kwargs), **pkw))
        if cs.ref is None:
            compare(hx, "(iii) f(reversed insertion order) vs f(x)", ri, r, "value", known)
        else:
            _against_ref(hx, cs, "(iii) f(reversed insertion order)", ri, x, args, before)


def _against_ref(hx, cs, label, r, x, args, before):
    objs = [o for o in _flatten_result(r) if isinstance(o, (tc.Tensor, tc.TensorNetwork))]
    if cs.ref == "preserve":
        o = objs[0]
        out = _outer(x)
        hx.same(f"{label}: outer labels preserved", _outer(o), out)
        if _outer(o) == out:
            hx.eq(f"{label}: dense value preserved", dense_of(o, out), before)
    else:
        cs.ref(hx, label, r, x, args)


# ======================================================================================
# obligations
# ======================================================================================

def _groups():
    """obligation name -> list of case indices"""
    groups = {}
    light = {}
    for k, cs in enumerate(CASES):
        if cs.own:
            groups[f"{cs.name}"] = [k]
        else:
            light.setdefault((cs.cls, "sym" if cs.sym else "concrete"), []).append(k)
    for (cls, kind), ks in light.items():
        size = 8
        for j in range(0, len(ks), size):
            groups[f"{cls}.{kind}{j // size}"] = ks[j:j + size]
    return groups


GROUPS = _groups()


def _params():
    out = []
    for g, ks in GROUPS.items():
        for tier in ("quick", "thorough"):
            if any(tier in CASES[k].tiers for k in ks):
                out.append({"grp": g, "tier": tier, "_tiers": (tier,)})
    return out


@obligation(PROP, params=_params(), rounds=2, max_rows=60000, timeout_s=600, wall_s=500)
def pairs(mk, grp, tier):
    """goals (i)-(iii) for a group of (f, f_) pairs"""
    import os, sys, time
    for k in GROUPS[grp]:
        cs = CASES[k]
        if tier not in cs.tiers:
            continue
        t0 = time.time()
        try:
            run_case(mk, cs, tier)
        except _CaseAbort:
            pass
        if os.environ.get("C03_TIMING"):
            print(f"  C03_TIMING {'sym' if mk.sym else 'num'} {cs.name}: {time.time() - t0:.2f}s", file=sys.stderr, flush=True)


# ======================================================================================
# (iv) binary operators of Tensor / TensorNetwork
# ======================================================================================

import operator as _op

_SIZES = dict(a=2, b=2, c=3, z=2)


def _by_label(fn, terms, out):
    """elementwise fn over arrays aligned (and broadcast) by label, explicit loops"""
    shape = tuple(_SIZES[i] for i in out)
    sym = any(_is_obj(np.asarray(a)) for a, _ in terms)
    res = np.empty(shape, dtype=object if sym else complex)
    for idx in np.ndindex(*shape):
        env = dict(zip(out, idx))
        res[idx] = fn(*[np.asarray(a)[tuple(env[i] for i in ix)] for a, ix in terms])
    return res


def _mkT(hx, nm, inds, tags, kind=None, perm=None):
    data = hx.arr(nm, tuple(_SIZES[i] for i in inds), kind)
    t = tc.Tensor(data, inds, tags=tags)
    if perm is not None:
        t = permute_tensor(t, perm)
    return t


def _check_tensor(hx, label, r, want, out, tags):
    hx.same(f"{label}: returns a Tensor", isinstance(r, tc.Tensor), True)
    if not isinstance(r, tc.Tensor):
        return
    hx.same(f"{label}: label set", sorted(r.inds), sorted(out))
    hx.same(f"{label}: tags", sorted(r.tags), sorted(tags))
    if sorted(r.inds) == sorted(out):
        hx.eq(f"{label}: value aligned by label", np.transpose(r.data, tuple(r.inds.index(i) for i in out)), want)


class _Watch:
    """goal (i) for operator operands"""

    def __init__(self, hx, label, *objs):
        self.hx, self.label = hx, label
        self.objs = [(o, o.copy() if isinstance(o, (tc.Tensor, tc.TensorNetwork)) else None) for o in objs]
        self.fps = [(fp_any(o), fp_any(c) if c is not None else None) for o, c in self.objs]

    def done(self):
        for k, ((o, c), (fo, fc)) in enumerate(zip(self.objs, self.fps)):
            check_unchanged(self.hx, f"{self.label}: operand {k}", o, fo)
            if c is not None:
                check_unchanged(self.hx, f"{self.label}: earlier copy of operand {k}", c, fc)


_OPS = {"+": _op.add, "-": _op.sub, "*": _op.mul, "/": _op.truediv, "**": _op.pow}
_T1 = ("a", "b", "c")
_PERMS3 = list(itertools.permutations(range(3)))


@obligation(PROP, params=[{"op": o, "tier": "quick", "_tiers": ("quick",)} for o in _OPS] +
            [{"op": o, "tier": "thorough", "_tiers": ("thorough",)} for o in _OPS])
def tensor_binary_op(mk, op, tier):
    """T1 op T2 for tensors with equal label sets in every pair of stored orders, broadcasting by
    label, scalars on either side: value aligned by label == elementwise reference; operands intact"""
    mk.encodes(getattr(tc.Tensor, {"+": "__add__", "-": "__sub__", "*": "__mul__", "/": "__truediv__", "**": "__pow__"}[op]),
               getattr(tc.Tensor, {"+": "__radd__", "-": "__rsub__", "*": "__rmul__", "/": "__rtruediv__", "**": "__rpow__"}[op]))
    hx = HX(mk, f"{op}: ")
    fn = _OPS[op]
    k2 = "pos" if op == "/" else None
    perms1 = _PERMS3 if tier == "thorough" else _PERMS3[::2] + [_PERMS3[3]]
    perms2 = _PERMS3 if tier == "thorough" else [_PERMS3[0], _PERMS3[4]]
    for p1 in perms1:
        for p2 in perms2:
            t1 = _mkT(hx, "A", _T1, ["T", "X"], perm=p1)
            if op == "**":
                # integer exponents (a symbolic exponent is outside the polynomial engine)
                e = np.arange(12).reshape(2, 2, 3) % 4
                t2 = permute_tensor(tc.Tensor(mk.const(e) if hx.symbolic else e.astype(float), _T1, tags=["U"]), p2)
            else:
                t2 = _mkT(hx, "B", _T1, ["U"], kind=k2, perm=p2)
            w = _Watch(hx, f"T1{p1} {op} T2{p2}", t1, t2)
            r = fn(t1, t2)
            w.done()
            a1 = np.transpose(t1.data, tuple(t1.inds.index(i) for i in _T1))
            a2 = np.transpose(t2.data, tuple(t2.inds.index(i) for i in _T1))
            _check_tensor(hx, f"T1{p1} {op} T2{p2}", r, _by_label(fn, [(a1, _T1), (a2, _T1)], _T1), _T1, ["T", "X", "U"])
            hx.same(f"T1{p1} {op} T2{p2}: result keeps the stored order of the left operand", r.inds, t1.inds)
    # broadcasting by label
    for p1 in perms1[:3]:
        t1 = _mkT(hx, "A", _T1, ["T", "X"], perm=p1)
        a1 = np.transpose(t1.data, tuple(t1.inds.index(i) for i in _T1))
        if op == "**":
            small = tc.Tensor((mk.const if hx.symbolic else np.asarray)(np.array([2.0, 3.0])), ("a",), tags=["V"])
            wide = tc.Tensor((mk.const if hx.symbolic else np.asarray)(np.array([[1.0, 2.0], [3.0, 0.0]])), ("b", "z"), tags=["W"])
        else:
            small = _mkT(hx, "C", ("a",), ["V"], kind=k2)
            wide = _mkT(hx, "D", ("b", "z"), ["W"], kind=k2)
        w = _Watch(hx, f"T1{p1} {op} small", t1, small)
        r = fn(t1, small)
        w.done()
        _check_tensor(hx, f"T1{p1} {op} small('a')", r, _by_label(fn, [(a1, _T1), (small.data, ("a",))], _T1), _T1, ["T", "X", "V"])
        out = _T1 + ("z",)
        w = _Watch(hx, f"T1{p1} {op} wide", t1, wide)
        r = fn(t1, wide)
        w.done()
        _check_tensor(hx, f"T1{p1} {op} wide('b','z')", r, _by_label(fn, [(a1, _T1), (wide.data, ("b", "z"))], out), out, ["T", "X", "W"])
        if op != "**":
            t1p = _mkT(hx, "Ap", _T1, ["T", "X"], kind=k2, perm=p1) if op == "/" else t1
            w = _Watch(hx, f"small {op} T1{p1}", t1p, small)
            r = fn(small, t1p)
            w.done()
            ap = np.transpose(t1p.data, tuple(t1p.inds.index(i) for i in _T1))
            _check_tensor(hx, f"small('a') {op} T1{p1}", r, _by_label(fn, [(small.data, ("a",)), (ap, _T1)], _T1), _T1, ["T", "X", "V"])
    # scalars on either side
    for p1 in perms1[:3]:
        kind = "pos" if op == "/" else None
        t1 = _mkT(hx, "Ap" if kind else "A", _T1, ["T", "X"], kind=kind, perm=p1)
        a1 = np.transpose(t1.data, tuple(t1.inds.index(i) for i in _T1))
        if op == "**":
            s_right, s_left = 3, 10
        else:
            s_right = s_left = hx.scalar("s", "pos" if op == "/" else "cplx")
        w = _Watch(hx, f"T1{p1} {op} scalar", t1)
        r = fn(t1, s_right)
        w.done()
        _check_tensor(hx, f"T1{p1} {op} scalar", r, _by_label(lambda v: fn(v, s_right), [(a1, _T1)], _T1), _T1, ["T", "X"])
        w = _Watch(hx, f"scalar {op} T1{p1}", t1)
        r = fn(s_left, t1)
        w.done()
        _check_tensor(hx, f"scalar {op} T1{p1}", r, _by_label(lambda v: fn(s_left, v), [(a1, _T1)], _T1), _T1, ["T", "X"])


@obligation(PROP, params=[{"tier": "quick", "_tiers": ("quick",)}, {"tier": "thorough", "_tiers": ("thorough",)}])
def tensor_matmul_and_or(mk, tier):
    """@ (contraction by label), & (copying network), | (viewing network), unary -, and the
    documented in-place operators *= and /= (which must not write into arrays shared with copies)"""
    mk.encodes(tc.Tensor.__matmul__, tc.Tensor.__and__, tc.Tensor.__or__, tc.Tensor.__neg__, tc.Tensor.__imul__, tc.Tensor.__itruediv__)
    hx = HX(mk, "ops: ")
    perms1 = _PERMS3 if tier == "thorough" else _PERMS3[::2] + [_PERMS3[3]]
    for p1 in perms1:
        for p2 in ([_PERMS3[0], _PERMS3[4]] if tier == "quick" else _PERMS3):
            t1 = _mkT(hx, "A", _T1, ["T", "X"], perm=p1)
            t2 = _mkT(hx, "B", _T1, ["U"], perm=p2)
            w = _Watch(hx, f"T1{p1} @ T2{p2}", t1, t2)
            r = t1 @ t2
            w.done()
            hx.eq(f"T1{p1} @ T2{p2} (all labels shared): scalar", np.asarray(r), ref.sum_of_products([(t1.data, t1.inds), (t2.data, t2.inds)], ()))
            w = _Watch(hx, f"T1{p1} & T2{p2}", t1, t2)
            tn = t1 & t2
            tv = t1 | t2
            w.done()
            hx.same("&: copies", [t is not t1 and t is not t2 for t in tn], [True, True])
            hx.same("&: copies share the arrays", [tn.tensor_map[k].data is t.data for k, t in zip(tn.tensor_map, (t1, t2))], [True, True])
            hx.same("|: views", [a is b for a, b in zip(tv, (t1, t2))], [True, True])
            for nm, net in (("&", tn), ("|", tv)):
                hx.same(f"{nm}: labels / tags", [(t.inds, tuple(t.tags)) for t in net], [(t.inds, tuple(t.tags)) for t in (t1, t2)])
        t1 = _mkT(hx, "A", _T1, ["T", "X"], perm=p1)
        wide = _mkT(hx, "D", ("b", "z"), ["W"])
        w = _Watch(hx, f"T1{p1} @ wide", t1, wide)
        r = t1 @ wide
        w.done()
        _check_tensor(hx, f"T1{p1} @ wide('b','z')", r, ref.sum_of_products([(t1.data, t1.inds), (wide.data, wide.inds)], ("a", "c", "z")),
                      ("a", "c", "z"), ["T", "X", "W"])
        w = _Watch(hx, f"-T1{p1}", t1)
        r = -t1
        w.done()
        _check_tensor(hx, f"-T1{p1}", r, _by_label(lambda v: -v, [(t1.data, t1.inds)], t1.inds), t1.inds, ["T", "X"])
        # documented in-place operators: the receiver changes, arrays shared with copies do not
        for nm in ("*=", "/="):
            t = _mkT(hx, "A", _T1, ["T", "X"], perm=p1)
            y = t.copy()
            fy = fp_any(y)
            old = t.data
            s = hx.scalar("s", "pos")
            if nm == "*=":
                t *= s
                want = _by_label(lambda v: v * s, [(old, t.inds)], t.inds)
            else:
                t /= s
                want = _by_label(lambda v: v / s, [(old, t.inds)], t.inds)
            check_unchanged(hx, f"T1{p1} {nm} s: earlier copy", y, fy)
            hx.eq(f"T1{p1} {nm} s: value", t.data, want)
            hx.same(f"T1{p1} {nm} s: labels / tags kept", (t.inds, tuple(t.tags)), (y.inds, tuple(y.tags)))


@obligation(PROP)
def network_operators(mk):
    """tn * s, s * tn, tn / s, -tn, tn & tn2, tn | tn2, tn @ tn2, tn ^ all, tn >> tags and the
    in-place forms *=, /=, &=, |=, ^=, >>=: value == reference, operands (of the plain forms) and
    copies (of both forms) intact; same results for permuted stored axes"""
    mk.encodes(tc.TensorNetwork.__mul__, tc.TensorNetwork.__rmul__, tc.TensorNetwork.__truediv__, tc.TensorNetwork.__neg__,
               tc.TensorNetwork.__and__, tc.TensorNetwork.__or__, tc.TensorNetwork.__matmul__, tc.TensorNetwork.__xor__,
               tc.TensorNetwork.__rshift__, tc.TensorNetwork.__imul__, tc.TensorNetwork.__itruediv__, tc.TensorNetwork.__iand__,
               tc.TensorNetwork.__ior__, tc.TensorNetwork.__ixor__)
    hx = HX(mk, "tn-ops: ")
    base = R_TN3(hx)
    out = ("j", "l")
    dense0 = ref.tn_dense(base, out)
    other0 = tc.TensorNetwork([tc.Tensor(hx.arr("Z", (2, 2)), ("l", "j"), tags=["Z"])])
    s = hx.scalar("s", "pos")
    results = {}
    for how in (None, "rev", "roll", "mixed"):
        x = base if how is None else permute_network(base, how)
        other = other0 if how is None else permute_network(other0, "rev")
        tag = f"[{how or 'as built'}] "
        res = {}
        for nm, f in (("tn * s", lambda: x * s), ("s * tn", lambda: s * x), ("tn / s", lambda: x / s), ("-tn", lambda: -x),
                      ("tn & other", lambda: x & other), ("tn | other", lambda: x | other), ("tn @ other", lambda: x @ other),
                      ("tn ^ all", lambda: x ^ all), ("tn >> [A, B, C]", lambda: x >> ["A", "B", "C"])):
            w = _Watch(hx, tag + nm, x, other)
            r = f()
            w.done()
            res[nm] = r
        hx.eq(tag + "tn * s", ref.tn_dense(res["tn * s"], out), dense0 * s)
        hx.eq(tag + "s * tn", ref.tn_dense(res["s * tn"], out), dense0 * s)
        hx.eq(tag + "tn / s", ref.tn_dense(res["tn / s"], out), dense0 / s)
        hx.eq(tag + "-tn", ref.tn_dense(res["-tn"], out), -dense0)
        both = ref.sum_of_products([(dense0, out), (other0.tensors[0].data, ("l", "j"))], ())
        for nm in ("tn & other", "tn | other"):
            hx.same(tag + nm + ": tensors", res[nm].num_tensors, 4)
            hx.eq(tag + nm + ": value", ref.tn_dense(res[nm], ()), both)
        hx.same(tag + "tn | other: views", [t is u for t, u in zip(res["tn | other"], list(x) + list(other))], [True] * 4)
        hx.same(tag + "tn & other: copies", [t is not u for t, u in zip(res["tn & other"], list(x) + list(other))], [True] * 4)
        hx.eq(tag + "tn @ other", np.asarray(res["tn @ other"]), both)
        for nm in ("tn ^ all", "tn >> [A, B, C]"):
            r = res[nm]
            hx.same(tag + nm + ": labels", sorted(r.inds), sorted(out))
            hx.eq(tag + nm + ": value", np.transpose(r.data, tuple(r.inds.index(i) for i in out)), dense0)
        # in-place forms on a copy: the network they were copied from stays intact
        for nm in ("*=", "/=", "&=", "|=", "^=", ">>="):
            z = x.copy()
            fx = fp_any(x)
            if nm == "*=":
                z *= s
                hx.eq(tag + "tn *= s", ref.tn_dense(z, out), dense0 * s)
            elif nm == "/=":
                z /= s
                hx.eq(tag + "tn /= s", ref.tn_dense(z, out), dense0 / s)
            elif nm == "&=":
                w = _Watch(hx, tag + "tn &= other", other)
                z &= other
                w.done()
                hx.eq(tag + "tn &= other", ref.tn_dense(z, ()), both)
            elif nm == "|=":
                oc = other.copy()
                z |= oc
                hx.eq(tag + "tn |= other", ref.tn_dense(z, ()), both)
            elif nm == ">>=":
                z >>= ["A", "B", "C"]
                hx.eq(tag + "tn >>= [A, B, C]", ref.tn_dense(z, out), dense0)
            else:
                z ^= all
                hx.eq(tag + "tn ^= all", ref.tn_dense(z, out), dense0)
            check_unchanged(hx, tag + f"tn {nm}: network the receiver was copied from", x, fx)


@obligation(PROP)
def network_sums_axis_order(mk):
    """third round: sums of two structure-matching networks -- tensor_network_sum (generic), tensor_network_ag_sum (a + b, a - b on
    arbitrary-geometry vectors) and MatrixProductState + / - -- give dense(A) +/- dense(B) whatever the stored axis order of the
    tensors of EITHER operand (each operand permuted independently), and leave both operands untouched"""
    mk.encodes(tc.tensor_network_sum, tc.tensor_direct_product, qtn.tensor_network_ag_sum,
               qtn.MatrixProductState.__add__, qtn.MatrixProductState.__sub__)
    hx = HX(mk, "tn-sum: ")
    hy = HX(mk, "tn-sum-b: ")
    A = R_TNC(hx)
    B = R_TNC(hy)
    out = ("p", "q", "r")
    dA, dB = ref.tn_dense(A, out), ref.tn_dense(B, out)
    for ha in (None, "rev", "roll", "mixed"):
        for hb in (None, "rev", "mixed"):
            a = A if ha is None else permute_network(A, ha)
            b = B if hb is None else permute_network(B, hb)
            tag = f"[A {ha or 'as built'}, B {hb or 'as built'}] "
            w = _Watch(hx, tag + "tensor_network_sum", a, b)
            r = tc.tensor_network_sum(a, b)
            w.done()
            hx.same(tag + "tensor_network_sum: outer labels", sorted(r.outer_inds()), sorted(out))
            hx.eq(tag + "tensor_network_sum == dense(A) + dense(B)", ref.tn_dense(r, out), dA + dB)
    # stored exponents on either operand: the sum is of the denoted values (ref.tn_dense includes 10**exponent)
    for ea, eb in ((1.0, 0.0), (0.0, 3.0), (1.0, -2.0), (2.0, 2.0)):
        a, b = A.copy(), B.copy()
        a.exponent, b.exponent = ea, eb
        w = _Watch(hx, f"[exponents {ea}, {eb}] tensor_network_sum", a, b)
        r = tc.tensor_network_sum(a, b)
        w.done()
        hx.eq(f"[exponents {ea}, {eb}] tensor_network_sum == 10**ea dense(A) + 10**eb dense(B)", ref.tn_dense(r, out), dA * 10 ** ea + dB * 10 ** eb)
    # arbitrary-geometry vectors and MPS: operators + and -
    sites = (0, 1, 2)

    def gen_vec(h):
        ts = [_T(h, "V0", (2, 2), ("b01", "k0"), ["I0"]), _T(h, "V1", (2, 2, 2), ("b01", "b12", "k1"), ["I1"]),
              _T(h, "V2", (2, 2), ("b12", "k2"), ["I2"])]
        return qtn.TensorNetworkGenVector.from_TN(tc.TensorNetwork(ts), site_tag_id="I{}", site_ind_id="k{}", sites=sites)

    def mps(h):
        return qtn.MatrixProductState([h.arr("M0", (2, 2)), h.arr("M1", (2, 2, 2)), h.arr("M2", (2, 2))])

    kout = ("k0", "k1", "k2")
    for nm, mkr in (("TensorNetworkGenVector", gen_vec), ("MatrixProductState", mps)):
        X, Y = mkr(hx), mkr(hy)
        dX, dY = ref.tn_dense(X, kout), ref.tn_dense(Y, kout)
        for ha, hb in ((None, None), ("rev", None), (None, "rev"), ("mixed", "roll"), ("roll", "rev")):
            x = X if ha is None else permute_network(X, ha)
            y = Y if hb is None else permute_network(Y, hb)
            tag = f"[{nm}: a {ha or 'as built'}, b {hb or 'as built'}] "
            w = _Watch(hx, tag + "a + b / a - b", x, y)
            rp, rm = x + y, x - y
            w.done()
            hx.eq(tag + "a + b == dense(a) + dense(b)", ref.tn_dense(rp, kout), dX + dY)
            hx.eq(tag + "a - b == dense(a) - dense(b)", ref.tn_dense(rm, kout), dX - dY)
        for ea, eb in ((1.0, 0.0), (0.0, 3.0), (1.0, -2.0)):
            x, y = X.copy(), Y.copy()
            x.exponent, y.exponent = ea, eb
            w = _Watch(hx, f"[{nm}: exponents {ea}, {eb}] a + b / a - b", x, y)
            rp, rm = x + y, x - y
            w.done()
            hx.eq(f"[{nm}: exponents {ea}, {eb}] a + b == 10**ea dense(a) + 10**eb dense(b)", ref.tn_dense(rp, kout), dX * 10 ** ea + dY * 10 ** eb)
            hx.eq(f"[{nm}: exponents {ea}, {eb}] a - b == 10**ea dense(a) - 10**eb dense(b)", ref.tn_dense(rm, kout), dX * 10 ** ea - dY * 10 ** eb)


# ======================================================================================
# reflection obligation + META
# ======================================================================================

_BINOP_NAMES = ("add", "sub", "mul", "truediv", "pow", "matmul", "and", "or", "xor", "rshift", "lshift", "floordiv", "mod")


def reflect_operators():
    out = []
    for cls in (tc.Tensor, tc.TensorNetwork):
        for n in _BINOP_NAMES:
            for pre in ("", "r", "i"):
                nm = f"__{pre}{n}__"
                if nm in cls.__dict__:
                    out.append(f"{cls.__name__}.{nm}")
        if "__neg__" in cls.__dict__:
            out.append(f"{cls.__name__}.__neg__")
    return out


OPERATORS = reflect_operators()
_OPS_COVERED = {f"Tensor.__{p}{n}__" for n in ("add", "sub", "mul", "truediv", "pow") for p in ("", "r")} | \
    {"Tensor.__matmul__", "Tensor.__and__", "Tensor.__or__", "Tensor.__neg__", "Tensor.__imul__", "Tensor.__itruediv__"} | \
    {f"TensorNetwork.__{n}__" for n in ("mul", "rmul", "truediv", "neg", "and", "or", "matmul", "xor", "rshift", "imul", "itruediv",
                                       "iand", "ior", "ixor", "irshift")}


def _coverage():
    by = {}
    for cs in CASES:
        by.setdefault((cs.cls, cs.method), []).append(cs)
    sym, conc, skipped = [], {}, []
    for key in PAIRS:
        name = f"{key[0]}.{key[1]}"
        if key not in by:
            skipped.append(name)
        elif any(c.sym for c in by[key]):
            sym.append(name)
        else:
            conc[name] = sorted({c.why for c in by[key] if c.why})[0] if any(c.why for c in by[key]) else "concrete"
    mixed = [f"{c}.{m}" for (c, m) in by if (c, m) not in PAIRS]
    return sym, conc, skipped, mixed


COV_SYM, COV_CONC, COV_SKIPPED, COV_MIXED = _coverage()
_PER_CLASS = {}
for _c, _m in PAIRS:
    _PER_CLASS[_c] = _PER_CLASS.get(_c, 0) + 1


@obligation(PROP)
def reflection(mk):
    """every reflected f_ is functools.partialmethod(<the very function behind f>, inplace=True)
    with the same other bound keywords, and the plain spelling does not default to inplace=True"""
    mk.note(f"reflected {len(PAIRS)} (f, f_) pairs on {len(_PER_CLASS)} classes: {_PER_CLASS}")
    mk.note(f"covered {len(COV_SYM) + len(COV_CONC)} pairs: {len(COV_SYM)} on symbolic data, {len(COV_CONC)} on concrete data only")
    mk.note("skipped: " + (", ".join(COV_SKIPPED) or "none"))
    mk.note("concrete only: " + "; ".join(f"{k} ({v})" for k, v in COV_CONC.items()))
    mk.note("excluded (in place by documented default): " + "; ".join(f"{c}.{n}: {w}" for c, n, w in EXCLUDED))
    mk.note("inherited pairs whose two spellings resolve to different functions: " +
            "; ".join(f"{c}.{n} (f_ from {o_}, f from {o})" for c, n, o_, o in MIXED))
    mk.note("operators reflected: " + ", ".join(OPERATORS) + "; not exercised: " + (", ".join(o for o in OPERATORS if o not in _OPS_COVERED) or "none"))
    for cn, name in PAIRS:
        cls = CLS[cn]
        v, pv = _lookup(cls, name + "_"), _lookup(cls, name)
        (f_, kw_), (f, kw) = _resolved(v), _resolved(pv)
        mk.same(f"{cn}.{name}_ is partialmethod({cn}.{name}, inplace=True)", (f_ is f, kw_), (True, kw))
        try:
            par = inspect.signature(f).parameters
        except (TypeError, ValueError):
            continue
        if "inplace" in par:
            mk.same(f"{cn}.{name}: inplace defaults to False", par["inplace"].default, False)
        else:
            mk.same(f"{cn}.{name}: accepts inplace through **kwargs", any(p.kind is p.VAR_KEYWORD for p in par.values()), True)
    # every mixed pair found by reflection has a dynamic case
    have = {(cs.cls, cs.method) for cs in CASES if cs.opts.get("mixed")}
    for c, n, o_, o in MIXED:
        mk.same(f"mixed pair {c}.{n} (or a subclass) has a dynamic case", any(m == n and issubclass(CLS[cc], CLS[c]) for cc, m in have), True)


META = {
    "bounds": {
        "quick": {
            "pairs_reflected": len(PAIRS), "pairs_per_class": _PER_CLASS,
            "pairs_covered_symbolically": COV_SYM, "pairs_covered_on_concrete_data_only": COV_CONC, "pairs_skipped": COV_SKIPPED,
            "inherited_pairs_with_different_spellings": [f"{c}.{n} (f_ from {o_}, f from {o})" for c, n, o_, o in MIXED],
            "excluded": [f"{c}.{n}: {w}" for c, n, w in EXCLUDED],
            "receivers": {k: (v.__doc__ or "").strip() for k, v in RECEIVERS.items()},
            "arguments": "1-6 hand written argument tuples per method (see CASES)",
            "axis_permutations": "Tensor receivers: all 5 non-trivial permutations of the 3 stored axes; networks: every tensor reversed; "
                                 "tensor / network arguments reversed; plain networks also rebuilt with reversed insertion order",
            "operators": OPERATORS, "operator_operands": "rank-3 x rank-3 in 4x2 stored orders, broadcast against rank-1 / rank-2, scalars",
            "numeric": "1 numeric cross-run of every obligation on random float / complex data (fingerprints compare bytes)",
        },
        "thorough": {
            "pairs_reflected": len(PAIRS), "pairs_covered_symbolically": len(COV_SYM), "pairs_covered_on_concrete_data_only": len(COV_CONC),
            "pairs_skipped": COV_SKIPPED,
            "axis_permutations": "networks: every tensor reversed / rolled / three mixed assignments of permutations; operators: all 6x6 stored orders",
            "extra_cases": [cs.name for cs in CASES if cs.tiers == ("thorough",)],
            "numeric": "2 numeric cross-runs",
        },
    },
    "outside": [
        "methods with an `inplace` keyword but no trailing-underscore twin (trace, partition, contract_cumulative, retag_sites, ...)",
        "values of results of RNG based methods (isel 'r', rand_reduce, randomize, gauge_all_random, measure without outcome): seeded, "
        "structure and non-mutation only under axis permutations",
        "iterative / truncating drivers are run on concrete float data only (listed in pairs_covered_on_concrete_data_only); their results "
        "are compared as dense values with a 1e-7 relative tolerance",
        "gauge dependent results (QR / SVD based): under axis permutations only labels, tags, dims and the dense value over the outer labels "
        "are compared, not the individual tensors nor which labels are flagged in left_inds",
        "truncated compression of a loopy network under a reversed insertion order (the approximation follows the bond order)",
        "jax / torch / cupy backends, block-sparse and fermionic arrays, Tensor.owners weak references, lazily filled private caches",
        "floating point rounding",
    ],
    "assumptions": [
        "LAPACK qr / svd / eigh return factors meeting their contracts (stubs); a routine called twice on structurally identical symbolic "
        "input returns the same factors (LAPACK routines are deterministic functions)",
        "left_inds=None makes no claim: under axis permutations a result may drop left_inds but two results may not flag different label sets "
        "(stub-free methods)",
        "labels containing quimb's rand_uuid prefix are randomly generated names: compared after canonical renaming by the positions of the "
        "tensors they join",
    ],
}
